// Package c17: the legacy library golang.org/x/perf/benchstat (Collection,
// Tables, deltas, sorting, geomean) follows its documented statistics.
//
// Oracle: an independent recomputation (oracle_test.go) of the retained
// values (R8 quartiles, 1.5·IQR fences, exact arithmetic), their
// min/mean/max, the significance gate, the percentage delta and its
// direction, the notes, the table/row order (first appearance or the stable
// sort of it) and the geomean row.
package c17

import (
	"bytes"
	"encoding/csv"
	"fmt"
	"math"
	"regexp"
	"strconv"
	"strings"
	"testing"

	"golang.org/x/perf/benchstat"
	"golang.org/x/perf/storage/benchfmt"
	"pgregory.net/rapid"
	"verif/harness/lib/refstat"
	"verif/harness/lib/vcase"
)

// ---------------------------------------------------------------------------
// case

// Pair is one "value unit" pair of a benchmark line; V is the literal text.
type Pair struct {
	V string `json:"v"`
	U string `json:"u"`
}

// Item is one input line of a configuration: a benchmark line (K "b"), a
// file label line "key: value" (K "l") or a noise line (K "n").
type Item struct {
	K     string `json:"k"`
	Name  string `json:"name,omitempty"` // benchmark name without the "Benchmark" prefix
	Iters int    `json:"iters,omitempty"`
	Pairs []Pair `json:"pairs,omitempty"`
	Tab   bool   `json:"tab,omitempty"` // fields separated by tabs and padding instead of one space
	// PureTab: every field separator is a single tab (a line without any blank)
	PureTab bool   `json:"puretab,omitempty"`
	Key     string `json:"key,omitempty"`
	Val     string `json:"val,omitempty"`
	Text    string `json:"text,omitempty"`
}

// Config is one configuration (input file) and how it is fed to the library.
type Config struct {
	Name  string `json:"name"`
	Via   string `json:"via"` // "text" (AddConfig) or "results" (AddResults)
	Items []Item `json:"items"`
}

type Case struct {
	Configs []Config `json:"configs"`
	Test    string   `json:"test"`  // "default" (nil), "utest", "ttest", "none"
	Alpha   float64  `json:"alpha"` // 0 (default 0.05), 0.01, 0.05, 0.5
	SplitBy []string `json:"split_by"`
	Order   string   `json:"order"` // "", "name", "delta", "rname", "rdelta", "rrdelta"
	GeoMean bool     `json:"geomean"`
	NoRange bool     `json:"norange"`
	Gen     string   `json:"gen"` // generator class (label only)
}

func (it Item) line() string {
	switch it.K {
	case "l":
		return it.Key + ": " + it.Val
	case "n":
		return it.Text
	}
	var b strings.Builder
	b.WriteString("Benchmark" + it.Name)
	sep := " "
	if it.Tab {
		sep = "  \t "
	}
	usep := " "
	if it.PureTab {
		sep, usep = "\t", "\t"
	}
	b.WriteString(sep + strconv.Itoa(it.Iters))
	for _, p := range it.Pairs {
		b.WriteString(sep + p.V + usep + p.U)
	}
	return b.String()
}

// ---------------------------------------------------------------------------
// reference model of the input

type cellKey struct {
	cfg   int
	group string
	bench string
	unit  string
}

type gb struct{ group, bench string }

type model struct {
	units   []string
	groups  []string
	benches map[string][]string // per group, first appearance
	cells   map[cellKey][]float64
}

func addOnce(s *[]string, x string) {
	for _, y := range *s {
		if y == x {
			return
		}
	}
	*s = append(*s, x)
}

// nameLabels decomposes a benchmark name as the benchmark format documents:
// a trailing -N is gomaxprocs, the first /-separated part is the name, later
// parts are key=value or positional subN.
func nameLabels(name string) map[string]string {
	l := map[string]string{}
	if i := strings.LastIndex(name, "-"); i >= 0 {
		if _, err := strconv.Atoi(name[i+1:]); err == nil {
			l["gomaxprocs"] = name[i+1:]
			name = name[:i]
		}
	}
	parts := strings.Split(name, "/")
	l["name"] = parts[0]
	for i, p := range parts[1:] {
		if j := strings.Index(p, "="); j >= 0 {
			l[p[:j]] = p[j+1:]
		} else {
			l["sub"+strconv.Itoa(i+1)] = p
		}
	}
	return l
}

func groupOf(splitBy []string, nl, fl map[string]string) string {
	var parts []string
	for _, s := range splitBy {
		v := nl[s]
		if v == "" {
			v = fl[s]
		}
		if v != "" {
			parts = append(parts, s+":"+v)
		}
	}
	return strings.Join(parts, " ")
}

var okUnit = regexp.MustCompile(`^[A-Za-z][-A-Za-z0-9/]*$`)
var okName = regexp.MustCompile(`^[A-Z][A-Za-z0-9]*(/[a-z0-9=]+)*(-[0-9]+)?$`)
var okKey = regexp.MustCompile(`^[a-z]+$`)
var okVal = regexp.MustCompile(`^[a-z0-9]+$`)
var noiseTexts = []string{"PASS", "", "ok  \texample/pkg\t1.234s", "--- BENCH: BenchmarkFoo", "FAIL"}
var okNoise = func() map[string]bool {
	m := map[string]bool{}
	for _, s := range noiseTexts {
		m[s] = true
	}
	return m
}()

// inDomain checks that the case is one the generator could have produced
// (replay files are decoded straight into Check).
func inDomain(c Case) bool {
	if len(c.Configs) < 1 || len(c.Configs) > 4 {
		return false
	}
	seen := map[string]bool{}
	for _, cf := range c.Configs {
		if cf.Name == "" || seen[cf.Name] || (cf.Via != "text" && cf.Via != "results") {
			return false
		}
		seen[cf.Name] = true
		first := true
		for _, it := range cf.Items {
			switch it.K {
			case "b":
				first = false
				if !okName.MatchString(it.Name) || it.Iters < 1 || len(it.Pairs) < 1 {
					return false
				}
				for _, p := range it.Pairs {
					f, err := strconv.ParseFloat(p.V, 64)
					if err != nil || math.IsNaN(f) || math.IsInf(f, 0) || f < 0 || !okUnit.MatchString(p.U) {
						return false
					}
				}
			case "l":
				if !okKey.MatchString(it.Key) || !okVal.MatchString(it.Val) {
					return false
				}
			case "n":
				// noise only after the first benchmark line (a blank line before it
				// would start the format's permanent file header)
				if first || !okNoise[it.Text] {
					return false
				}
			default:
				return false
			}
		}
	}
	switch c.Test {
	case "default", "utest", "ttest", "none":
	default:
		return false
	}
	switch c.Alpha {
	case 0, 0.01, 0.05, 0.5:
	default:
		return false
	}
	switch c.Order {
	case "", "name", "delta", "rname", "rdelta", "rrdelta":
	default:
		return false
	}
	return true
}

func buildModel(c Case) *model {
	m := &model{benches: map[string][]string{}, cells: map[cellKey][]float64{}}
	for ci, cf := range c.Configs {
		fl := map[string]string{}
		for _, it := range cf.Items {
			switch it.K {
			case "l":
				fl[it.Key] = it.Val
			case "b":
				g := groupOf(c.SplitBy, nameLabels(it.Name), fl)
				for _, p := range it.Pairs {
					f, _ := strconv.ParseFloat(p.V, 64)
					k := cellKey{ci, g, it.Name, p.U}
					if _, ok := m.cells[k]; !ok {
						addOnce(&m.groups, g)
						bs := m.benches[g]
						addOnce(&bs, it.Name)
						m.benches[g] = bs
						addOnce(&m.units, p.U)
					}
					m.cells[k] = append(m.cells[k], f)
				}
			}
		}
	}
	return m
}

func feed(c Case) *benchstat.Collection {
	col := &benchstat.Collection{Alpha: c.Alpha, AddGeoMean: c.GeoMean}
	if len(c.SplitBy) > 0 {
		col.SplitBy = append([]string(nil), c.SplitBy...)
	}
	switch c.Test {
	case "utest":
		col.DeltaTest = benchstat.UTest
	case "ttest":
		col.DeltaTest = benchstat.TTest
	case "none":
		col.DeltaTest = benchstat.NoDeltaTest
	}
	switch c.Order {
	case "name":
		col.Order = benchstat.ByName
	case "delta":
		col.Order = benchstat.ByDelta
	case "rname":
		col.Order = benchstat.Reverse(benchstat.ByName)
	case "rdelta":
		col.Order = benchstat.Reverse(benchstat.ByDelta)
	case "rrdelta":
		col.Order = benchstat.Reverse(benchstat.Reverse(benchstat.ByDelta))
	}
	for _, cf := range c.Configs {
		if cf.Via == "text" {
			var b bytes.Buffer
			for _, it := range cf.Items {
				b.WriteString(it.line())
				b.WriteByte('\n')
			}
			col.AddConfig(cf.Name, b.Bytes())
			continue
		}
		// hand-built results, as a storage reader would deliver them
		var rs []*benchfmt.Result
		fl := benchfmt.Labels{}
		for i, it := range cf.Items {
			switch it.K {
			case "l":
				nfl := benchfmt.Labels{}
				for k, v := range fl {
					nfl[k] = v
				}
				nfl[it.Key] = it.Val
				fl = nfl
			case "b":
				nl := benchfmt.Labels{}
				for k, v := range nameLabels(it.Name) {
					nl[k] = v
				}
				rs = append(rs, &benchfmt.Result{Labels: fl, NameLabels: nl, LineNum: i + 1, Content: it.line()})
			}
		}
		col.AddResults(cf.Name, rs)
	}
	return col
}

// ---------------------------------------------------------------------------
// check

const geoName = "[Geo mean]"

type cellRef struct {
	retained []float64
	min, max float64
	mean     float64
}

func bitsEq(a, b []float64) bool {
	if len(a) != len(b) {
		return false
	}
	for i := range a {
		if math.Float64bits(a[i]) != math.Float64bits(b[i]) {
			return false
		}
	}
	return true
}

func ulps(x float64, n int, up bool) float64 {
	for i := 0; i < n; i++ {
		if up {
			x = math.Nextafter(x, math.Inf(1))
		} else {
			x = math.Nextafter(x, math.Inf(-1))
		}
	}
	return x
}

func relClose(a, b, tol float64) bool {
	if a == b {
		return true
	}
	if math.IsInf(a, 0) || math.IsInf(b, 0) || math.IsNaN(a) || math.IsNaN(b) {
		return false // (an infinite or undefined value is close to nothing but itself)
	}
	return math.Abs(a-b) <= tol*math.Max(math.Abs(a), math.Abs(b))
}

// checkCell compares one library cell with the reference and returns the
// reference statistics (near-fence values follow the library's decision).
func checkCell(v *vcase.Verdict, where string, vals []float64, m *benchstat.Metrics, unit string) (cellRef, bool) {
	var r cellRef
	if m.Unit != unit {
		v.Failf("%s: cell unit %q, want %q", where, m.Unit, unit)
		return r, false
	}
	if !bitsEq(m.Values, vals) {
		v.Failf("%s: Values %v, want the input values in input order %v", where, m.Values, vals)
		return r, false
	}
	cls := classify(vals)
	j := 0
	nearSeen := false
	for i, x := range vals {
		take := false
		switch cls[i] {
		case inside:
			take = true
		case near:
			nearSeen = true
			take = j < len(m.RValues) && math.Float64bits(m.RValues[j]) == math.Float64bits(x)
		}
		if take {
			if j >= len(m.RValues) || math.Float64bits(m.RValues[j]) != math.Float64bits(x) {
				v.Failf("%s: retained values %v do not match the values within 1.5 IQR of the quartiles (input %v, classes %v; 0 inside 1 outside 2 near-fence): value #%d = %v should be retained", where, m.RValues, vals, cls, i, x)
				return r, false
			}
			r.retained = append(r.retained, x)
			j++
		}
	}
	if j != len(m.RValues) {
		v.Failf("%s: retained values %v, want %v (input %v, classes %v; 0 inside 1 outside 2 near-fence)", where, m.RValues, r.retained, vals, cls)
		return r, false
	}
	if nearSeen {
		v.Label("near_fence_skipped")
	}
	if len(r.retained) < len(vals) {
		v.Label("outlier_dropped")
	}
	if len(r.retained) == 0 {
		v.Failf("%s: no value retained from %v", where, vals)
		return r, false
	}
	r.min, r.max = r.retained[0], r.retained[0]
	for _, x := range r.retained {
		r.min = math.Min(r.min, x)
		r.max = math.Max(r.max, x)
	}
	r.mean, _ = exactMeanVar(r.retained)
	if m.Min != r.min || m.Max != r.max {
		v.Failf("%s: Min/Max %v/%v, want %v/%v of retained %v", where, m.Min, m.Max, r.min, r.max, r.retained)
		return r, false
	}
	if !relClose(m.Mean, r.mean, 1e-12) {
		v.Failf("%s: Mean %v, want %v of retained %v", where, m.Mean, r.mean, r.retained)
		return r, false
	}
	if !(m.Mean >= ulps(m.Min, 2, false) && m.Mean <= ulps(m.Max, 2, true)) {
		v.Failf("%s: min <= mean <= max violated: %v %v %v", where, m.Min, m.Mean, m.Max)
		return r, false
	}
	return r, true
}

var noteRE = regexp.MustCompile(`^\(p=([0-9.]+) n=([0-9]+)\+([0-9]+)\)$`)

func alphaFrac(a float64) (num, den uint64) {
	switch a {
	case 0.01:
		return 1, 100
	case 0.5:
		return 1, 2
	}
	return 1, 20
}

// checkDelta checks the comparison columns of one row of a two-configuration
// table.
func checkDelta(v *vcase.Verdict, where string, c Case, unit string, row *benchstat.Row, old, new cellRef) bool {
	alpha := c.Alpha
	if alpha == 0 {
		alpha = 0.05
	}
	om, nm := row.Metrics[0], row.Metrics[1]
	a, b := old.retained, new.retained

	// which outcome does the documentation give?
	reason := []string(nil) // acceptable reason notes, when the test cannot be computed
	var plib float64        // the library's own p-value for this row (consistency relations)
	havePlib := false
	refGate := 0 // +1 reference says p < alpha, -1 says p >= alpha, 0 no independent statement
	refP := math.NaN()
	refTol := 0.0
	switch c.Test {
	case "none":
		// NoDeltaTest is documented to return -1: always below alpha, no note.
	case "default", "utest":
		if allEqual(append(append([]float64(nil), a...), b...)) {
			reason = []string{"(all equal)"}
			v.Label("note_all_equal")
			break
		}
		p, err := benchstat.UTest(om, nm)
		if err != nil {
			v.Failf("%s: UTest on the row's metrics failed (%v) although the retained samples %v / %v are not all equal", where, err, a, b)
			return false
		}
		plib, havePlib = p, true
		if hasTies(a, b) {
			v.Label("u_tied_consistency_only")
			break
		}
		if len(a)+len(b) > 64 {
			// arrangement counts exceed 64 bits: float64 counts, gate only with a margin
			if len(a) > 50 || len(b) > 50 {
				// beyond 50 untied values per sample the test is documented to use the
				// continuity-corrected normal approximation (C11)
				ones := make([]int, len(a)+len(b))
				for i := range ones {
					ones[i] = 1
				}
				refP, _ = refstat.NormalApprox(2*uStat(a, b), len(a), len(b), ones, 0)
				refTol = 1e-9
				v.Label("p_u_normal_approx")
			} else {
				refP, refTol = uTwoSidedFloat(len(a), len(b), uStat(a, b)), 1e-9
				v.Label("p_u_counted_float")
			}
			if refP < alpha-1e-9 {
				refGate = +1
			} else if refP > alpha+1e-9 {
				refGate = -1
			}
			break
		}
		var counts []uint64
		if len(a)+len(b) <= 14 {
			counts = uCountsEnum(len(a), len(b))
			v.Label("p_u_enumerated")
		} else {
			counts = uCountsDP(len(a), len(b))
			v.Label("p_u_counted")
		}
		num, den := uTwoSided(counts, uStat(a, b))
		refP, refTol = float64(num)/float64(den), 1e-9
		an, ad := alphaFrac(alpha)
		switch l, r := num*ad, an*den; {
		case l < r:
			refGate = +1
		case l > r:
			refGate = -1
		default:
			v.Label("p_equals_alpha")
		}
	case "ttest":
		if len(a) <= 1 || len(b) <= 1 {
			reason = []string{"(too few samples)"}
			v.Label("note_too_few")
			if allEqual(a) && allEqual(b) {
				reason = append(reason, "(zero variance)")
			}
			break
		}
		if allEqual(a) && allEqual(b) {
			reason = []string{"(zero variance)"}
			v.Label("note_zero_variance")
			break
		}
		p, err := benchstat.TTest(om, nm)
		if err != nil {
			v.Failf("%s: TTest on the row's metrics failed (%v) for retained samples %v / %v", where, err, a, b)
			return false
		}
		plib, havePlib = p, true
		t, nu := welch(a, b)
		refP = tTwoSided(t, nu)
		// The library works in float64: its running means and variances of
		// n values carry a relative error of about n·2^-53 each, which the
		// t statistic amplifies by |mean|/(standard error) and
		// |mean|/(standard deviation). |t·dp/dt| < 1 and dp/dt < 1, so the
		// p-value moves by at most about that amount.
		refTol = 1e-6 + 50*float64(len(a)+len(b))*0x1p-53*tCondition(a, b)
		v.Label("p_t_integrated")
		if refP < alpha-2*refTol {
			refGate = +1
		} else if refP > alpha+2*refTol {
			refGate = -1
		} else {
			v.Label("p_equals_alpha")
		}
	}

	if reason != nil {
		ok := false
		for _, r := range reason {
			ok = ok || row.Note == r
		}
		if !ok || row.Delta != "~" || row.PctDelta != 0 || row.Change != 0 {
			v.Failf("%s: test not computable for retained %v / %v: want delta \"~\" with note %v, got delta %q pct %v change %d note %q", where, a, b, reason, row.Delta, row.PctDelta, row.Change, row.Note)
			return false
		}
		return true
	}

	shown := row.Delta != "~"
	if havePlib {
		if math.IsNaN(plib) {
			v.Failf("%s: the test's p-value is NaN for retained %v / %v", where, a, b)
			return false
		}
		if !math.IsNaN(refP) && math.Abs(plib-refP) > refTol {
			v.Failf("%s: %s p-value %v, reference %v (retained %v / %v)", where, c.Test, plib, refP, a, b)
			return false
		}
		if shown != (plib < alpha) {
			v.Failf("%s: delta %q but the chosen test's p-value is %v and alpha is %v (a delta appears iff p < alpha)", where, row.Delta, plib, alpha)
			return false
		}
		if refGate != 0 && shown != (refGate > 0) {
			v.Failf("%s: delta %q but the reference p-value is %v and alpha is %v", where, row.Delta, refP, alpha)
			return false
		}
		// the note carries the p-value and the retained sample sizes; it is
		// required next to "~" and checked whenever it is present
		if row.Note != "" || !shown {
			mm := noteRE.FindStringSubmatch(row.Note)
			if mm == nil {
				v.Failf("%s: note %q next to delta %q: want the p-value and the retained sample sizes", where, row.Note, row.Delta)
				return false
			}
			pn, _ := strconv.ParseFloat(mm[1], 64)
			n0, _ := strconv.Atoi(mm[2])
			n1, _ := strconv.Atoi(mm[3])
			if n0 != len(a) || n1 != len(b) {
				v.Failf("%s: note %q, retained sample sizes are %d+%d", where, row.Note, len(a), len(b))
				return false
			}
			dec := 0
			if i := strings.Index(mm[1], "."); i >= 0 {
				dec = len(mm[1]) - i - 1
			}
			half := 0.5*math.Pow(10, -float64(dec)) + 1e-9
			if math.Abs(pn-plib) > half || (!math.IsNaN(refP) && math.Abs(pn-refP) > half+refTol) {
				v.Failf("%s: note %q does not show the p-value %v (reference %v)", where, row.Note, plib, refP)
				return false
			}
		}
	} else { // NoDeltaTest
		if !shown {
			v.Failf("%s: NoDeltaTest (p = -1 < alpha) but delta is %q", where, row.Delta)
			return false
		}
		if row.Note != "" {
			v.Failf("%s: NoDeltaTest but note %q", where, row.Note)
			return false
		}
	}

	if !shown {
		if row.PctDelta != 0 || row.Change != 0 {
			v.Failf("%s: delta \"~\" but PctDelta %v Change %d", where, row.PctDelta, row.Change)
			return false
		}
		v.Label("insignificant")
		return true
	}
	if havePlib {
		v.Label("significant")
	}
	if !strings.HasSuffix(row.Delta, "%") {
		v.Failf("%s: delta %q is not a percentage", where, row.Delta)
		return false
	}
	shownPct, err := strconv.ParseFloat(strings.TrimSuffix(row.Delta, "%"), 64)
	if err != nil {
		v.Failf("%s: delta %q is not a percentage", where, row.Delta)
		return false
	}
	if om.Mean == nm.Mean {
		v.Label("delta_zero")
		if row.PctDelta != 0 || shownPct != 0 {
			v.Failf("%s: equal means %v but PctDelta %v delta %q", where, om.Mean, row.PctDelta, row.Delta)
			return false
		}
		return true
	}
	higherBetter := unit == "MB/s"
	wantChange := -1
	if (nm.Mean > om.Mean) == higherBetter {
		wantChange = +1
	}
	if row.Change != wantChange {
		v.Failf("%s: Change %d, want %d (old mean %v, new mean %v, unit %q, higher is better: %v)", where, row.Change, wantChange, om.Mean, nm.Mean, unit, higherBetter)
		return false
	}
	if wantChange > 0 {
		v.Label("improvement")
	} else {
		v.Label("regression")
	}
	if om.Mean == 0 {
		v.Label("old_mean_zero")
		if !math.IsInf(row.PctDelta, +1) {
			v.Failf("%s: old mean 0, new mean %v: PctDelta %v", where, nm.Mean, row.PctDelta)
			return false
		}
		return true
	}
	want := (nm.Mean/om.Mean - 1) * 100
	want2 := (new.mean/old.mean - 1) * 100
	if math.Abs(row.PctDelta-want) > 1e-9*(100+math.Abs(want)) || math.Abs(row.PctDelta-want2) > 1e-8*(100+math.Abs(want2)) {
		v.Failf("%s: PctDelta %v, want (new mean/old mean - 1)*100 = %v (means %v -> %v)", where, row.PctDelta, want, om.Mean, nm.Mean)
		return false
	}
	if math.Abs(shownPct-row.PctDelta) > 0.005*(1+1e-9)+1e-9*math.Abs(row.PctDelta) {
		v.Failf("%s: delta %q does not show PctDelta %v", where, row.Delta, row.PctDelta)
		return false
	}
	return true
}

func geoMean(xs []float64) float64 {
	s, comp := 0.0, 0.0
	for _, x := range xs {
		y := math.Log(x) - comp
		t := s + y
		comp = (t - s) - y
		s = t
	}
	return math.Exp(s / float64(len(xs)))
}

type expRow struct {
	group, bench string
	lib          *benchstat.Row
}

// stableSort is an insertion sort (stable by construction).
func stableSort(rows []expRow, less func(a, b expRow) bool) {
	for i := 1; i < len(rows); i++ {
		for j := i; j > 0 && less(rows[j], rows[j-1]); j-- {
			rows[j], rows[j-1] = rows[j-1], rows[j]
		}
	}
}

func deltaKey(r *benchstat.Row) float64 {
	return math.Abs(r.PctDelta) * float64(r.Change)
}

func Check(c Case) (v vcase.Verdict) {
	if !inDomain(c) {
		return
	}
	m := buildModel(c)
	ncfg := len(c.Configs)
	v.Label(fmt.Sprintf("configs=%d", ncfg))
	v.Label("test=" + c.Test)
	v.Label("gen=" + c.Gen)
	if len(m.groups) > 1 {
		v.Label("groups>1")
	}

	col := feed(c)
	tables := col.Tables() // exactly once: a second call would append to RValues again

	// ---- expected tables and rows
	type expTable struct {
		unit string
		rows []expRow
	}
	hasCell := func(ci int, g, b, u string) bool { _, ok := m.cells[cellKey{ci, g, b, u}]; return ok }
	var exp []expTable
	missing := false
	for _, u := range m.units {
		et := expTable{unit: u}
		for _, g := range m.groups {
			for _, b := range m.benches[g] {
				n := 0
				for ci := 0; ci < ncfg; ci++ {
					if hasCell(ci, g, b, u) {
						n++
					}
				}
				if n < ncfg {
					missing = true
				}
				if n == 0 || (ncfg == 2 && n < 2) {
					continue
				}
				et.rows = append(et.rows, expRow{group: g, bench: b})
			}
		}
		if len(et.rows) > 0 {
			exp = append(exp, et)
		}
	}
	if missing {
		v.Label("missing_benchmark")
	}

	// non-triviality: two configurations, >= 2 benchmarks, one benchmark with >= 4 values per side
	if ncfg == 2 {
		names := map[string]bool{}
		big := false
		for k, vals := range m.cells {
			names[k.bench] = true
			if k.cfg == 0 && len(vals) >= 4 {
				k1 := k
				k1.cfg = 1
				if len(m.cells[k1]) >= 4 {
					big = true
				}
			}
		}
		v.NonTrivial = len(names) >= 2 && big
	}

	if len(tables) != len(exp) {
		var got []string
		for _, t := range tables {
			got = append(got, t.Metric)
		}
		var want []string
		for _, e := range exp {
			want = append(want, e.unit)
		}
		v.Failf("%d tables (metrics %v), want one per unit with rows, in unit order %v", len(tables), got, want)
		return
	}

	for ti, et := range exp {
		t := tables[ti]
		where := fmt.Sprintf("table %d (unit %s)", ti, et.unit)
		if et.unit == "MB/s" {
			v.Label("speed_metric")
		}
		if len(t.Configs) != ncfg {
			v.Failf("%s: Configs %v", where, t.Configs)
			return
		}
		for i, cf := range c.Configs {
			if t.Configs[i] != cf.Name {
				v.Failf("%s: Configs %v, want input order", where, t.Configs)
				return
			}
		}
		rows := t.Rows
		// geomean row: last, only on request
		var geo *benchstat.Row
		for i, r := range rows {
			if r.Benchmark == geoName {
				if i != len(rows)-1 || !c.GeoMean {
					v.Failf("%s: unexpected geomean row at position %d of %d (AddGeoMean %v)", where, i, len(rows), c.GeoMean)
					return
				}
				geo = r
			}
		}
		if geo != nil {
			rows = rows[:len(rows)-1]
		}
		// rows without any value for this unit (tables of one or >= 3
		// configurations list every benchmark): tolerated, not required
		var data []*benchstat.Row
		for _, r := range rows {
			if len(r.Metrics) != ncfg {
				v.Failf("%s: row %q has %d cells for %d configurations", where, r.Benchmark, len(r.Metrics), ncfg)
				return
			}
			blank := true
			for _, mm := range r.Metrics {
				if mm == nil {
					v.Failf("%s: row %q has a nil cell", where, r.Benchmark)
					return
				}
				if mm.Unit != "" || len(mm.Values) > 0 {
					blank = false
				}
			}
			if blank && ncfg != 2 {
				v.Label("blank_row")
				continue
			}
			data = append(data, r)
		}
		if len(data) != len(et.rows) {
			var got []string
			for _, r := range data {
				got = append(got, r.Group+"|"+r.Benchmark)
			}
			var want []string
			for _, r := range et.rows {
				want = append(want, r.group+"|"+r.bench)
			}
			v.Failf("%s: rows %v, want %v", where, got, want)
			return
		}
		// match library rows to expected rows by (group, benchmark)
		byKey := map[gb]*benchstat.Row{}
		for _, r := range data {
			k := gb{r.Group, r.Benchmark}
			if byKey[k] != nil {
				v.Failf("%s: row %v appears twice", where, k)
				return
			}
			byKey[k] = r
		}
		means := make([]map[gb]float64, ncfg) // reference means of every cell of this unit, per config
		for ci := range means {
			means[ci] = map[gb]float64{}
		}
		for i := range et.rows {
			er := &et.rows[i]
			g := er.group
			if len(m.groups) <= 1 {
				g = ""
			}
			er.lib = byKey[gb{g, er.bench}]
			if er.lib == nil {
				v.Failf("%s: no row for benchmark %q group %q", where, er.bench, er.group)
				return
			}
			refs := make([]cellRef, ncfg)
			for ci := 0; ci < ncfg; ci++ {
				mm := er.lib.Metrics[ci]
				vals, ok := m.cells[cellKey{ci, er.group, er.bench, et.unit}]
				cw := fmt.Sprintf("%s row %q group %q config %d", where, er.bench, er.group, ci)
				if !ok {
					if mm.Unit != "" || len(mm.Values) > 0 || len(mm.RValues) > 0 {
						v.Failf("%s: cell not empty (%v) although the configuration has no such result", cw, mm.Values)
						return
					}
					continue
				}
				r, ok := checkCell(&v, cw, vals, mm, et.unit)
				if !ok {
					return
				}
				refs[ci] = r
				means[ci][gb{er.group, er.bench}] = r.mean
				v.Sub++
			}
			if ncfg == 2 {
				if !checkDelta(&v, fmt.Sprintf("%s row %q group %q", where, er.bench, er.group), c, et.unit, er.lib, refs[0], refs[1]) {
					return
				}
			} else if er.lib.Delta != "" || er.lib.Note != "" || er.lib.PctDelta != 0 || er.lib.Change != 0 {
				v.Failf("%s row %q: comparison columns set (%q %q) with %d configurations", where, er.bench, er.lib.Delta, er.lib.Note, ncfg)
				return
			}
		}

		// ---- order
		want := append([]expRow(nil), et.rows...)
		if c.Order != "" {
			v.Label("sorted")
			var less func(a, b expRow) bool
			byName := func(a, b expRow) bool { return a.bench < b.bench }
			byDelta := func(a, b expRow) bool { return deltaKey(a.lib) < deltaKey(b.lib) }
			switch c.Order {
			case "name":
				less = byName
			case "delta", "rrdelta":
				less = byDelta
			case "rname":
				less = func(a, b expRow) bool { return byName(b, a) }
			case "rdelta":
				less = func(a, b expRow) bool { return byDelta(b, a) }
			}
			stableSort(want, less)
			ties := false
			for i := 1; i < len(want); i++ {
				if !less(want[i-1], want[i]) {
					ties = true
				}
			}
			if ties {
				v.Label("sorted_with_ties")
				if len(want) > 12 {
					v.Label("sorted_with_ties_rows>12")
				}
			}
		}
		for i := range want {
			if data[i] != want[i].lib {
				var got, wnt []string
				for j := range want {
					got = append(got, data[j].Group+"|"+data[j].Benchmark)
					wnt = append(wnt, want[j].lib.Group+"|"+want[j].lib.Benchmark)
				}
				v.Failf("%s: row order %v, want %v (order %q; first appearance, sorted stably)", where, got, wnt, c.Order)
				return
			}
		}

		// ---- geomean
		// every cell of this unit contributes, including (two configurations)
		// benchmarks whose row is omitted because the other side is missing;
		// the statement does not say which, so both readings are accepted.
		full := make([][]float64, ncfg)
		disp := make([][]float64, ncfg)
		shownRow := map[gb]bool{}
		for _, er := range et.rows {
			shownRow[gb{er.group, er.bench}] = true
		}
		geoAmbiguous := false
		for ci := 0; ci < ncfg; ci++ {
			for _, g := range m.groups {
				for _, b := range m.benches[g] {
					vals, ok := m.cells[cellKey{ci, g, b, et.unit}]
					if !ok {
						continue
					}
					mean, have := means[ci][gb{g, b}]
					if !have { // cell of an omitted row: recompute (near-fence values count as retained)
						cls := classify(vals)
						var keep []float64
						amb := false
						for i, x := range vals {
							if cls[i] == near {
								amb = true
							}
							if cls[i] != outside {
								keep = append(keep, x)
							}
						}
						if amb {
							geoAmbiguous = true // cannot say; skip the geomean check of this table
						}
						mean, _ = exactMeanVar(keep)
					}
					if mean != 0 {
						full[ci] = append(full[ci], mean)
						if shownRow[gb{g, b}] {
							disp[ci] = append(disp[ci], mean)
						}
					}
				}
			}
		}
		if !geoAmbiguous {
			maxFull, maxDisp := 0, 0
			for ci := 0; ci < ncfg; ci++ {
				if len(full[ci]) > maxFull {
					maxFull = len(full[ci])
				}
				if len(disp[ci]) > maxDisp {
					maxDisp = len(disp[ci])
				}
			}
			if c.GeoMean && maxFull >= 2 && maxDisp >= 2 && geo == nil {
				v.Failf("%s: AddGeoMean set and %d benchmarks with non-zero means, but no geomean row", where, maxFull)
				return
			}
			if geo != nil {
				v.Label("geomean")
				if len(geo.Metrics) != ncfg {
					v.Failf("%s: geomean row has %d cells", where, len(geo.Metrics))
					return
				}
				for ci := 0; ci < ncfg; ci++ {
					gm := geo.Metrics[ci]
					okFull := (len(full[ci]) == 0 && gm.Unit == "") || (len(full[ci]) > 0 && gm.Unit != "" && relClose(gm.Mean, geoMean(full[ci]), 1e-9))
					okDisp := (len(disp[ci]) == 0 && gm.Unit == "") || (len(disp[ci]) > 0 && gm.Unit != "" && relClose(gm.Mean, geoMean(disp[ci]), 1e-9))
					if len(full[ci]) != len(disp[ci]) {
						v.Label("geomean_omitted_rows")
					}
					if len(full[ci]) < func() int { // zero means were skipped
						n := 0
						for k := range m.cells {
							if k.cfg == ci && k.unit == et.unit {
								n++
							}
						}
						return n
					}() {
						v.Label("geomean_zero_skipped")
					}
					if !okFull && !okDisp {
						w := math.NaN()
						if len(full[ci]) > 0 {
							w = geoMean(full[ci])
						}
						v.Failf("%s: geomean of config %d is %v (unit %q), want the geometric mean %v of the non-zero means %v", where, ci, gm.Mean, gm.Unit, w, full[ci])
						return
					}
				}
				if ncfg == 2 && geo.Metrics[0].Unit != "" && geo.Metrics[1].Unit != "" {
					wantPct := (geo.Metrics[1].Mean/geo.Metrics[0].Mean - 1) * 100
					if math.Abs(geo.PctDelta-wantPct) > 1e-9*(100+math.Abs(wantPct)) {
						v.Failf("%s: geomean PctDelta %v, want (new/old - 1)*100 = %v", where, geo.PctDelta, wantPct)
						return
					}
				}
			}
		}
	}

	// ---- formatting: no panic (Guard), one line / record per table row
	var tb bytes.Buffer
	benchstat.FormatText(&tb, tables)
	if msg := checkLines(strings.Split(tb.String(), "\n"), tables, func(s string) string {
		if s == geoName || strings.HasPrefix(s, geoName+" ") {
			return geoName
		}
		if i := strings.IndexAny(s, " \t"); i >= 0 {
			return s[:i]
		}
		return s
	}); msg != "" {
		v.Failf("FormatText: %s\n%s", msg, tb.String())
		return
	}
	var cb bytes.Buffer
	benchstat.FormatCSV(&cb, tables, c.NoRange)
	rd := csv.NewReader(bytes.NewReader(cb.Bytes()))
	rd.FieldsPerRecord = -1
	recs, err := rd.ReadAll()
	if err != nil {
		v.Failf("FormatCSV: output is not CSV: %v\n%s", err, cb.String())
		return
	}
	var firsts []string
	for _, r := range recs {
		if len(r) > 0 {
			firsts = append(firsts, r[0])
		}
	}
	if msg := checkLines(firsts, tables, func(s string) string { return s }); msg != "" {
		v.Failf("FormatCSV: %s\n%s", msg, cb.String())
		return
	}
	// the CSV mean column shows the row's means
	ri := 0
	for _, t := range tables {
		for _, row := range t.Rows {
			for ri < len(recs) && (len(recs[ri]) == 0 || recs[ri][0] != row.Benchmark) {
				ri++
			}
			if ri >= len(recs) {
				break
			}
			rec := recs[ri]
			ri++
			step := 2
			if c.NoRange {
				step = 1
			}
			for ci, mm := range row.Metrics {
				col := 1 + ci*step
				if mm.Unit == "" || col >= len(rec) || rec[col] == "" {
					continue
				}
				f, err := strconv.ParseFloat(rec[col], 64)
				if err != nil || !relClose(f, mm.Mean, 1e-5) {
					v.Failf("FormatCSV: row %q column %d shows %q for mean %v", row.Benchmark, col, rec[col], mm.Mean)
					return
				}
			}
		}
	}
	return
}

// checkLines checks that the output lines (reduced to their first column by
// key) contain, in order, one line per table row, and no further line that
// starts with a benchmark name.
func checkLines(lines []string, tables []*benchstat.Table, key func(string) string) string {
	names := map[string]bool{}
	total := 0
	for _, t := range tables {
		for _, r := range t.Rows {
			names[r.Benchmark] = true
			total++
		}
	}
	li := 0
	count := 0
	for _, l := range lines {
		if names[key(l)] {
			count++
		}
	}
	for _, t := range tables {
		for _, r := range t.Rows {
			for li < len(lines) && key(lines[li]) != r.Benchmark {
				li++
			}
			if li >= len(lines) {
				return fmt.Sprintf("no line for row %q of table %q (rows must appear in table order)", r.Benchmark, t.Metric)
			}
			li++
		}
	}
	if count != total {
		return fmt.Sprintf("%d lines start with a benchmark name, the tables have %d rows", count, total)
	}
	return ""
}

// ---------------------------------------------------------------------------
// generator

var benchPool = []string{
	"Foo", "Bar", "Baz/size=10", "Baz/size=200", "Qux-8", "Qux-16", "Enc/json", "Enc/gob",
	"Alpha", "Zeta", "Mid/size=10-4", "Sort/ints", "Sort/strs-8", "Hash/size=10", "Walk", "Append-4",
}
var unitPool = []string{"ns/op", "ns/op", "B/op", "MB/s", "MB/s", "x-ns/op", "widgets/op", "allocs/op", "disk-MB/s", "x-MB/s"}

type plan struct {
	base   float64
	kind   int // 0 noisy, 1 constant, 2 zero, 3 integer grid, 4 mostly zero
	spread float64
	grid   int
	eff    []float64
	form   int
	outl   bool
	// offs, when set, supplies distinct noise offsets (rapid's integer draws repeat small
	// values far too often for 100 untied samples)
	offs []int
	next int
}

func fmtVal(x float64, form int) string {
	if x < 0 {
		x = 0
	}
	switch form {
	case 0:
		return strconv.FormatFloat(math.Round(x), 'f', 0, 64)
	case 1:
		return strconv.FormatFloat(x, 'f', 2, 64)
	case 2:
		return strconv.FormatFloat(x, 'g', -1, 64)
	default:
		return strconv.FormatFloat(x, 'e', 4, 64)
	}
}

func Gen(t *rapid.T) Case {
	var c Case
	class := rapid.SampledFrom([]string{"small", "small", "medium", "medium", "medium", "medium", "large", "large", "tiny", "wide", "huge", "small", "medium", "many"}).Draw(t, "class")
	c.Gen = class
	ncfg := rapid.SampledFrom([]int{2, 2, 2, 2, 2, 2, 1, 3, 3, 4}).Draw(t, "ncfg")
	nbench := rapid.IntRange(1, 8).Draw(t, "nbench")
	npkg := rapid.SampledFrom([]int{1, 1, 1, 2, 3}).Draw(t, "npkg")
	nmin, nmax := 1, 6
	switch class {
	case "medium":
		nmin, nmax = 3, 12
	case "large":
		nmin, nmax = 8, 25
		if nbench > 4 {
			nbench = 4
		}
		npkg = 1
	case "huge":
		// samples around the exact/approximate switch of the U-test (50 values)
		nmin, nmax = 49, 51
		nbench = rapid.IntRange(1, 2).Draw(t, "nbenchhuge")
		npkg = 1
		ncfg = 2
	case "tiny":
		nmin, nmax = 1, 3
	case "many":
		// so many benchmarks of such magnitude that the product of their means is no float64
		nmin, nmax = 1, 2
		nbench = rapid.IntRange(60, 75).Draw(t, "nbenchmany")
		npkg, ncfg = 1, 2
	case "wide":
		nmin, nmax = 1, 3
		nbench = rapid.IntRange(7, 16).Draw(t, "nbenchwide")
		ncfg = rapid.SampledFrom([]int{2, 2, 2, 1, 3}).Draw(t, "ncfgwide")
	}
	var benches []string
	if class == "many" {
		for k := 0; k < nbench; k++ {
			benches = append(benches, "Many/i="+strconv.Itoa(k))
		}
	} else {
		benches = rapid.Permutation(benchPool).Draw(t, "benches")[:nbench]
	}
	nunits := rapid.SampledFrom([]int{1, 1, 2, 2, 3}).Draw(t, "nunits")
	var units []string
	for _, u := range rapid.Permutation(unitPool).Draw(t, "units") {
		if len(units) < nunits {
			addOnce(&units, u)
		}
	}

	c.Test = rapid.SampledFrom([]string{"default", "utest", "utest", "ttest", "ttest", "none"}).Draw(t, "test")
	c.Alpha = rapid.SampledFrom([]float64{0, 0.01, 0.05, 0.5}).Draw(t, "alpha")
	if class == "tiny" && rapid.Bool().Draw(t, "tinyalpha") {
		c.Alpha = 0.5
	}
	c.SplitBy = rapid.SampledFrom([][]string{nil, nil, {"pkg"}, {"pkg"}, {"size"}, {"pkg", "gomaxprocs"}, {"sub1"}, {"name"}, {"goos"}}).Draw(t, "splitby")
	if class == "wide" && npkg > 1 {
		c.SplitBy = []string{"pkg"}
	}
	c.Order = rapid.SampledFrom([]string{"", "", "name", "delta", "delta", "rname", "rdelta", "rrdelta"}).Draw(t, "order")
	c.GeoMean = rapid.Bool().Draw(t, "geomean") || class == "many"
	c.NoRange = rapid.Bool().Draw(t, "norange")
	allowMissing := rapid.IntRange(0, 9).Draw(t, "allowmissing") < 5
	allowRepeat := rapid.IntRange(0, 9).Draw(t, "allowrepeat") < 3

	// plans per (benchmark, unit)
	plans := map[[2]int]*plan{}
	for bi := range benches {
		for ui, u := range units {
			p := &plan{}
			p.base = math.Pow(10, float64(rapid.IntRange(0, 90).Draw(t, "mag"))/10) * 1.37
			if class == "many" {
				p.base = math.Pow(10, float64(rapid.IntRange(60, 90).Draw(t, "magmany"))/10) * 1.37
			}
			kinds := []int{0, 0, 0, 0, 0, 1, 3, 3}
			switch u {
			case "B/op", "allocs/op":
				kinds = []int{0, 1, 1, 2, 2, 3, 3, 4}
			case "MB/s":
				p.base = math.Pow(10, float64(rapid.IntRange(0, 35).Draw(t, "magspeed"))/10) * 1.21
				kinds = []int{0, 0, 0, 0, 0, 0, 3, 1}
			}
			p.kind = rapid.SampledFrom(kinds).Draw(t, "kind")
			p.spread = rapid.SampledFrom([]float64{0.001, 0.01, 0.01, 0.05, 0.05, 0.3}).Draw(t, "spread")
			p.grid = rapid.IntRange(1, 12).Draw(t, "grid")
			p.form = rapid.IntRange(0, 3).Draw(t, "form")
			if p.form == 0 && p.base < 1000 && p.kind == 0 {
				p.form = 2
			}
			if p.kind == 3 {
				p.form = 0
				p.base = math.Round(p.base)
			}
			p.outl = rapid.IntRange(0, 3).Draw(t, "outl") == 0
			if class == "huge" && rapid.IntRange(0, 3).Draw(t, "hugeclean") != 0 {
				// distinct continuous values without outliers: the retained count is the line count
				p.kind, p.outl, p.form, p.spread = 0, false, 2, rapid.SampledFrom([]float64{0.01, 0.05, 0.3}).Draw(t, "hugespread")
				p.offs = rapid.Permutation(seq(400)).Draw(t, "hugeoffs")
			}
			for ci := 0; ci < ncfg; ci++ {
				p.eff = append(p.eff, rapid.SampledFrom([]float64{1, 1, 1, 1, 0.5, 0.8, 0.9, 0.97, 0.99, 1.01, 1.03, 1.1, 1.3, 2}).Draw(t, "eff"))
			}
			plans[[2]int{bi, ui}] = p
		}
	}
	draw := func(p *plan, ci int) float64 {
		var x float64
		switch p.kind {
		case 0:
			if p.offs != nil && p.next < len(p.offs) {
				x = p.base * p.eff[ci] * (1 + p.spread*float64(p.offs[p.next]-200)/200.5)
				p.next++
				break
			}
			x = p.base * p.eff[ci] * (1 + p.spread*float64(rapid.IntRange(-100000, 100000).Draw(t, "noise"))/100000)
		case 1:
			x = p.base * p.eff[ci]
		case 2:
			x = 0
		case 3:
			x = math.Round(p.base*p.eff[ci]) + float64(rapid.IntRange(0, p.grid).Draw(t, "gridv"))
		default:
			if rapid.IntRange(0, 4).Draw(t, "mz") == 0 {
				x = float64(rapid.IntRange(1, 3).Draw(t, "mzv"))
			}
		}
		if p.outl && rapid.IntRange(0, 7).Draw(t, "isout") == 0 {
			f := float64(rapid.IntRange(15, 100).Draw(t, "outf")) / 10
			if rapid.Bool().Draw(t, "outdir") {
				x *= f
			} else {
				x /= f
			}
		}
		return x
	}

	goos := rapid.Bool().Draw(t, "goos")
	for ci := 0; ci < ncfg; ci++ {
		cf := Config{Name: fmt.Sprintf("cfg%d.txt", ci), Via: rapid.SampledFrom([]string{"text", "text", "results"}).Draw(t, "via")}
		if rapid.IntRange(0, 3).Draw(t, "cfgdir") == 0 {
			cf.Name = "dir/" + cf.Name
		}
		if goos {
			cf.Items = append(cf.Items, Item{K: "l", Key: "goos", Val: "linux"})
		}
		tab := rapid.Bool().Draw(t, "tab")
		empty := allowMissing && ncfg >= 2 && rapid.IntRange(0, 39).Draw(t, "emptycfg") == 0
		for pk := 0; pk < npkg && !empty; pk++ {
			if npkg > 1 || rapid.Bool().Draw(t, "pkglabel") {
				cf.Items = append(cf.Items, Item{K: "l", Key: "pkg", Val: fmt.Sprintf("p%d", pk+1)})
			}
			// which benchmarks run here, how often, with which units
			type run struct {
				bi    int
				units []int
			}
			var perBench [][]run
			order := rapid.Permutation(seq(nbench)).Draw(t, "benchorder")
			if rapid.Bool().Draw(t, "sameorder") {
				order = seq(nbench)
			}
			for _, bi := range order {
				if allowMissing && ncfg >= 2 && rapid.IntRange(0, 7).Draw(t, "dropbench") == 0 {
					continue
				}
				if allowMissing && npkg > 1 && rapid.IntRange(0, 3).Draw(t, "notinpkg") == 0 {
					continue
				}
				var us []int
				for ui := range units {
					if allowMissing && len(units) > 1 && rapid.IntRange(0, 11).Draw(t, "dropunit") == 0 {
						continue
					}
					us = append(us, ui)
				}
				if len(us) == 0 {
					continue
				}
				n := rapid.IntRange(nmin, nmax).Draw(t, "n")
				if npkg > 1 && n > 10 {
					n = 10
				}
				var rs []run
				for i := 0; i < n; i++ {
					rs = append(rs, run{bi, us})
				}
				perBench = append(perBench, rs)
			}
			var runs []run
			switch rapid.IntRange(0, 2).Draw(t, "lineorder") {
			case 0: // benchmark by benchmark
				for _, rs := range perBench {
					runs = append(runs, rs...)
				}
			case 1: // whole suite repeated
				for i := 0; ; i++ {
					any := false
					for _, rs := range perBench {
						if i < len(rs) {
							runs = append(runs, rs[i])
							any = true
						}
					}
					if !any {
						break
					}
				}
			default:
				for _, rs := range perBench {
					runs = append(runs, rs...)
				}
				if len(runs) > 1 {
					runs = rapid.Permutation(runs).Draw(t, "shuffle")
				}
			}
			iters := rapid.SampledFrom([]int{1, 100, 1000000, 2000000000}).Draw(t, "iters")
			for _, r := range runs {
				it := Item{K: "b", Name: benches[r.bi], Iters: iters, Tab: tab, PureTab: tab && rapid.IntRange(0, 3).Draw(t, "puretab") == 0}
				for _, ui := range r.units {
					p := plans[[2]int{r.bi, ui}]
					it.Pairs = append(it.Pairs, Pair{V: fmtVal(draw(p, ci), p.form), U: units[ui]})
				}
				cf.Items = append(cf.Items, it)
				switch rapid.IntRange(0, 39).Draw(t, "extra") {
				case 0: // the same line again
					if allowRepeat {
						cf.Items = append(cf.Items, it)
					}
				case 1:
					cf.Items = append(cf.Items, Item{K: "n", Text: rapid.SampledFrom(noiseTexts).Draw(t, "noisetext")})
				}
			}
		}
		c.Configs = append(c.Configs, cf)
	}
	return c
}

func seq(n int) []int {
	s := make([]int, n)
	for i := range s {
		s[i] = i
	}
	return s
}

func TestC17Rapid(t *testing.T) {
	vcase.Run(t, "C17", "rapid", Gen, Check)
}
