package c17

// Independent reference computations for C17, written from the property
// statement and the package documentation: Hyndman–Fan type 8 quartiles and
// the 1.5·IQR fences in exact rational arithmetic, exact mean/variance,
// Welch's t statistic with a Student-t tail obtained by numerical
// integration, and the exact permutation distribution of the Mann-Whitney U
// statistic for untied samples. Nothing here is taken from golang/perf.

import (
	"math"
	"math/big"
	"sort"
)

func rat(f float64) *big.Rat { return new(big.Rat).SetFloat64(f) }

func ratInt(a, b int64) *big.Rat { return big.NewRat(a, b) }

// quantileR8 returns the Hyndman–Fan type 8 quantile of the ascending sample
// xs for p = num/den: with h = (N + 1/3)·p + 1/3 (1-based position),
// Q = x[⌊h⌋] + (h − ⌊h⌋)·(x[⌊h⌋+1] − x[⌊h⌋]), clamped to the sample range.
func quantileR8(sorted []float64, num, den int64) *big.Rat {
	n := int64(len(sorted))
	h := new(big.Rat).Add(ratInt(n, 1), ratInt(1, 3))
	h.Mul(h, ratInt(num, den))
	h.Add(h, ratInt(1, 3))
	fl := new(big.Int).Quo(h.Num(), h.Denom()) // h > 0, so truncation is floor
	k := fl.Int64()
	if k < 1 {
		return rat(sorted[0])
	}
	if k >= n {
		return rat(sorted[n-1])
	}
	frac := new(big.Rat).Sub(h, new(big.Rat).SetInt(fl))
	lo, hi := rat(sorted[k-1]), rat(sorted[k])
	d := new(big.Rat).Sub(hi, lo)
	d.Mul(d, frac)
	return d.Add(d, lo)
}

const (
	inside  = 0
	outside = 1
	near    = 2
)

// classify returns, for every value (input order), whether it lies inside
// the fences [Q1 − 1.5·IQR, Q3 + 1.5·IQR] (inclusive), outside, or so close
// to a fence (1e-9 relative to the largest magnitude involved) that float64
// rounding of the fence may decide either way. With IQR = 0 exactly every
// quantity is exactly representable and nothing is "near".
func classify(vals []float64) []int {
	s := append([]float64(nil), vals...)
	sort.Float64s(s)
	q1 := quantileR8(s, 1, 4)
	q3 := quantileR8(s, 3, 4)
	iqr := new(big.Rat).Sub(q3, q1)
	w := new(big.Rat).Mul(iqr, ratInt(3, 2))
	lo := new(big.Rat).Sub(q1, w)
	hi := new(big.Rat).Add(q3, w)
	out := make([]int, len(vals))
	exact := iqr.Sign() == 0
	scale := new(big.Rat).Abs(lo)
	if a := new(big.Rat).Abs(hi); a.Cmp(scale) > 0 {
		scale = a
	}
	for _, v := range vals {
		if a := new(big.Rat).Abs(rat(v)); a.Cmp(scale) > 0 {
			scale = a
		}
	}
	tol := new(big.Rat).Mul(scale, ratInt(1, 1000000000))
	for i, v := range vals {
		rv := rat(v)
		dlo := new(big.Rat).Sub(rv, lo)
		dhi := new(big.Rat).Sub(hi, rv)
		if !exact {
			if new(big.Rat).Abs(dlo).Cmp(tol) <= 0 || new(big.Rat).Abs(dhi).Cmp(tol) <= 0 {
				out[i] = near
				continue
			}
		}
		if dlo.Sign() >= 0 && dhi.Sign() >= 0 {
			out[i] = inside
		} else {
			out[i] = outside
		}
	}
	return out
}

// exactMeanVar returns the mean and the unbiased sample variance of xs,
// computed exactly and rounded once.
func exactMeanVar(xs []float64) (mean, variance float64) {
	n := int64(len(xs))
	sum := new(big.Rat)
	for _, x := range xs {
		sum.Add(sum, rat(x))
	}
	m := new(big.Rat).Quo(sum, ratInt(n, 1))
	mean, _ = m.Float64()
	if n < 2 {
		return mean, 0
	}
	ss := new(big.Rat)
	for _, x := range xs {
		d := new(big.Rat).Sub(rat(x), m)
		ss.Add(ss, d.Mul(d, d))
	}
	ss.Quo(ss, ratInt(n-1, 1))
	variance, _ = ss.Float64()
	return
}

func allEqual(xs []float64) bool {
	for _, x := range xs {
		if x != xs[0] {
			return false
		}
	}
	return true
}

// ---------------------------------------------------------------------------
// Student t

// tanhSinh integrates f over [0, b] with the double-exponential rule; the
// abscissae next to 0 (where the integrand may have an unbounded derivative)
// are computed from their distance to the end point, without cancellation.
func tanhSinh(f func(x float64) float64, b float64) float64 {
	d := b / 2
	eval := func(t float64) float64 {
		u := math.Pi / 2 * math.Sinh(t)
		// 1 - tanh(u) = 2/(e^{2u}+1): distance from the end, no cancellation
		delta := 2 / (math.Exp(2*u) + 1)
		ch := math.Cosh(u)
		w := math.Pi / 2 * math.Cosh(t) / (ch * ch)
		if w == 0 || math.IsInf(ch, 0) {
			return 0
		}
		xl := d * delta   // near 0
		xr := b - d*delta // near b
		return w * (f(xl) + f(xr))
	}
	h := 1.0
	sum := math.Pi / 2 * f(d) // t = 0
	for k := 1; k <= 6; k++ {
		sum += eval(float64(k))
	}
	prev := sum * h * d
	for level := 1; level <= 9; level++ {
		h /= 2
		kmax := int(6.5 / h)
		for k := 1; k <= kmax; k += 2 {
			sum += eval(float64(k) * h)
		}
		cur := sum * h * d
		if math.Abs(cur-prev) <= 1e-14*math.Abs(cur) && level >= 3 {
			return cur
		}
		prev = cur
	}
	return prev
}

// tTwoSided returns P(|T| >= |t|) for Student's t distribution with nu > 0
// degrees of freedom: with u = sqrt(nu)·tan(theta) the density becomes
// C·cos^{nu-1}(theta), C = Γ((nu+1)/2)/(sqrt(pi)·Γ(nu/2)); the tail beyond
// |t| is C·∫_0^{phi0} sin^{nu-1}(phi) dphi with phi0 = atan(sqrt(nu)/|t|).
func tTwoSided(t, nu float64) float64 {
	t = math.Abs(t)
	if t == 0 {
		return 1
	}
	if math.IsInf(t, 0) {
		return 0
	}
	phi0 := math.Atan2(math.Sqrt(nu), t)
	lg1, _ := math.Lgamma((nu + 1) / 2)
	lg2, _ := math.Lgamma(nu / 2)
	c := math.Exp(lg1-lg2) / math.Sqrt(math.Pi)
	integral := tanhSinh(func(phi float64) float64 {
		return math.Pow(math.Sin(phi), nu-1)
	}, phi0)
	p := 2 * c * integral
	if p > 1 {
		p = 1
	}
	return p
}

// welch returns Welch's t statistic and the Welch–Satterthwaite degrees of
// freedom for two samples with at least two values each, not both constant.
func welch(a, b []float64) (t, nu float64) {
	m0, v0 := exactMeanVar(a)
	m1, v1 := exactMeanVar(b)
	n0, n1 := float64(len(a)), float64(len(b))
	s0, s1 := v0/n0, v1/n1
	t = (m0 - m1) / math.Sqrt(s0+s1)
	nu = (s0 + s1) * (s0 + s1) / (s0*s0/(n0-1) + s1*s1/(n1-1))
	return
}

// ---------------------------------------------------------------------------
// Mann-Whitney U, untied samples

// hasTies reports whether any two of the pooled values are equal.
func hasTies(a, b []float64) bool {
	all := append(append([]float64(nil), a...), b...)
	sort.Float64s(all)
	for i := 1; i < len(all); i++ {
		if all[i] == all[i-1] {
			return true
		}
	}
	return false
}

// uStat returns the number of pairs (x in a, y in b) with x > y (no ties).
func uStat(a, b []float64) int {
	u := 0
	for _, x := range a {
		for _, y := range b {
			if x > y {
				u++
			}
		}
	}
	return u
}

// uCountsEnum returns, by enumerating every assignment of n1 of the n1+n2
// ranks to the first sample, the number of assignments for each value of U.
func uCountsEnum(n1, n2 int) []uint64 {
	counts := make([]uint64, n1*n2+1)
	n := n1 + n2
	var rec func(next, chosen, ranksum int)
	rec = func(next, chosen, ranksum int) {
		if chosen == n1 {
			counts[ranksum-n1*(n1+1)/2]++
			return
		}
		if n-next+1 < n1-chosen {
			return
		}
		for r := next; r <= n; r++ {
			rec(r+1, chosen+1, ranksum+r)
		}
	}
	rec(1, 0, 0)
	return counts
}

// uCountsDP counts the same assignments by a subset-sum recurrence over the
// ranks (for samples too large to enumerate). Counts stay below C(50,25) <
// 2^47.
func uCountsDP(n1, n2 int) []uint64 {
	n := n1 + n2
	maxSum := n * (n + 1) / 2
	cnt := make([][]uint64, n1+1)
	for j := range cnt {
		cnt[j] = make([]uint64, maxSum+1)
	}
	cnt[0][0] = 1
	for r := 1; r <= n; r++ {
		for j := n1; j >= 1; j-- {
			for s := maxSum; s >= r; s-- {
				cnt[j][s] += cnt[j-1][s-r]
			}
		}
	}
	base := n1 * (n1 + 1) / 2
	out := make([]uint64, n1*n2+1)
	for u := range out {
		out[u] = cnt[n1][base+u]
	}
	return out
}

// uTwoSidedFloat is the same p-value for samples whose arrangement counts do
// not fit in 64 bits (n1+n2 > 64), with float64 counts (relative error ~1e-14).
func uTwoSidedFloat(n1, n2, u int) float64 {
	n := n1 + n2
	maxSum := n * (n + 1) / 2
	cnt := make([][]float64, n1+1)
	for j := range cnt {
		cnt[j] = make([]float64, maxSum+1)
	}
	cnt[0][0] = 1
	for r := 1; r <= n; r++ {
		for j := n1; j >= 1; j-- {
			for s := maxSum; s >= r; s-- {
				cnt[j][s] += cnt[j-1][s-r]
			}
		}
	}
	base := n1 * (n1 + 1) / 2
	var le, ge, tot float64
	for i := 0; i <= n1*n2; i++ {
		c := cnt[n1][base+i]
		tot += c
		if i <= u {
			le += c
		}
		if i >= u {
			ge += c
		}
	}
	p := 2 * le / tot
	if ge < le {
		p = 2 * ge / tot
	}
	if p > 1 {
		p = 1
	}
	return p
}

// uTwoSided returns the exact two-sided p-value min(1, 2·min(P(U<=u),
// P(U>=u))) as the fraction num/den (not reduced) for untied samples.
func uTwoSided(counts []uint64, u int) (num, den uint64) {
	var le, ge, tot uint64
	for i, c := range counts {
		tot += c
		if i <= u {
			le += c
		}
		if i >= u {
			ge += c
		}
	}
	m := le
	if ge < m {
		m = ge
	}
	num = 2 * m
	if num > tot {
		num = tot
	}
	return num, tot
}

// tCondition returns how strongly relative rounding errors of the means and
// variances are amplified in Welch's t: the larger of (|m0|+|m1|)/sqrt(v0/n0
// + v1/n1) and |m_i|/sd_i over the non-constant samples.
func tCondition(a, b []float64) float64 {
	m0, v0 := exactMeanVar(a)
	m1, v1 := exactMeanVar(b)
	se := math.Sqrt(v0/float64(len(a)) + v1/float64(len(b)))
	k := (math.Abs(m0) + math.Abs(m1)) / se
	if v0 > 0 {
		k = math.Max(k, math.Abs(m0)/math.Sqrt(v0))
	}
	if v1 > 0 {
		k = math.Max(k, math.Abs(m1)/math.Sqrt(v1))
	}
	return k
}
