package c17

import (
	"math"
	"testing"
)

// TestC17OracleSelf checks the reference computations against closed forms
// and against each other. It is not a unit of the property check; run it by
// hand after touching oracle_test.go.
func TestC17OracleSelf(t *testing.T) {
	for _, x := range []float64{1e-6, 0.01, 0.3, 1, 2.5, 7, 40, 1e3, 1e6} {
		p1 := 1 - 2/math.Pi*math.Atan(x)
		if x > 100 {
			p1 = 2 / math.Pi * math.Atan(1/x)
		}
		if g := tTwoSided(x, 1); math.Abs(g-p1) > 1e-12*math.Max(p1, 1e-3) {
			t.Errorf("nu=1 t=%v: %v want %v", x, g, p1)
		}
		p2 := 1 - x/math.Sqrt(2+x*x)
		if x > 100 {
			p2 = 2 / (math.Sqrt(2+x*x) * (math.Sqrt(2+x*x) + x))
		}
		if g := tTwoSided(x, 2); math.Abs(g-p2) > 1e-12*math.Max(p2, 1e-3) {
			t.Errorf("nu=2 t=%v: %v want %v", x, g, p2)
		}
		if x <= 40 {
			y := x / math.Sqrt(3)
			p3 := 1 - 2/math.Pi*(math.Atan(y)+y/(1+y*y))
			if g := tTwoSided(x, 3); math.Abs(g-p3) > 1e-11 {
				t.Errorf("nu=3 t=%v: %v want %v", x, g, p3)
			}
			// nu=4: P(|T|>t) = 1 - (t/sqrt(4+t^2))*(1 + 2/(4+t^2))
			p4 := 1 - x/math.Sqrt(4+x*x)*(1+2/(4+x*x))
			if g := tTwoSided(x, 4); math.Abs(g-p4) > 1e-11 {
				t.Errorf("nu=4 t=%v: %v want %v", x, g, p4)
			}
		}
	}
	// non-integer nu: monotone in nu between the integer neighbours, and a
	// large nu approaches the normal tail
	for _, x := range []float64{0.5, 2, 5} {
		a, b, c := tTwoSided(x, 1), tTwoSided(x, 1.5), tTwoSided(x, 2)
		if !(a > b && b > c) {
			t.Errorf("not monotone in nu at t=%v: %v %v %v", x, a, b, c)
		}
		n := math.Erfc(x / math.Sqrt2)
		if g := tTwoSided(x, 1e6); math.Abs(g-n) > 1e-5 {
			t.Errorf("nu=1e6 t=%v: %v want about %v", x, g, n)
		}
	}
	// table value: t = 2.228 at nu = 10 is the two-sided 5% point
	if g := tTwoSided(2.2281388519649385, 10); math.Abs(g-0.05) > 1e-10 {
		t.Errorf("nu=10 5%% point: %v", g)
	}
	for n1 := 1; n1 <= 7; n1++ {
		for n2 := 1; n1+n2 <= 14; n2++ {
			a, b := uCountsEnum(n1, n2), uCountsDP(n1, n2)
			if len(a) != len(b) {
				t.Fatalf("len %d %d", len(a), len(b))
			}
			for i := range a {
				if a[i] != b[i] || a[i] != a[len(a)-1-i] {
					t.Errorf("n1=%d n2=%d u=%d: enum %d dp %d", n1, n2, i, a[i], b[i])
				}
			}
		}
	}
	// quartiles: R8 of 1..8 -> h1 = 8/4+5/12 = 2.4167 -> 2.4167; h3 = 6.5833
	s := []float64{1, 2, 3, 4, 5, 6, 7, 8}
	q1, _ := quantileR8(s, 1, 4).Float64()
	q3, _ := quantileR8(s, 3, 4).Float64()
	if math.Abs(q1-(2+5.0/12)) > 1e-15 || math.Abs(q3-(6+7.0/12)) > 1e-15 {
		t.Errorf("quartiles %v %v", q1, q3)
	}
	med, _ := quantileR8(s, 1, 2).Float64()
	if med != 4.5 {
		t.Errorf("median %v", med)
	}
}
