// Package c01: benchmark records survive a write/read round trip.
package c01

import (
	"bytes"
	"fmt"
	"math"
	"strconv"
	"strings"
	"testing"
	"unicode"

	"golang.org/x/perf/benchfmt"
	"golang.org/x/perf/benchunit"
	"pgregory.net/rapid"
	"verif/harness/lib/genbench"
	"verif/harness/lib/vcase"
)

// ---------------------------------------------------------------------------
// stream model: what was given to Write / what was read back

type meas struct {
	bits uint64
	unit string
}

type rec struct {
	kind  string // "result" | "unit"
	name  string
	iters int
	meas  []meas
	fcfg  map[string]string
	// unit metadata
	origUnit, key, value string
}

func asWritten(v benchfmt.Value) meas {
	if v.OrigUnit != "" {
		return meas{math.Float64bits(v.OrigValue), v.OrigUnit}
	}
	return meas{math.Float64bits(v.Value), v.Unit}
}

func snap(r benchfmt.Record) (rec, bool) {
	switch r := r.(type) {
	case *benchfmt.Result:
		x := rec{kind: "result", name: string(r.Name), iters: r.Iters, fcfg: map[string]string{}}
		for _, v := range r.Values {
			x.meas = append(x.meas, asWritten(v))
		}
		for _, c := range r.Config {
			if c.File {
				x.fcfg[c.Key] = string(c.Value)
			}
		}
		return x, true
	case *benchfmt.UnitMetadata:
		return rec{kind: "unit", origUnit: r.OrigUnit, key: r.Key, value: r.Value}, true
	}
	return rec{}, false
}

func bitsEq(a, b uint64) bool {
	if a == b {
		return true
	}
	return math.IsNaN(math.Float64frombits(a)) && math.IsNaN(math.Float64frombits(b))
}

func (a rec) diff(b rec) string {
	if a.kind != b.kind {
		return fmt.Sprintf("record kind %s, want %s", b.kind, a.kind)
	}
	if a.kind == "unit" {
		if a.origUnit != b.origUnit || a.key != b.key || a.value != b.value {
			return fmt.Sprintf("unit metadata read back as (%q %q=%q), written (%q %q=%q)", b.origUnit, b.key, b.value, a.origUnit, a.key, a.value)
		}
		return ""
	}
	if a.name != b.name || a.iters != b.iters {
		return fmt.Sprintf("name/iters read back as %q %d, written %q %d", b.name, b.iters, a.name, a.iters)
	}
	if len(a.meas) != len(b.meas) {
		return fmt.Sprintf("%d measurements read back, %d written", len(b.meas), len(a.meas))
	}
	for i := range a.meas {
		if a.meas[i].unit != b.meas[i].unit || !bitsEq(a.meas[i].bits, b.meas[i].bits) {
			return fmt.Sprintf("measurement %d read back as %v %q, written %v %q", i, math.Float64frombits(b.meas[i].bits), b.meas[i].unit, math.Float64frombits(a.meas[i].bits), a.meas[i].unit)
		}
	}
	for k, v := range a.fcfg {
		if w, ok := b.fcfg[k]; !ok {
			return fmt.Sprintf("file configuration key %q=%q lost on read-back", k, v)
		} else if w != v {
			return fmt.Sprintf("file configuration key %q read back as %q, written %q", k, w, v)
		}
	}
	for k, w := range b.fcfg {
		if _, ok := a.fcfg[k]; !ok {
			return fmt.Sprintf("file configuration key %q=%q appears on read-back but was internal or absent when written", k, w)
		}
	}
	return ""
}

// readBack parses out and returns its records; any syntax error is reported.
func readBack(out []byte) ([]rec, string) {
	r := benchfmt.NewReader(bytes.NewReader(out), "out")
	var rs []rec
	for r.Scan() {
		switch x := r.Result().(type) {
		case *benchfmt.SyntaxError:
			return nil, fmt.Sprintf("writer output does not parse: %v", x)
		default:
			s, ok := snap(x)
			if !ok {
				return nil, fmt.Sprintf("unknown record %T", x)
			}
			rs = append(rs, s)
		}
	}
	if r.Err() != nil {
		return nil, "reader error on writer output: " + r.Err().Error()
	}
	return rs, ""
}

// compareStreams implements the round-trip oracle. knownCR reports whether a
// mismatch is exactly finding C01-b.
func compareStreams(v *vcase.Verdict, written []rec, out []byte) {
	back, msg := readBack(out)
	if msg != "" {
		v.Failf("%s\noutput:\n%s", msg, clip(out))
		return
	}
	if len(back) != len(written) {
		v.Failf("%d records read back, %d written\noutput:\n%s", len(back), len(written), clip(out))
		return
	}
	for i := range written {
		if d := written[i].diff(back[i]); d != "" {
			if isTrailingCR(written[i], back[i]) && vcase.KnownListed("C01-b") {
				v.KnownHit("C01-b")
				continue
			}
			v.Failf("record %d: %s\noutput:\n%s", i, d, clip(out))
			return
		}
	}
}

// isTrailingCR is the signature of known finding C01-b: the records agree
// except that file-configuration values ending in "\r" come back with exactly
// one trailing "\r" removed.
func isTrailingCR(a, b rec) bool {
	if a.kind != "result" || b.kind != "result" {
		return false
	}
	a2 := a
	a2.fcfg = map[string]string{}
	hit := false
	for k, val := range a.fcfg {
		if strings.HasSuffix(val, "\r") && b.fcfg[k] == val[:len(val)-1] {
			hit = true
			if val[:len(val)-1] == "" {
				// the value was a lone CR: it reads back as a deletion
				continue
			}
			a2.fcfg[k] = val[:len(val)-1]
		} else {
			a2.fcfg[k] = val
		}
	}
	return hit && a2.diff(b) == ""
}

func clip(b []byte) string {
	if len(b) > 1500 {
		return string(b[:1500]) + "…"
	}
	return string(b)
}

// ---------------------------------------------------------------------------
// (a) histories through the API

type Val struct {
	Bits uint64
	Unit string
	Tidy bool // build the Value with benchunit.Tidy (as the Reader does); otherwise leave it raw
}

type Step struct {
	Op    string // setfile | setinternal | delete | write | unitmeta | fresh
	K, V  string
	Name  string
	Iters int
	Vals  []Val
}

type APICase struct {
	Steps []Step
}

var fileKeys = []string{"a", "b", "goos", "k9", "é", "pkg"}
var internalOnlyKeys = []string{".file", ".label", "Upper", "sp ace"}

func validUnit(u string) bool {
	if u == "" {
		return false
	}
	for _, r := range u {
		if unicode.IsSpace(r) {
			return false
		}
	}
	return true
}

func validName(n string) bool {
	for _, r := range n {
		if unicode.IsSpace(r) {
			return false
		}
	}
	return true
}

func validValue(s string) bool {
	return s != "" && !strings.ContainsAny(s, "\n") && s[0] != ' ' && s[0] != '\t' && !strings.HasSuffix(s, "\r")
}

func CheckAPI(c APICase) (v vcase.Verdict) {
	var buf bytes.Buffer
	w := benchfmt.NewWriter(&buf)
	res := &benchfmt.Result{}
	type ent struct {
		v    string
		file bool
	}
	model := map[string]ent{}
	var written []rec
	seenMeta := map[[2]string]bool{}
	dirty := false // a deletion, re-add or flip happened since the last write
	everDeleted := map[string]bool{}
	for _, s := range c.Steps {
		switch s.Op {
		case "setfile", "setinternal":
			file := s.Op == "setfile"
			if !validValue(s.V) || s.K == "" {
				continue
			}
			if file && !isFileKey(s.K) {
				continue
			}
			if old, ok := model[s.K]; ok {
				if old.file && !file {
					v.Label("flip_file_to_internal")
					dirty = true
				} else if !old.file && file {
					v.Label("flip_internal_to_file")
					dirty = true
				}
			} else if everDeleted[s.K] {
				v.Label("readd")
				dirty = true
			}
			res.SetConfig(s.K, s.V) // documented path; marks the key internal
			if file {
				idx, _ := res.ConfigIndex(s.K)
				res.Config[idx].File = true // elements of Config are mutable in place
			}
			model[s.K] = ent{s.V, file}
		case "delete":
			if _, ok := model[s.K]; ok {
				dirty = true
				everDeleted[s.K] = true
				v.Label("delete")
			}
			res.SetConfig(s.K, "")
			delete(model, s.K)
		case "fresh":
			// a new Result initialised with a struct literal (index rebuilt lazily)
			nr := &benchfmt.Result{}
			for _, cfg := range res.Config {
				nr.Config = append(nr.Config, benchfmt.Config{Key: cfg.Key, Value: append([]byte(nil), cfg.Value...), File: cfg.File})
			}
			res = nr
			v.Label("fresh_literal")
		case "unitmeta":
			if !validUnit(s.K) || s.V == "" || strings.ContainsAny(s.V, "= \t") || !validName(s.V) || !validName(s.Name) {
				continue
			}
			_, tu := benchunit.Tidy(1, s.K)
			if seenMeta[[2]string{tu, s.V}] {
				continue // the reader only reports the first definition of (unit, key)
			}
			seenMeta[[2]string{tu, s.V}] = true
			um := &benchfmt.UnitMetadata{UnitMetadataKey: benchfmt.UnitMetadataKey{Unit: tu, Key: s.V}, OrigUnit: s.K, Value: s.Name}
			if err := w.Write(um); err != nil {
				v.Failf("Write: %v", err)
				return
			}
			x, _ := snap(um)
			written = append(written, x)
			v.Label("unit_metadata")
		case "write":
			if !validName(s.Name) || len(s.Vals) == 0 || s.Iters < 0 {
				continue
			}
			res.Name = append(res.Name[:0], s.Name...)
			res.Iters = s.Iters
			res.Values = res.Values[:0]
			ok := true
			for _, x := range s.Vals {
				if !validUnit(x.Unit) {
					ok = false
					break
				}
				f := math.Float64frombits(x.Bits)
				val := benchfmt.Value{Value: f, Unit: x.Unit}
				if x.Tidy {
					tv, tu := benchunit.Tidy(f, x.Unit)
					if tu != x.Unit {
						val = benchfmt.Value{Value: tv, Unit: tu, OrigValue: f, OrigUnit: x.Unit}
						v.Label("rescaled_unit")
					}
				}
				if f == 0 || math.IsInf(f, 0) || math.IsNaN(f) {
					v.Label("special_float")
				}
				res.Values = append(res.Values, val)
			}
			if !ok {
				continue
			}
			if err := w.Write(res); err != nil {
				v.Failf("Write: %v", err)
				return
			}
			x, _ := snap(res)
			// cross-check the snapshot against the model of the API calls
			want := map[string]string{}
			for k, e := range model {
				if e.file {
					want[k] = e.v
				}
			}
			if fmt.Sprint(want) != fmt.Sprint(x.fcfg) {
				v.Failf("Result.Config disagrees with the SetConfig history: %v vs %v", x.fcfg, want)
				return
			}
			written = append(written, x)
			if dirty {
				v.NonTrivial = true
				dirty = false
			}
		}
	}
	if len(written) == 0 {
		return
	}
	compareStreams(&v, written, buf.Bytes())
	return
}

func isFileKey(k string) bool {
	first := true
	for _, r := range k {
		if first && !unicode.IsLower(r) {
			return false
		}
		first = false
		if unicode.IsSpace(r) || unicode.IsUpper(r) || r == ':' {
			return false
		}
	}
	return k != ""
}

var apiUnits = []string{"ns/op", "MB/s", "B/op", "sec/op", "ns", "MB", "widgets", "ns/MB", "x-ns", "MB*ns", "u", "é/op", "nsec", "%", "%cpu", "100%s", "%d/op", "a%20b", "%!v"}

func genVal(t *rapid.T) Val {
	var b uint64
	switch rapid.IntRange(0, 9).Draw(t, "vk") {
	case 0:
		b = 0
	case 1:
		b = math.Float64bits(math.Copysign(0, -1))
	case 2:
		b = math.Float64bits(math.Inf(1))
	case 3:
		b = math.Float64bits(math.Inf(-1))
	case 4:
		b = math.Float64bits(math.NaN())
	case 5:
		b = rapid.Uint64().Draw(t, "bits")
	case 6:
		if rapid.Bool().Draw(t, "hugev") {
			// finite values at the top of the range
			b = math.Float64bits(rapid.SampledFrom([]float64{math.MaxFloat64, -math.MaxFloat64, 1e308, -1.5e308, 9.9e307, 1.7e308}).Draw(t, "huge"))
			break
		}
		if rapid.Bool().Draw(t, "bigint") {
			// integer-valued floats between 2^53 and 2^64: their shortest decimal form is often an
			// exact tie between two neighbours when it is read back
			f := float64(rapid.Uint64Range(1<<53, 1<<63).Draw(t, "bigintv"))
			if rapid.Bool().Draw(t, "negbig") {
				f = -f
			}
			b = math.Float64bits(f)
			break
		}
		b = math.Float64bits(float64(int64(1)<<53 + int64(rapid.IntRange(-1, 1).Draw(t, "p53"))))
	case 7:
		if rapid.Bool().Draw(t, "shortmant") {
			// few significant digits, any decimal exponent: printed in exponent form by the writer
			m := float64(rapid.IntRange(1, 999).Draw(t, "mant"))
			if rapid.Bool().Draw(t, "longmant") {
				// up to 15 digits: with exponents 23..37 the product leaves the exactly representable range
				m = float64(rapid.Int64Range(1, 999999999999999).Draw(t, "mant15"))
			}
			e := rapid.IntRange(-40, 45).Draw(t, "exp10")
			f, _ := strconv.ParseFloat(strconv.FormatFloat(m, 'f', -1, 64)+"e"+strconv.Itoa(e), 64)
			if rapid.Bool().Draw(t, "negv") {
				f = -f
			}
			b = math.Float64bits(f)
		} else {
			b = rapid.Uint64Range(1, 1<<52).Draw(t, "subn")
		}
	default:
		b = math.Float64bits(rapid.Float64Range(0, 1e9).Draw(t, "ord"))
	}
	return Val{Bits: b, Unit: rapid.SampledFrom(apiUnits).Draw(t, "unit"), Tidy: rapid.IntRange(0, 3).Draw(t, "tidy") != 0}
}

var valGen = rapid.OneOf(
	rapid.SampledFrom([]string{"Master", "master", "MASTER", "Linux", "v", "1", "linux", "x y", "v ", "é日本", "k: v", "\xff", "a\rb", "Benchmark", ":", "\u00a0x", "\u2003", "x\u00a0", "100%", "%s %d", "Unit"}),
	rapid.StringMatching(`[!-~][ -~]{0,6}`),
)

func GenAPI(t *rapid.T) APICase {
	var c APICase
	n := rapid.IntRange(2, 24).Draw(t, "nsteps")
	for i := 0; i < n; i++ {
		var s Step
		switch k := rapid.IntRange(0, 13).Draw(t, "op"); {
		case k < 3:
			s.Op = "setfile"
			s.K = rapid.SampledFrom(fileKeys).Draw(t, "fk")
			s.V = valGen.Draw(t, "fv")
		case k < 5:
			s.Op = "setinternal"
			if rapid.Bool().Draw(t, "ikind") {
				s.K = rapid.SampledFrom(fileKeys).Draw(t, "ik")
			} else {
				s.K = rapid.SampledFrom(internalOnlyKeys).Draw(t, "ik2")
			}
			s.V = valGen.Draw(t, "iv")
		case k < 7:
			s.Op = "delete"
			s.K = rapid.SampledFrom(fileKeys).Draw(t, "dk")
		case k < 8:
			if vcase.OneIn(t, 3, "freshp") {
				s.Op = "fresh"
			} else {
				s.Op = "unitmeta"
				s.K = rapid.SampledFrom(apiUnits).Draw(t, "mu")
				s.V = rapid.SampledFrom([]string{"better", "assume", "k", "é", "%s", "k%d"}).Draw(t, "mk")
				s.Name = rapid.SampledFrom([]string{"higher", "lower", "exact", "", "x=y", "50%", "%v"}).Draw(t, "mv")
			}
		default:
			s.Op = "write"
			s.Name = genbench.Name(t)
			s.Iters = rapid.IntRange(0, 1<<40).Draw(t, "iters")
			if vcase.OneIn(t, 10, "hugeiters") {
				// counts of 18 and 19 digits, up to the largest int
				s.Iters = rapid.SampledFrom([]int{math.MaxInt64, math.MaxInt64 - 1, 1e18, 1e18 - 1, 1e17, 999999999999999999, 1 << 62, 5e18}).Draw(t, "hugeit")
			}
			nv := rapid.IntRange(1, 4).Draw(t, "nv")
			if vcase.OneIn(t, 25, "manyv") {
				nv = rapid.IntRange(30, 70).Draw(t, "nvbig")
			}
			for j := 0; j < nv; j++ {
				s.Vals = append(s.Vals, genVal(t))
			}
		}
		c.Steps = append(c.Steps, s)
	}
	return c
}

func TestC01API(t *testing.T) { vcase.Run(t, "C01", "api", GenAPI, CheckAPI) }

// ---------------------------------------------------------------------------
// (b) streams parsed from text

type TextCase struct {
	TextsHex []string
	Labels   bool   // read through a Reader with tool labels (.file) per text
	Preview  string // for the human reader
}

func unhex(h string) []byte {
	if h == "" {
		return nil
	}
	var b []byte
	fmt.Sscanf(h, "%x", &b)
	return b
}

func CheckText(c TextCase) (v vcase.Verdict) {
	var buf bytes.Buffer
	w := benchfmt.NewWriter(&buf)
	var written []rec
	var r benchfmt.Reader
	nres := 0
	var prev map[string]string
	for i, h := range c.TextsHex {
		text := unhex(h)
		if c.Labels {
			r.Reset(bytes.NewReader(text), fmt.Sprintf("f%d", i), ".file", fmt.Sprintf("f%d", i), "goos", "tool-"+fmt.Sprint(i))
		} else {
			r.Reset(bytes.NewReader(text), fmt.Sprintf("f%d", i))
		}
		for r.Scan() {
			rc := r.Result()
			if err := w.Write(rc); err != nil {
				v.Failf("Write: %v", err)
				return
			}
			if x, ok := snap(rc); ok {
				written = append(written, x)
				if x.kind == "result" {
					nres++
					if prev != nil && fmt.Sprint(prev) != fmt.Sprint(x.fcfg) {
						v.NonTrivial = true
					}
					prev = x.fcfg
					for _, val := range x.fcfg {
						if strings.HasSuffix(val, "\r") {
							v.Label("value_ends_in_CR")
						}
					}
				} else {
					v.Label("unit_metadata")
				}
			} else {
				v.Label("syntax_error_skipped")
			}
		}
		if r.Err() != nil {
			longest := 0
			for _, ln := range strings.Split(string(text), "\n") {
				if len(ln) > longest {
					longest = len(ln)
				}
			}
			if longest < 65000 {
				v.Failf("reading the input failed (%v) although its longest line has %d bytes", r.Err(), longest)
			}
			return // a line of 64 KiB or more: outside the domain
		}
	}
	if len(c.TextsHex) > 1 {
		v.Label("two_files")
	}
	if c.Labels {
		v.Label("tool_labels")
	}
	if len(written) == 0 {
		return
	}
	compareStreams(&v, written, buf.Bytes())
	return
}

func GenText(t *rapid.T) TextCase {
	var c TextCase
	n := 1
	if vcase.OneIn(t, 4, "multi") {
		n = rapid.IntRange(2, 3).Draw(t, "ntexts")
	}
	for i := 0; i < n; i++ {
		c.TextsHex = append(c.TextsHex, fmt.Sprintf("%x", genbench.Text(t, 40, true)))
	}
	c.Labels = rapid.Bool().Draw(t, "labels")
	p := string(unhex(c.TextsHex[0]))
	if len(p) > 300 {
		p = p[:300] + "…"
	}
	c.Preview = p
	return c
}

func TestC01Text(t *testing.T) { vcase.Run(t, "C01", "text", GenText, CheckText) }
