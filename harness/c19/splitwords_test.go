package c19

import (
	"strings"
	"testing"

	"golang.org/x/perf/storage/query"
	"pgregory.net/rapid"
	"verif/harness/lib/vcase"
)

// SplitCase is a query string; when Words is set, Q was built by quoting
// exactly these words and they must come back.
type SplitCase struct {
	Q     string   `json:"q"`
	Words []string `json:"words,omitempty"`
}

func sameWords(a, b []string) bool {
	if len(a) != len(b) {
		return false
	}
	for i := range a {
		if a[i] != b[i] {
			return false
		}
	}
	return true
}

func CheckSplit(c SplitCase) (v vcase.Verdict) {
	got := query.SplitWords(c.Q)
	want := refSplitWords(c.Q)
	if !sameWords(got, want) {
		v.Failf("SplitWords(%q) = %q, reference %q", c.Q, got, want)
		return
	}
	for _, w := range got {
		if w == "" {
			v.Failf("SplitWords(%q) = %q contains an empty word", c.Q, got)
			return
		}
	}
	if c.Words != nil {
		v.Label("built_from_words")
		if !sameWords(got, c.Words) {
			v.Failf("SplitWords(%q) = %q, but the text quotes the words %q", c.Q, got, c.Words)
			return
		}
	} else {
		v.Label("soup")
	}
	special := strings.ContainsAny(c.Q, "\"\\")
	v.NonTrivial = special && len(got) >= 2
	if special {
		v.Label("has_quote_or_backslash")
	}
	if strings.Count(c.Q, `"`)%2 == 1 {
		v.Label("odd_number_of_quotes")
	}
	if strings.HasSuffix(c.Q, `\`) {
		v.Label("ends_with_backslash")
	}
	if len(got) == 0 {
		v.Label("no_words")
	}
	for _, r := range c.Q {
		if r > 0x7f {
			v.Label("non_ascii")
			break
		}
	}
	return
}

var splitAlphabet = []rune{'a', 'b', ':', '>', '<', ' ', ' ', '\t', '"', '"', '\\', '\\', 'é', '日', '|', '\'', '0'}

func GenSplit(t *rapid.T) SplitCase {
	if rapid.Bool().Draw(t, "soup") {
		rs := rapid.SliceOfN(rapid.SampledFrom(splitAlphabet), 0, 24).Draw(t, "runes")
		return SplitCase{Q: string(rs)}
	}
	n := rapid.IntRange(0, 5).Draw(t, "nwords")
	c := SplitCase{Words: []string{}}
	var parts []string
	for i := 0; i < n; i++ {
		key := string(rapid.SliceOfN(rapid.SampledFrom([]rune{'a', 'k', '9', 'é', '-'}), 0, 3).Draw(t, "key"))
		op := rapid.SampledFrom([]string{":", "<", ">", ""}).Draw(t, "op")
		val := string(rapid.SliceOfN(rapid.SampledFrom(splitAlphabet), 0, 8).Draw(t, "val"))
		if key+op+val == "" {
			key = "k"
		}
		c.Words = append(c.Words, key+op+val)
		parts = append(parts, renderWord(key, op, val, rapid.IntRange(0, 3).Draw(t, "style")))
	}
	sep := rapid.SampledFrom([]string{" ", "  ", "\t", " \t "}).Draw(t, "sep")
	c.Q = strings.Join(parts, sep)
	if rapid.Bool().Draw(t, "pad") {
		c.Q = sep + c.Q + sep
	}
	return c
}

func TestC19SplitWords(t *testing.T) {
	vcase.Run(t, "C19", "splitwords", GenSplit, CheckSplit)
}
