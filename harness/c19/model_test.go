package c19

// The reference model of the storage server, written from the property text
// and the documentation (benchmark format proposal 14313 for `key: value`
// lines and for labels derived from a benchmark name; storage/app's comments
// for the labels the server adds). Nothing here calls into golang/perf.

import (
	"sort"
	"strconv"
	"strings"
	"unicode"
)

// ---------------------------------------------------------------------------
// case data

// Line is one line of an uploaded file, kept structured so that the model
// never has to parse text.
type Line struct {
	K    string `json:"k"`              // "set", "del", "blank", "junk", "bench"
	Key  string `json:"key,omitempty"`  // set/del
	Sep  string `json:"sep,omitempty"`  // blanks after "key:" (non-empty for set)
	Val  string `json:"val,omitempty"`  // set: non-empty, no newline, does not start with blank or tab
	Name string `json:"name,omitempty"` // bench: what follows "Benchmark", no white space
	Rest string `json:"rest,omitempty"` // bench: rest of the line, starts with a blank or tab
	Text string `json:"text,omitempty"` // junk: a line that is neither configuration nor result
}

type File struct {
	Name      string `json:"name"` // file name handed to Upload.CreateFile ("" = unnamed)
	Lines     []Line `json:"lines"`
	NoFinalNL bool   `json:"no_final_nl,omitempty"`
}

// Term is one word of a query. When Sym is set the value is not known at
// generation time (upload ids and upload times are chosen by the server); it is
// taken from upload U (modulo the number of uploads so far), file F, when the
// step is executed, and then tweaked.
type Term struct {
	Key   string `json:"key"`
	Op    string `json:"op"` // ":", "<", ">", or "" (no operator: invalid)
	Val   string `json:"val,omitempty"`
	Sym   string `json:"sym,omitempty"` // "", "upload", "upload-part", "upload-time"
	U     int    `json:"u,omitempty"`
	F     int    `json:"f,omitempty"`
	Tweak int    `json:"tweak,omitempty"` // applied to Sym values only: see tweak()
	Style int    `json:"style,omitempty"` // how the word is quoted: see renderWord()
}

type Step struct {
	Kind  string   `json:"kind"` // "upload", "query", "list"
	User  string   `json:"user,omitempty"`
	Files []File   `json:"files,omitempty"`
	Terms []Term   `json:"terms,omitempty"`
	Sep   string   `json:"sep,omitempty"` // separator between query words
	Extra []string `json:"extra,omitempty"`
	Limit int      `json:"limit,omitempty"`
}

type Case struct {
	Steps []Step `json:"steps"`
}

// ---------------------------------------------------------------------------
// files

func (f File) text() string {
	var b strings.Builder
	for i, ln := range f.Lines {
		switch ln.K {
		case "set":
			b.WriteString(ln.Key + ":" + ln.Sep + ln.Val)
		case "del":
			b.WriteString(ln.Key + ":" + ln.Sep)
		case "blank":
		case "junk":
			b.WriteString(ln.Text)
		case "bench":
			b.WriteString("Benchmark" + ln.Name + ln.Rest)
		}
		if i < len(f.Lines)-1 || !f.NoFinalNL {
			b.WriteByte('\n')
		}
	}
	return b.String()
}

// baseName is the file name the server records: what follows the last slash
// or backslash.
func baseName(name string) string {
	if i := strings.LastIndexAny(name, `/\`); i >= 0 {
		return name[i+1:]
	}
	return name
}

// nameLabels derives the labels carried by a benchmark name (without the
// "Benchmark" prefix): a trailing -N is gomaxprocs=N; the first slash-separated
// part is name; every later part is key=value, or sub<i> when it has no "=".
func nameLabels(name string) map[string]string {
	out := map[string]string{}
	if i := strings.LastIndexByte(name, '-'); i >= 0 && isDigits(name[i+1:]) {
		out["gomaxprocs"] = name[i+1:]
		name = name[:i]
	}
	parts := strings.Split(name, "/")
	out["name"] = parts[0]
	for i := 1; i < len(parts); i++ {
		if eq := strings.IndexByte(parts[i], '='); eq >= 0 {
			out[parts[i][:eq]] = parts[i][eq+1:]
		} else {
			out["sub"+strconv.Itoa(i)] = parts[i]
		}
	}
	return out
}

func isDigits(s string) bool {
	if s == "" || len(s) > 9 {
		return false
	}
	for i := 0; i < len(s); i++ {
		if s[i] < '0' || s[i] > '9' {
			return false
		}
	}
	return true
}

// mrec is one stored benchmark result of the model.
type mrec struct {
	labels  map[string]string // file labels + labels added by the server
	name    map[string]string // labels derived from the benchmark name
	content string            // the line, verbatim
	file    int
	run     int // number of the stored record (maximal run of equal labels) within the upload
}

func (r *mrec) get(k string) (string, bool) {
	if v, ok := r.labels[k]; ok {
		return v, true
	}
	v, ok := r.name[k]
	return v, ok
}

func sameMap(a, b map[string]string) bool {
	if len(a) != len(b) {
		return false
	}
	for k, v := range a {
		if w, ok := b[k]; !ok || w != v {
			return false
		}
	}
	return true
}

// interpret applies the label history of one file. meta holds the labels the
// server adds; they act as a permanent header, so the file cannot override or
// delete them. runBase numbers stored records across the files of one upload.
func interpret(f File, meta map[string]string, fileIdx int, runBase *int) []mrec {
	cur := map[string]string{}
	var out []mrec
	for _, ln := range f.Lines {
		switch ln.K {
		case "set":
			if _, perm := meta[ln.Key]; !perm {
				cur[ln.Key] = ln.Val
			}
		case "del":
			if _, perm := meta[ln.Key]; !perm {
				delete(cur, ln.Key)
			}
		case "bench":
			labels := make(map[string]string, len(cur)+len(meta))
			for k, v := range cur {
				labels[k] = v
			}
			for k, v := range meta {
				labels[k] = v
			}
			r := mrec{labels: labels, name: nameLabels(ln.Name), content: "Benchmark" + ln.Name + ln.Rest, file: fileIdx}
			if n := len(out); n > 0 && sameMap(out[n-1].labels, r.labels) && sameMap(out[n-1].name, r.name) {
				r.run = out[n-1].run
			} else {
				r.run = *runBase
				*runBase++
			}
			out = append(out, r)
		}
	}
	return out
}

type mUpload struct {
	id        string
	time      string // learned from the server; "" until learned
	recs      []mrec
	nfiles    int
	nRuns     int
	labelRows int // sum over stored records of their number of labels
}

func serverLabels(id string, fileIdx int, fileName, user, uptime string) map[string]string {
	meta := map[string]string{
		"upload":      id,
		"upload-part": id + "/" + strconv.Itoa(fileIdx),
		"upload-time": uptime,
	}
	if b := baseName(fileName); b != "" {
		meta["upload-file"] = b
	}
	if user != "" {
		meta["by"] = user
	}
	return meta
}

func buildUpload(id, user, uptime string, files []File) *mUpload {
	u := &mUpload{id: id, time: uptime, nfiles: len(files)}
	for i, f := range files {
		u.recs = append(u.recs, interpret(f, serverLabels(id, i, f.Name, user, uptime), i, &u.nRuns)...)
	}
	last := -1
	for i := range u.recs {
		if u.recs[i].run != last {
			last = u.recs[i].run
			u.labelRows += len(u.recs[i].labels) + len(u.recs[i].name)
		}
	}
	return u
}

// labelRowBound: uploads whose stored records carry at most this many labels
// in total are compared exactly in the upload listing. Larger uploads are in
// the "large upload" class (the server writes labels in batches and a batch
// boundary may split a run of equal-label results; DESIGN C19 risk (ii)).
const labelRowBound = 240

// ---------------------------------------------------------------------------
// queries

func termInvalid(t Term) bool {
	if t.Op == "" {
		return true
	}
	for _, r := range t.Key {
		if unicode.IsUpper(r) || unicode.IsSpace(r) {
			return true
		}
	}
	return false
}

// termMatches: the label must exist and compare bytewise as stated. "k>" with
// an empty value means "label present" (pinned by the existing tests).
func termMatches(r *mrec, t Term, val string) bool {
	v, ok := r.get(t.Key)
	if !ok {
		return false
	}
	switch t.Op {
	case ":":
		return v == val
	case "<":
		return v < val // Go compares strings bytewise
	case ">":
		if val == "" {
			return true
		}
		return v > val
	}
	return false
}

func recMatches(r *mrec, terms []Term, vals []string) bool {
	for i, t := range terms {
		if !termMatches(r, t, vals[i]) {
			return false
		}
	}
	return true
}

// tweak returns a value just below / just above v (bytewise), staying valid
// UTF-8 and free of control characters.
//
//	0 same; 1 just below (last ASCII byte - 1, else drop last rune); 2 just above
//	(last ASCII byte + 1, else append "0"); 3 append "0" (smallest convenient
//	extension); 4 drop the last rune (a proper prefix); 5 append " " (needs quoting)
func tweak(v string, mode int) string {
	switch mode {
	case 1:
		if n := len(v); n > 0 && v[n-1] > '!' && v[n-1] < 0x7f {
			return v[:n-1] + string(rune(v[n-1]-1))
		}
		return dropLastRune(v)
	case 2:
		if n := len(v); n > 0 && v[n-1] >= ' ' && v[n-1] < '~' {
			return v[:n-1] + string(rune(v[n-1]+1))
		}
		return v + "0"
	case 3:
		return v + "0"
	case 4:
		return dropLastRune(v)
	case 5:
		return v + " "
	}
	return v
}

func dropLastRune(v string) string {
	rs := []rune(v)
	if len(rs) == 0 {
		return v
	}
	return string(rs[:len(rs)-1])
}

// ---------------------------------------------------------------------------
// query text

func needsQuote(s string) bool { return strings.ContainsAny(s, " \t\"\\") }

func dq(s string) string {
	s = strings.ReplaceAll(s, `\`, `\\`)
	s = strings.ReplaceAll(s, `"`, `\"`)
	return `"` + s + `"`
}

// renderWord writes one query word in shell syntax.
//
//	0 bare when possible, else the whole word in double quotes
//	1 the whole word in double quotes
//	2 every blank, tab, quote and backslash escaped with a backslash
//	3 only the value in double quotes
func renderWord(key, op, val string, style int) string {
	word := key + op + val
	switch style {
	case 1:
		return dq(word)
	case 2:
		var b strings.Builder
		for i := 0; i < len(word); i++ {
			switch word[i] {
			case ' ', '\t', '"', '\\':
				b.WriteByte('\\')
			}
			b.WriteByte(word[i])
		}
		return b.String()
	case 3:
		if !needsQuote(key) && op != "" {
			return key + op + dq(val)
		}
		return dq(word)
	}
	if needsQuote(word) {
		return dq(word)
	}
	return word
}

// refSplitWords is the reference for query.SplitWords, from its doc comment:
// words are separated by blanks and tabs; double quotes and backslashes escape
// them (and each other). Empty words are not reported.
func refSplitWords(q string) []string {
	var words []string
	var cur []byte
	inQuote := false
	for i := 0; i < len(q); i++ {
		c := q[i]
		switch {
		case c == '\\':
			if i+1 < len(q) {
				i++
				cur = append(cur, q[i])
			}
		case c == '"':
			inQuote = !inQuote
		case (c == ' ' || c == '\t') && !inQuote:
			if len(cur) > 0 {
				words = append(words, string(cur))
			}
			cur = cur[:0]
		default:
			cur = append(cur, c)
		}
	}
	if len(cur) > 0 {
		words = append(words, string(cur))
	}
	return words
}

// ---------------------------------------------------------------------------
// result comparison

func canonLabels(m map[string]string) string {
	keys := make([]string, 0, len(m))
	for k := range m {
		keys = append(keys, k)
	}
	sort.Strings(keys)
	var b strings.Builder
	for _, k := range keys {
		b.WriteString(strconv.Quote(k))
		b.WriteByte('=')
		b.WriteString(strconv.Quote(m[k]))
		b.WriteByte(' ')
	}
	return b.String()
}

func canonResult(labels, name map[string]string, content string) string {
	return "labels{" + canonLabels(labels) + "} name{" + canonLabels(name) + "} line " + strconv.Quote(content)
}

// diffMultiset returns "" when the two multisets are equal, else a
// description of the first difference.
func diffMultiset(want, got []string) string {
	w := append([]string(nil), want...)
	g := append([]string(nil), got...)
	sort.Strings(w)
	sort.Strings(g)
	i, j := 0, 0
	for i < len(w) && j < len(g) {
		switch {
		case w[i] == g[j]:
			i++
			j++
		case w[i] < g[j]:
			return "missing from the answer: " + w[i]
		default:
			return "not expected in the answer (or returned too often): " + g[j]
		}
	}
	if i < len(w) {
		return "missing from the answer: " + w[i]
	}
	if j < len(g) {
		return "not expected in the answer (or returned too often): " + g[j]
	}
	return ""
}
