package c19

import (
	"testing"

	"verif/harness/lib/vcase"
)

// Fixed histories: the minimal reproducers of the two defects this check found
// in the pinned tree (both fixed since; see known_findings.json C19-a, C19-b)
// and a few hand-written edge histories. They run through the same Check as
// the generated histories.

func bench(name, rest string) Line { return Line{K: "bench", Name: name, Rest: rest} }
func set(k, v string) Line         { return Line{K: "set", Key: k, Sep: " ", Val: v} }
func del(k string) Line            { return Line{K: "del", Key: k} }
func eq(k, v string) Term          { return Term{Key: k, Op: ":", Val: v} }
func lt(k, v string) Term          { return Term{Key: k, Op: "<", Val: v} }
func gt(k, v string) Term          { return Term{Key: k, Op: ">", Val: v} }
func up(user string, files ...File) Step {
	return Step{Kind: "upload", User: user, Files: files}
}
func qry(terms ...Term) Step { return Step{Kind: "query", Terms: terms} }
func lst(limit int, extra []string, terms ...Term) Step {
	return Step{Kind: "list", Terms: terms, Limit: limit, Extra: extra}
}

func regressCases() []Case {
	one := File{Name: "a.txt", Lines: []Line{bench("Foo", " 1 ns/op")}}
	symUpload := func(op string, u, tw int) Term { return Term{Key: "upload", Op: op, Sym: "upload", U: u, Tweak: tw} }
	return []Case{
		// C19-a: a query the parser finds unsatisfiable must list nothing, not fail.
		{Steps: []Step{up("alice", one),
			qry(eq("name", "Foo"), eq("name", "Bar")), lst(0, nil, eq("name", "Foo"), eq("name", "Bar")),
			qry(lt("name", "Foo"), gt("name", "Foo")), lst(0, nil, lt("name", "Foo"), gt("name", "Foo")),
			lst(2, []string{"name"}, gt("name", ""), lt("name", "")),
			lst(0, nil, eq("name", "Foo"), gt("name", "Foo")),
		}},
		// C19-b: an empty sub-value must not make different name labels "equal".
		{Steps: []Step{up("alice", File{Name: "a.txt", Lines: []Line{bench("Foo/enc=", " 1 ns/op"), bench("Foo/size=128", " 1 ns/op")}}),
			qry(eq("size", "128")), qry(gt("enc", "")), lst(0, nil), lst(0, nil, eq("size", "128")),
		}},
		{Steps: []Step{up("", File{Name: "", Lines: []Line{bench("Foo//x", " 1 ns/op"), bench("Foo/sub1=/x", " 2 ns/op"), bench("Foo/a=/b=", " 3 ns/op"), bench("Foo/c=/d=", " 4 ns/op")}}),
			qry(gt("sub1", "")), qry(gt("a", ""), gt("b", "")), qry(gt("c", "")), lst(0, []string{"a", "c", "sub2"}),
		}},
		// empty store
		{Steps: []Step{qry(), qry(eq("name", "Foo")), lst(0, nil), lst(3, []string{"name"}, gt("name", "")), qry(Term{Key: "abc"}), lst(0, nil, Term{Key: "Abc", Op: ":", Val: "x"})}},
		// header block, overwrite, deletion, server keys in the file, junk, runs
		{Steps: []Step{
			up("bob@example.com", File{Name: "dir/c.txt", Lines: []Line{
				set("goos", "linux"), set("pkg", "a b"), {K: "blank"},
				bench("Foo/size=16-8", " 1 ns/op"), bench("Foo/size=16-8", " 2 ns/op"), bench("Foo/size=16-8", " 1 ns/op"),
				set("goos", "darwin"), bench("Foo/size=16-8", " 1 ns/op"),
				del("pkg"), set("by", "mallory"), set("upload", "19990101.1"), bench("Foo/size=16-8", " 1 ns/op"),
				{K: "junk", Text: "PASS"}, {K: "junk", Text: "note:nospace"}, del("missing"), bench("Foo/size=16-8", " 3 ns/op"),
				set("pkg", `q"t\`), bench("Bar/big/v-2", "\t7"),
			}, NoFinalNL: true}),
			qry(eq("by", "bob@example.com")), qry(eq("by", "mallory")), qry(eq("upload-file", "c.txt"), gt("goos", "darwin")),
			qry(eq("pkg", `q"t\`)), qry(Term{Key: "pkg", Op: ":", Val: `q"t\`, Style: 2}), qry(Term{Key: "pkg", Op: ":", Val: "a b", Style: 3}),
			qry(eq("gomaxprocs", "2"), eq("sub2", "v")), qry(gt("pkg", "a"), lt("pkg", "a c")),
			lst(0, []string{"goos", "by", "missing"}, eq("goos", "linux")), lst(1, nil, gt("goos", "")),
		}},
		// bytewise order of digit strings; ranges over upload ids; newest first; limit
		{Steps: []Step{
			up("alice", File{Name: "a.txt", Lines: []Line{set("k9", "9"), bench("X", " 1 ns/op"), set("k9", "10"), bench("X", " 1 ns/op"), set("k9", "2"), bench("X", " 1 ns/op")}}),
			up("alice", one, one),
			up("carol x", File{Name: "x y.txt", Lines: []Line{set("k9", "10"), bench("X/n=1", " 1 ns/op"), bench("X/n=1", " 1 ns/op"), bench("X/n=2", " 1 ns/op")}}),
			qry(gt("k9", "10"), lt("k9", "9")), qry(gt("k9", "1"), lt("k9", "2")), qry(lt("k9", "10")), qry(gt("k9", "9")),
			qry(symUpload(">", 0, 0), symUpload("<", 2, 0)), qry(symUpload(">", 0, 1), symUpload("<", 2, 2), gt("name", "")),
			qry(symUpload(":", 1, 0), Term{Key: "upload-part", Op: ">", Sym: "upload-part", U: 1, F: 0}),
			qry(Term{Key: "upload-time", Op: ">", Sym: "upload-time", U: 0, Tweak: 1}, Term{Key: "upload-time", Op: "<", Sym: "upload-time", U: 2, Tweak: 3}, eq("by", "carol x")),
			lst(0, nil), lst(1, nil), lst(2, []string{"k9", "n"}), lst(0, nil, eq("k9", "10")), lst(1, nil, eq("k9", "10")),
			lst(0, nil, symUpload("<", 2, 0), gt("name", "")), lst(5, []string{"by"}, gt("upload-file", "a"), lt("upload-file", "b")),
		}},
	}
}

func TestC19Regress(t *testing.T) {
	vcase.Enum(t, "C19", "regress", false, func(yield func(Case) bool) {
		for _, c := range regressCases() {
			if !yield(c) {
				return
			}
		}
	}, Check)
}
