// Package c19: the performance data storage server returns stored results
// exactly and queries mean what they say. A generated history of uploads,
// queries and upload listings is executed against an in-process server
// (storage/app on a file-backed sqlite database + MemFS, served by httptest,
// accessed through storage.Client) and against the reference model in
// model_test.go; the two are compared after every step.
package c19

import (
	"context"
	"fmt"
	"io"
	"log"
	"net/http"
	"net/http/httptest"
	"net/url"
	"path/filepath"
	"sort"
	"strings"
	"testing"
	"time"

	"golang.org/x/perf/storage"
	"golang.org/x/perf/storage/app"
	"golang.org/x/perf/storage/db"
	_ "golang.org/x/perf/storage/db/sqlite3"
	"golang.org/x/perf/storage/fs"
	"pgregory.net/rapid"
	"verif/harness/lib/vcase"
)

func init() { log.SetOutput(io.Discard) } // the server logs every request

// ---------------------------------------------------------------------------
// the server under test

const userHeader = "X-C19-User"

type userRT struct {
	base http.RoundTripper
	user *string
}

func (u userRT) RoundTrip(r *http.Request) (*http.Response, error) {
	r2 := r.Clone(r.Context())
	r2.Header.Set(userHeader, url.QueryEscape(*u.user))
	return u.base.RoundTrip(r2)
}

type server struct {
	db      *db.DB
	fs      *fs.MemFS
	srv     *httptest.Server
	tr      *http.Transport
	client  *storage.Client
	user    string
	cleanup func()
}

func newServer() (*server, error) {
	dir, cleanup := vcase.ScratchDir("c19-")
	// A file DSN: with ":memory:" every pooled connection would get its own
	// database. Durability is irrelevant here, so no fsync and no journal file.
	dsn := "file:" + filepath.Join(dir, "perfdata.db") + "?_busy_timeout=10000&_synchronous=OFF&_journal_mode=MEMORY"
	d, err := db.OpenSQL("sqlite3", dsn)
	if err != nil {
		cleanup()
		return nil, err
	}
	s := &server{db: d, fs: fs.NewMemFS(), cleanup: cleanup}
	a := &app.App{
		DB: d,
		FS: s.fs,
		Auth: func(_ http.ResponseWriter, r *http.Request) (string, error) {
			return url.QueryUnescape(r.Header.Get(userHeader))
		},
	}
	mux := http.NewServeMux()
	a.RegisterOnMux(mux)
	s.srv = httptest.NewServer(mux)
	s.tr = &http.Transport{MaxIdleConns: 4, MaxIdleConnsPerHost: 4, IdleConnTimeout: time.Minute}
	s.client = &storage.Client{BaseURL: s.srv.URL, HTTPClient: &http.Client{Transport: userRT{s.tr, &s.user}}}
	return s, nil
}

func (s *server) close() {
	s.tr.CloseIdleConnections()
	s.srv.Close()
	s.db.Close()
	s.cleanup()
}

type gotResult struct {
	labels, name map[string]string
	content      string
}

func (s *server) query(q string) ([]gotResult, error) {
	res := s.client.Query(context.Background(), q)
	defer res.Close()
	var out []gotResult
	for res.Next() {
		r := res.Result()
		g := gotResult{labels: map[string]string{}, name: map[string]string{}, content: r.Content}
		for k, v := range r.Labels {
			g.labels[k] = v
		}
		for k, v := range r.NameLabels {
			g.name[k] = v
		}
		out = append(out, g)
	}
	return out, res.Err()
}

func (s *server) list(q string, extra []string, limit int) ([]storage.UploadInfo, error) {
	ul := s.client.ListUploads(context.Background(), q, extra, limit)
	defer ul.Close()
	var out []storage.UploadInfo
	for ul.Next() {
		out = append(out, ul.Info())
	}
	return out, ul.Err()
}

func (s *server) upload(user string, files []File) (*storage.UploadStatus, error) {
	s.user = user
	u := s.client.NewUpload(context.Background())
	for _, f := range files {
		w, err := u.CreateFile(f.Name)
		if err != nil {
			u.Abort()
			return nil, err
		}
		if _, err := io.WriteString(w, f.text()); err != nil {
			u.Abort()
			return nil, err
		}
	}
	return u.Commit()
}

// ---------------------------------------------------------------------------
// Check

type world struct {
	uploads []*mUpload
}

func (w *world) total() int {
	n := 0
	for _, u := range w.uploads {
		n += len(u.recs)
	}
	return n
}

// resolve returns the value of every term at execution time.
func (w *world) resolve(terms []Term) []string {
	vals := make([]string, len(terms))
	for i, t := range terms {
		vals[i] = t.Val
		if t.Sym == "" {
			continue
		}
		if len(w.uploads) == 0 {
			vals[i] = tweak("none", t.Tweak)
			continue
		}
		u := w.uploads[mod(t.U, len(w.uploads))]
		var v string
		switch t.Sym {
		case "upload":
			v = u.id
		case "upload-part":
			v = fmt.Sprintf("%s/%d", u.id, mod(t.F, u.nfiles))
		case "upload-time":
			v = u.time
		}
		vals[i] = tweak(v, t.Tweak)
	}
	return vals
}

func mod(a, n int) int {
	if n <= 0 {
		return 0
	}
	a %= n
	if a < 0 {
		a += n
	}
	return a
}

func renderQuery(terms []Term, vals []string, sep string) string {
	if sep == "" {
		sep = " "
	}
	words := make([]string, len(terms))
	for i, t := range terms {
		words[i] = renderWord(t.Key, t.Op, vals[i], t.Style)
	}
	return strings.Join(words, sep)
}

type qclass struct {
	invalid  bool // some word has no operator or a key with upper-case / white space
	emptyEq  bool // key:"" on an ordinary key: documented as unsupported
	ranges   int
	sameKey  bool // two terms on one key
	contra   bool // two terms on one key that cannot both hold for any value
	quoted   bool
	hasSym   bool
	presence bool
}

func classify(terms []Term, vals []string) (c qclass) {
	byKey := map[string][]int{}
	for i, t := range terms {
		if termInvalid(t) {
			c.invalid = true
		}
		if t.Op == ":" && vals[i] == "" && t.Key != "upload" {
			c.emptyEq = true
		}
		if t.Op == "<" || t.Op == ">" {
			c.ranges++
		}
		if t.Op == ">" && vals[i] == "" {
			c.presence = true
		}
		if needsQuote(t.Key + t.Op + vals[i]) {
			c.quoted = true
		}
		if t.Sym != "" {
			c.hasSym = true
		}
		byKey[t.Key] = append(byKey[t.Key], i)
	}
	for _, idx := range byKey {
		if len(idx) < 2 {
			continue
		}
		c.sameKey = true
		// unsatisfiable on this key? lower/upper bounds and equalities
		lo, hasLo, hi, hasHi := "", false, "", false
		var eq []string
		for _, i := range idx {
			switch terms[i].Op {
			case ":":
				eq = append(eq, vals[i])
			case ">":
				if vals[i] != "" && (!hasLo || vals[i] > lo) {
					lo, hasLo = vals[i], true
				}
			case "<":
				if !hasHi || vals[i] < hi {
					hi, hasHi = vals[i], true
				}
			}
		}
		for _, e := range eq {
			if e != eq[0] || (hasLo && !(e > lo)) || (hasHi && !(e < hi)) {
				c.contra = true
			}
		}
		if hasLo && hasHi && !(lo < hi) {
			c.contra = true
		}
		if hasHi && hi == "" {
			c.contra = true
		}
	}
	return
}

func Check(c Case) (v vcase.Verdict) {
	s, err := newServer()
	if err != nil {
		panic("VERIF-BROKEN cannot start the server: " + err.Error())
	}
	defer s.close()
	w := &world{}
	seenID := map[string]bool{}

	for si, st := range c.Steps {
		v.Sub++
		where := fmt.Sprintf("step %d (%s)", si, st.Kind)
		switch st.Kind {
		case "upload":
			status, err := s.upload(st.User, st.Files)
			if err != nil {
				v.Failf("%s: upload of well-formed files failed: %v", where, err)
				return
			}
			id := status.UploadID
			if id == "" || seenID[id] {
				v.Failf("%s: upload id %q is empty or was used before", where, id)
				return
			}
			seenID[id] = true
			for i := range st.Files {
				if want := fmt.Sprintf("%s/%d", id, i); i >= len(status.FileIDs) || status.FileIDs[i] != want {
					v.Failf("%s: file ids %q, want #%d = %q", where, status.FileIDs, i, want)
					return
				}
			}
			if len(status.FileIDs) != len(st.Files) {
				v.Failf("%s: %d file ids for %d files", where, len(status.FileIDs), len(st.Files))
				return
			}
			// Read the upload back: learns the upload time (the only value the
			// model cannot know) and checks every record of the upload.
			got, err := s.query("upload:" + id)
			if err != nil {
				v.Failf("%s: reading back upload %s: %v", where, id, err)
				return
			}
			uptime := ""
			for i, g := range got {
				t, ok := g.labels["upload-time"]
				if !ok {
					v.Failf("%s: result %q of upload %s has no upload-time label", where, g.content, id)
					return
				}
				if _, err := time.Parse(time.RFC3339, t); err != nil {
					v.Failf("%s: upload-time %q is not RFC 3339: %v", where, t, err)
					return
				}
				if i > 0 && t != uptime {
					v.Failf("%s: upload %s carries two upload times %q and %q", where, id, uptime, t)
					return
				}
				uptime = t
			}
			mu := buildUpload(id, st.User, uptime, st.Files)
			w.uploads = append(w.uploads, mu)
			var want, have []string
			for i := range mu.recs {
				want = append(want, canonResult(mu.recs[i].labels, mu.recs[i].name, mu.recs[i].content))
			}
			for _, g := range got {
				have = append(have, canonResult(g.labels, g.name, g.content))
			}
			if d := diffMultiset(want, have); d != "" {
				v.Failf("%s: reading back upload %s (%d results stored, %d returned): %s", where, id, len(want), len(have), d)
				return
			}
			labelUpload(&v, st, mu)

		case "query":
			vals := w.resolve(st.Terms)
			q := renderQuery(st.Terms, vals, st.Sep)
			if len(st.Terms) == 0 {
				q = " " // the /search handler rejects an empty q parameter; a blank has no words either
			}
			cl := classify(st.Terms, vals)
			got, err := s.query(q)
			if cl.invalid {
				v.Label("query:invalid")
				if err == nil {
					v.Failf("%s: invalid query %q was answered (%d results) instead of rejected", where, q, len(got))
					return
				}
				continue
			}
			var want []string
			for _, u := range w.uploads {
				for i := range u.recs {
					if recMatches(&u.recs[i], st.Terms, vals) {
						want = append(want, canonResult(u.recs[i].labels, u.recs[i].name, u.recs[i].content))
					}
				}
			}
			var have []string
			for _, g := range got {
				have = append(have, canonResult(g.labels, g.name, g.content))
			}
			if cl.emptyEq {
				// key:"" is documented as not implemented; an error, the
				// literal reading and "matches nothing" are all accepted.
				v.Label("query:empty_equality")
				if err != nil || len(have) == 0 {
					continue
				}
			}
			if err != nil {
				v.Failf("%s: query %q failed: %v", where, q, err)
				return
			}
			if d := diffMultiset(want, have); d != "" {
				v.Failf("%s: query %q: model has %d matching results, server returned %d: %s", where, q, len(want), len(have), d)
				return
			}
			total := w.total()
			labelQuery(&v, "query", st.Terms, cl, len(want), total)
			if len(w.uploads) >= 2 && len(st.Terms) >= 2 && cl.ranges >= 1 && len(want) > 0 && len(want) < total {
				v.NonTrivial = true
				v.Label("nontrivial:query")
			}

		case "list":
			vals := w.resolve(st.Terms)
			q := renderQuery(st.Terms, vals, st.Sep)
			cl := classify(st.Terms, vals)
			got, err := s.list(q, st.Extra, st.Limit)
			if cl.invalid {
				v.Label("list:invalid")
				if err == nil {
					v.Failf("%s: invalid query %q was answered by ListUploads (%d uploads) instead of rejected", where, q, len(got))
					return
				}
				continue
			}
			type row struct {
				u          *mUpload
				runs, recs int
			}
			var want []row
			matched := 0
			for ui := len(w.uploads) - 1; ui >= 0; ui-- {
				u := w.uploads[ui]
				runs, recs, last := 0, 0, -1
				for i := range u.recs {
					if recMatches(&u.recs[i], st.Terms, vals) {
						recs++
						if u.recs[i].run != last {
							last = u.recs[i].run
							runs++
						}
					}
				}
				matched += recs
				if runs > 0 {
					want = append(want, row{u, runs, recs})
				}
			}
			full := len(want)
			if st.Limit > 0 && len(want) > st.Limit {
				want = want[:st.Limit]
			}
			if cl.emptyEq {
				v.Label("list:empty_equality")
				if err != nil || len(got) == 0 {
					continue
				}
			}
			if err != nil {
				v.Failf("%s: ListUploads(%q, %q, %d) failed: %v (model: %d uploads match)", where, q, st.Extra, st.Limit, err, full)
				return
			}
			if len(got) != len(want) {
				v.Failf("%s: ListUploads(%q, %q, %d) returned %d uploads %s, model has %d %s", where, q, st.Extra, st.Limit,
					len(got), fmtInfos(got), len(want), fmtRows(len(want), func(i int) (string, int) { return want[i].u.id, want[i].runs }))
				return
			}
			for i, g := range got {
				wr := want[i]
				if g.UploadID != wr.u.id {
					v.Failf("%s: ListUploads(%q, %q, %d) row %d is upload %s, want %s (newest first): got %s", where, q, st.Extra, st.Limit, i, g.UploadID, wr.u.id, fmtInfos(got))
					return
				}
				if wr.u.labelRows <= labelRowBound {
					if g.Count != wr.runs {
						v.Failf("%s: ListUploads(%q, %q, %d): upload %s count %d, model has %d matching stored records (%d matching results)", where, q, st.Extra, st.Limit, g.UploadID, g.Count, wr.runs, wr.recs)
						return
					}
				} else {
					v.Label("list:large_upload_row")
					if g.Count < wr.runs || g.Count > wr.recs {
						v.Failf("%s: ListUploads(%q, %q, %d): large upload %s count %d outside [%d stored records, %d results]", where, q, st.Extra, st.Limit, g.UploadID, g.Count, wr.runs, wr.recs)
						return
					}
					if g.Count != wr.runs {
						v.Label("list:large_upload_count_above_model")
					}
				}
				// extra labels: the value of one unspecified record of the upload
				for k := range g.LabelValues {
					if !contains(st.Extra, k) {
						v.Failf("%s: ListUploads(%q, %q, %d): upload %s reports label %q that was not asked for", where, q, st.Extra, st.Limit, g.UploadID, k)
						return
					}
				}
				for _, k := range st.Extra {
					var possible []string
					for ri := range wr.u.recs {
						if x, ok := wr.u.recs[ri].get(k); ok && !contains(possible, x) {
							possible = append(possible, x)
						}
					}
					x, ok := g.LabelValues[k]
					if len(possible) == 0 && ok {
						v.Failf("%s: ListUploads(%q, %q, %d): upload %s reports %s=%q but no record of it has that label", where, q, st.Extra, st.Limit, g.UploadID, k, x)
						return
					}
					if len(possible) > 0 && (!ok || !contains(possible, x)) {
						v.Failf("%s: ListUploads(%q, %q, %d): upload %s reports %s=%q (present=%v), want one of %q", where, q, st.Extra, st.Limit, g.UploadID, k, x, ok, possible)
						return
					}
					if len(possible) > 0 {
						v.Label("list:extra_label_present")
					} else {
						v.Label("list:extra_label_absent")
					}
				}
			}
			total := w.total()
			labelQuery(&v, "list", st.Terms, cl, matched, total)
			if st.Limit > 0 && full > st.Limit {
				v.Label("list:truncated_by_limit")
			}
			if len(want) >= 2 {
				v.Label("list:>=2_rows")
			}
			if len(w.uploads) >= 2 && len(st.Terms) >= 2 && cl.ranges >= 1 && matched > 0 && matched < total {
				v.NonTrivial = true
				v.Label("nontrivial:list")
			}
		default:
			v.Failf("bad step kind %q", st.Kind)
			return
		}
	}
	v.Label(fmt.Sprintf("uploads=%d", min(len(w.uploads), 4)))
	return
}

func contains(xs []string, x string) bool {
	for _, y := range xs {
		if y == x {
			return true
		}
	}
	return false
}

func fmtInfos(got []storage.UploadInfo) string {
	return fmtRows(len(got), func(i int) (string, int) { return got[i].UploadID, got[i].Count })
}

func fmtRows(n int, f func(int) (string, int)) string {
	var parts []string
	for i := 0; i < n; i++ {
		id, c := f(i)
		parts = append(parts, fmt.Sprintf("%s:%d", id, c))
	}
	return "[" + strings.Join(parts, " ") + "]"
}

func labelUpload(v *vcase.Verdict, st Step, mu *mUpload) {
	if len(st.Files) > 1 {
		v.Label("upload:multi_file")
	}
	if mu.nRuns < len(mu.recs) {
		v.Label("upload:coalesced_run")
	}
	if mu.labelRows > labelRowBound {
		v.Label("upload:large")
	}
	if st.User == "" {
		v.Label("upload:no_user")
	}
	for _, f := range st.Files {
		if f.Name == "" {
			v.Label("upload:unnamed_file")
		}
		if strings.Contains(f.Name, "/") {
			v.Label("upload:file_name_with_dir")
		}
		seen := map[string]bool{}
		first := true
		for _, ln := range f.Lines {
			switch ln.K {
			case "set":
				switch ln.Key {
				case "upload", "upload-part", "upload-time", "upload-file", "by":
					v.Label("upload:file_sets_server_key")
				}
				if seen[ln.Key] {
					v.Label("upload:label_overwrite")
				}
				seen[ln.Key] = true
				if needsQuote(ln.Val) {
					v.Label("upload:value_needs_quoting")
				}
				if len(ln.Val) > 40 {
					v.Label("upload:long_value")
				}
			case "del":
				if seen[ln.Key] {
					v.Label("upload:label_deletion")
				}
			case "blank":
				if first && len(seen) > 0 {
					v.Label("upload:header_block")
				}
			case "junk":
				v.Label("upload:junk_line")
			case "bench":
				first = false
			}
		}
	}
	for i := range mu.recs {
		n := mu.recs[i].name
		if _, ok := n["gomaxprocs"]; ok {
			v.Label("upload:name_with_procs")
		}
		for k, x := range n {
			if k != "name" && k != "gomaxprocs" && !strings.HasPrefix(k, "sub") {
				v.Label("upload:name_key=value")
			}
			if strings.HasPrefix(k, "sub") {
				v.Label("upload:name_positional_sub")
			}
			if x == "" {
				v.Label("upload:name_empty_value")
			}
		}
	}
}

func labelQuery(v *vcase.Verdict, kind string, terms []Term, cl qclass, matched, total int) {
	v.Label(fmt.Sprintf("%s:terms=%d", kind, len(terms)))
	switch {
	case total == 0:
		v.Label(kind + ":answer_on_empty_store")
	case matched == 0:
		v.Label(kind + ":answer_empty")
	case matched == total:
		v.Label(kind + ":answer_total")
	default:
		v.Label(kind + ":answer_partial")
	}
	if cl.ranges > 0 {
		v.Label(kind + ":has_range")
	}
	if cl.sameKey {
		v.Label(kind + ":several_terms_one_key")
		if cl.contra {
			v.Label(kind + ":contradictory")
		} else if matched > 0 {
			v.Label(kind + ":several_terms_one_key_satisfied")
		}
	}
	if cl.quoted {
		v.Label(kind + ":needs_quoting")
	}
	if cl.hasSym {
		v.Label(kind + ":server_chosen_value")
	}
	if cl.presence {
		v.Label(kind + ":presence_term")
	}
}

// ---------------------------------------------------------------------------
// Gen

var (
	fileKeys   = []string{"goos", "pkg", "commit", "note", "k9", "é"}
	serverKeys = []string{"upload", "upload-part", "upload-time", "upload-file", "by"}
	fileVals   = []string{"50%", "%s%d", "linux", "darwin", "a", "b", "ab", "abc", "a b", "10", "9", "2", `q"t`, `b\s`, "tab\tx", "héllo", "日本", "v ", "x:y", "a<b", "z>", "A"}
	users      = []string{"alice", "alice", "bob@example.com", "carol x", ""}
	fileNames  = []string{"a.txt", "b.txt", "bench.out", "dir/c.txt", "x y.txt", "", "a.txt"}
	nameBases  = []string{"Foo", "Bar", "Encode", "Xz", "X", "Foo"}
	subKeys    = []string{"size", "n", "mode", "enc", "name"}
	subVals    = []string{"1", "16", "128", "", "a-b", "x.y", "é", "10", "9"}
	bareVals   = []string{"small", "big", "1", "", "v-2"}
	procs      = []string{"1", "4", "8", "16"}
	rests      = []string{" 1 ns/op", "\t     100\t  12.5 ns/op", " 1 2 ns/op 3 B/op", "   2000000000\t0.33 ns/op\t  0 allocs/op", " 1 1 ns/op ", " 5 ns/op é", "\t7",
		// per cent signs (nothing in a stored line is a format directive), lines without any blank
		" 1 50 %hit", " 10 99.5 %", " 3 7 %d/op 2 100%", "\t5\t1 ns/op\t%s", " 1 2 %%", "\t100\t12.5\tns/op", "\t1\t2\tns/op\t3\tB/op"}
	junk = []string{"PASS", "ok  \tgolang.org/x/perf\t0.1s", "--- BENCH: BenchmarkFoo", "BenchmarkNoSpace", "# comment", "note:nospace", "Upper: x", "   indented: x", "FAIL", ": x", ":", ": ", "=: x", "Benchmark", "key value: x"}
	seps = []string{" ", " ", "\t", "  ", " \t"}
)

func pick(t *rapid.T, xs []string, label string) string {
	return xs[rapid.IntRange(0, len(xs)-1).Draw(t, label)]
}

// longVals: values longer than any plausible fixed-width buffer or column prefix.
var longVals = []string{
	"go1.23.5 linux/amd64 -gcflags=all=-N -l (long value)",
	strings.Repeat("long-", 24) + "end",
	strings.Repeat("x", 300) + "a",
	strings.Repeat("x", 300) + "b",
	strings.Repeat("é", 600),
}

func genValue(t *rapid.T) string {
	switch k := rapid.IntRange(0, 19).Draw(t, "valkind"); {
	case k == 0:
		return pick(t, longVals, "longval")
	case k < 16:
		return pick(t, fileVals, "val")
	}
	rs := rapid.SliceOfN(rapid.SampledFrom([]rune{'a', 'b', 'c', '0', '1', ' ', '"', '\\', 'é', '~', '!'}), 1, 4).Draw(t, "valrunes")
	s := strings.TrimLeft(string(rs), " \t")
	if s == "" {
		s = "a"
	}
	return s
}

func genName(t *rapid.T) string {
	name := pick(t, nameBases, "base")
	nsub := rapid.IntRange(0, 3).Draw(t, "nsub")
	used := map[string]bool{}
	for i := 0; i < nsub; i++ {
		if rapid.IntRange(0, 9).Draw(t, "keyed") < 6 {
			k := pick(t, subKeys, "subkey")
			if rapid.IntRange(0, 19).Draw(t, "upperkey") == 0 {
				k = "N"
			}
			if used[k] {
				continue
			}
			used[k] = true
			name += "/" + k + "=" + pick(t, subVals, "subval")
		} else {
			name += "/" + pick(t, bareVals, "bare")
		}
	}
	if rapid.Bool().Draw(t, "hasprocs") {
		name += "-" + pick(t, procs, "procs")
	}
	return name
}

func genFile(t *rapid.T, big bool) File {
	f := File{Name: pick(t, fileNames, "fname")}
	nh := rapid.IntRange(0, 3).Draw(t, "nheader")
	for i := 0; i < nh; i++ {
		f.Lines = append(f.Lines, Line{K: "set", Key: pick(t, fileKeys, "hkey"), Sep: pick(t, seps, "hsep"), Val: genValue(t)})
	}
	if nh > 0 && rapid.IntRange(0, 9).Draw(t, "hblank") < 3 {
		f.Lines = append(f.Lines, Line{K: "blank"})
	}
	n := rapid.IntRange(1, 20).Draw(t, "nbody")
	if !big && rapid.Bool().Draw(t, "short") {
		n = (n + 3) / 4
	}
	if big {
		n = 20
	}
	lastName := ""
	nbench := 0
	for i := 0; i < n; i++ {
		k := rapid.IntRange(0, 99).Draw(t, "linekind")
		switch {
		case k < 66:
			name := lastName
			reuse := 50
			if big {
				reuse = 25
			}
			if nbench == 0 || rapid.IntRange(0, 99).Draw(t, "reuse") >= reuse {
				name = genName(t)
			}
			lastName = name
			nbench++
			f.Lines = append(f.Lines, Line{K: "bench", Name: name, Rest: pick(t, rests, "rest")})
		case k < 81:
			f.Lines = append(f.Lines, Line{K: "set", Key: pick(t, fileKeys, "key"), Sep: pick(t, seps, "sep"), Val: genValue(t)})
		case k < 88:
			f.Lines = append(f.Lines, Line{K: "del", Key: pick(t, fileKeys, "dkey"), Sep: pick(t, []string{"", "", " "}, "dsep")})
		case k < 91:
			f.Lines = append(f.Lines, Line{K: "blank"})
		case k < 96:
			f.Lines = append(f.Lines, Line{K: "junk", Text: pick(t, junk, "junk")})
		case k < 99:
			f.Lines = append(f.Lines, Line{K: "set", Key: pick(t, serverKeys, "skey"), Sep: " ", Val: pick(t, []string{"mallory", "19990101.1", "x/0", "2001-01-01T00:00:00Z"}, "sval")})
		default:
			f.Lines = append(f.Lines, Line{K: "del", Key: pick(t, serverKeys, "sdkey")})
		}
	}
	if nbench == 0 {
		f.Lines = append(f.Lines, Line{K: "bench", Name: genName(t), Rest: pick(t, rests, "rest")})
	}
	f.NoFinalNL = rapid.IntRange(0, 9).Draw(t, "nofinalnl") == 0
	return f
}

// genState is the generator's own view of what has been uploaded (with
// placeholders for the values the server chooses); it only steers the
// generation of queries towards stored values.
type genState struct {
	uploads []*mUpload
}

func (g *genState) recs() (out []*mrec, up []int) {
	for ui, u := range g.uploads {
		for i := range u.recs {
			out = append(out, &u.recs[i])
			up = append(up, ui)
		}
	}
	return
}

func (g *genState) valuesOf(key string) []string {
	var vs []string
	for _, u := range g.uploads {
		for i := range u.recs {
			if x, ok := u.recs[i].get(key); ok && !contains(vs, x) {
				vs = append(vs, x)
			}
		}
	}
	sort.Strings(vs)
	return vs
}

func genUpload(t *rapid.T, g *genState) Step {
	st := Step{Kind: "upload", User: pick(t, users, "user")}
	big := rapid.IntRange(0, 24).Draw(t, "big") == 0
	nf := rapid.SampledFrom([]int{1, 1, 1, 2, 2, 3}).Draw(t, "nfiles")
	if big {
		nf = 3
	}
	for i := 0; i < nf; i++ {
		st.Files = append(st.Files, genFile(t, big))
	}
	id := fmt.Sprintf("§U%d", len(g.uploads))
	mu := buildUpload(id, st.User, "§T", st.Files)
	if !big {
		// keep the number of label rows below the bound by construction: drop
		// trailing lines (never the first result line of a file)
		for mu.labelRows > labelRowBound {
			longest, room := -1, 0
			for fi, f := range st.Files {
				firstBench := 0
				for firstBench < len(f.Lines) && f.Lines[firstBench].K != "bench" {
					firstBench++
				}
				if r := len(f.Lines) - 1 - firstBench; r > room {
					longest, room = fi, r
				}
			}
			if longest < 0 {
				break
			}
			f := &st.Files[longest]
			f.Lines = f.Lines[:len(f.Lines)-1]
			mu = buildUpload(id, st.User, "§T", st.Files)
		}
	}
	g.uploads = append(g.uploads, mu)
	return st
}

var tweaksBelow = []int{1, 1, 4}
var tweaksAbove = []int{2, 2, 3, 5}

// genTermFor makes a term on key for a record whose value of key is v (has =
// false when the record lacks the key).
func genTermFor(t *rapid.T, g *genState, key, v string, has bool, up, file int) Term {
	tm := Term{Key: key, Style: rapid.IntRange(0, 3).Draw(t, "style")}
	sym := key == "upload" || key == "upload-part" || key == "upload-time"
	if sym {
		tm.Sym, tm.U, tm.F = key, up, file
	}
	set := func(op string, tw int) {
		tm.Op = op
		if sym {
			tm.Tweak = tw
		} else {
			tm.Val = tweak(v, tw)
		}
	}
	if !has {
		// absent from the target record: anything goes
		vs := g.valuesOf(key)
		if len(vs) > 0 && !sym {
			v = vs[rapid.IntRange(0, len(vs)-1).Draw(t, "absentval")]
		} else if !sym {
			v = pick(t, fileVals, "absentval2")
		}
		set(pick(t, []string{":", "<", ">", ">"}, "absentop"), rapid.IntRange(0, 5).Draw(t, "absenttweak"))
		if rapid.IntRange(0, 3).Draw(t, "absentpresence") == 0 {
			tm.Op, tm.Val, tm.Sym, tm.Tweak = ">", "", "", 0
		}
		return tm
	}
	switch k := rapid.IntRange(0, 11).Draw(t, "termkind"); k {
	case 0, 1, 2: // true: equality
		set(":", 0)
	case 3, 4: // true: tight lower bound
		set(">", tweaksBelow[rapid.IntRange(0, len(tweaksBelow)-1).Draw(t, "below")])
	case 5, 6: // true: tight upper bound
		set("<", tweaksAbove[rapid.IntRange(0, len(tweaksAbove)-1).Draw(t, "above")])
	case 7: // true: presence
		tm.Op, tm.Val, tm.Sym = ">", "", ""
	case 8: // false: the bound is the value itself
		set(pick(t, []string{"<", ">"}, "strictop"), 0)
	case 9: // false: wrong side or wrong value
		switch rapid.IntRange(0, 2).Draw(t, "wrong") {
		case 0:
			set(":", rapid.IntRange(1, 5).Draw(t, "wrongeq"))
		case 1:
			set(">", tweaksAbove[rapid.IntRange(0, len(tweaksAbove)-1).Draw(t, "above2")])
		default:
			set("<", tweaksBelow[rapid.IntRange(0, len(tweaksBelow)-1).Draw(t, "below2")])
		}
	default: // a bound at another stored value of the key
		if sym {
			tm.U = rapid.IntRange(0, 5).Draw(t, "otheru")
			tm.F = rapid.IntRange(0, 2).Draw(t, "otherf")
			set(pick(t, []string{"<", ">", ":"}, "otherop"), rapid.IntRange(0, 3).Draw(t, "othertweak"))
		} else {
			vs := g.valuesOf(key)
			if len(vs) > 0 {
				v = vs[rapid.IntRange(0, len(vs)-1).Draw(t, "otherval")]
			}
			set(pick(t, []string{"<", ">", ":"}, "otherop2"), rapid.IntRange(0, 3).Draw(t, "othertweak2"))
		}
	}
	if tm.Op == ":" && tm.Val == "" && tm.Sym == "" {
		tm.Op = ">" // key:"" is the unsupported class; generated separately at a low rate
	}
	return tm
}

func genTerms(t *rapid.T, g *genState, list bool) []Term {
	weights := []int{0, 1, 1, 1, 2, 2, 2, 2, 2, 3, 3, 3, 3, 4, 4, 5}
	if list {
		weights = []int{0, 0, 0, 1, 1, 1, 2, 2, 2, 2, 3, 3, 4, 5}
	}
	n := rapid.SampledFrom(weights).Draw(t, "nterms")
	recs, ups := g.recs()
	var terms []Term
	special := rapid.IntRange(0, 39).Draw(t, "special")
	if special == 0 { // invalid word first (a later invalid word may never be looked at once an earlier contradiction is found)
		bad := []Term{{Key: "abc", Op: ""}, {Key: "Goos", Op: ":", Val: "linux"}, {Key: "go os", Op: ":", Val: "linux", Style: 1}, {Key: "pkG", Op: ">", Val: ""}, {Key: "k9", Op: "", Style: 1}}
		terms = append(terms, bad[rapid.IntRange(0, len(bad)-1).Draw(t, "bad")])
	} else if special == 1 {
		terms = append(terms, Term{Key: pick(t, fileKeys, "emptyeqkey"), Op: ":", Val: ""})
	}
	if len(recs) == 0 || rapid.IntRange(0, 9).Draw(t, "untargeted") == 0 {
		for i := 0; i < n; i++ {
			key := pick(t, append(append([]string{"name", "gomaxprocs", "sub1", "missing", ""}, fileKeys...), subKeys...), "rkey")
			terms = append(terms, Term{Key: key, Op: pick(t, []string{":", "<", ">"}, "rop"), Val: genValue(t), Style: rapid.IntRange(0, 3).Draw(t, "rstyle")})
			if last := &terms[len(terms)-1]; last.Op == ":" && last.Val == "" {
				last.Op = ">"
			}
		}
		return terms
	}
	ti := rapid.IntRange(0, len(recs)-1).Draw(t, "target")
	target, up := recs[ti], ups[ti]
	var keys []string
	for k := range target.labels {
		keys = append(keys, k)
	}
	for k := range target.name {
		keys = append(keys, k)
	}
	sort.Strings(keys)
	var valid []string
	for _, k := range keys {
		if !termInvalid(Term{Key: k, Op: ":"}) {
			valid = append(valid, k)
		}
	}
	others := append(append(append([]string{"missing", "sub2", "gomaxprocs"}, fileKeys...), subKeys...), serverKeys...)
	cluster := rapid.IntRange(0, 3).Draw(t, "cluster") == 0 // all terms on one key
	lastKey := ""
	for i := 0; i < n; i++ {
		var key string
		r := rapid.IntRange(0, 99).Draw(t, "keysrc")
		switch {
		case lastKey != "" && (cluster || r < 22):
			key = lastKey
		case r < 85:
			key = valid[rapid.IntRange(0, len(valid)-1).Draw(t, "tkey")]
		default:
			key = pick(t, others, "okey")
		}
		lastKey = key
		v, has := target.get(key)
		terms = append(terms, genTermFor(t, g, key, v, has, up, target.file))
	}
	return terms
}

func Gen(t *rapid.T) Case {
	var c Case
	g := &genState{}
	n := rapid.IntRange(3, 14).Draw(t, "nsteps")
	for i := 0; i < n; i++ {
		k := rapid.IntRange(0, 99).Draw(t, "stepkind")
		if i == 0 && k >= 8 {
			k = 0 // nearly always start with an upload
		}
		if i == 1 && len(g.uploads) == 1 && k >= 50 {
			k = 0 // and often with two
		}
		switch {
		case k < 28 && len(g.uploads) < 5:
			c.Steps = append(c.Steps, genUpload(t, g))
		case k < 75:
			c.Steps = append(c.Steps, Step{Kind: "query", Terms: genTerms(t, g, false), Sep: pick(t, seps, "qsep")})
		default:
			st := Step{Kind: "list", Terms: genTerms(t, g, true), Sep: pick(t, seps, "lsep")}
			ne := rapid.SampledFrom([]int{0, 0, 1, 1, 2, 3}).Draw(t, "nextra")
			pool := append(append(append([]string{"name", "gomaxprocs", "sub1", "missing"}, fileKeys...), subKeys...), serverKeys...)
			for j := 0; j < ne; j++ {
				if e := pick(t, pool, "extra"); !contains(st.Extra, e) {
					st.Extra = append(st.Extra, e)
				}
			}
			st.Limit = rapid.SampledFrom([]int{0, 0, 0, 1, 1, 2, 2, 3, 5, 100}).Draw(t, "limit")
			c.Steps = append(c.Steps, st)
		}
	}
	return c
}

func TestC19Machine(t *testing.T) {
	vcase.Run(t, "C19", "machine", Gen, Check)
}
