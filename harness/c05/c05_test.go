// Package c05: benchmark names decompose consistently and key extraction
// (projections and literal filters) follows that decomposition.
package c05

import (
	"bytes"
	"fmt"
	"sort"
	"strconv"
	"strings"
	"testing"
	"unicode/utf8"

	"golang.org/x/perf/benchfmt"
	"golang.org/x/perf/benchproc"
	"pgregory.net/rapid"
	"verif/harness/lib/refbench"
	"verif/harness/lib/refexpr"
	"verif/harness/lib/refproj"
	"verif/harness/lib/vcase"
)

type Cfg struct {
	K, V string
	File bool
}

type Case struct {
	Name    string // may hold arbitrary bytes; NameHex is authoritative
	NameHex string
	Config  []Cfg
	Keys    []string // extra keys to extract (besides those derived from the name)
	Sep     int      // which separator joins the terms of the conjunction over all keys (index into conjSeps)
}

// conjSeps are ways of writing a conjunction: juxtaposition with ASCII or Unicode white space, AND.
var conjSeps = []string{" ", " AND ", "\t", "\u3000", "\u2003", "\u00a0", "  ", " \u2028 ", "\u3000AND\u3000"}

func mkCase(name string, cfg []Cfg, keys []string) Case {
	return Case{Name: name, NameHex: fmt.Sprintf("%x", name), Config: cfg, Keys: keys}
}

func (c Case) name() string {
	if c.NameHex == "" {
		return ""
	}
	var b []byte
	fmt.Sscanf(c.NameHex, "%x", &b)
	return string(b)
}

func keyOK(k string) bool {
	// keys are restricted to characters that need no escaping beyond a quoted word; the
	// expressibility of arbitrary strings is C07's business.
	if k == "" {
		return false
	}
	return !strings.ContainsAny(k, "\\\"\n")
}

func Check(c Case) (v vcase.Verdict) {
	name := c.name()
	base, parts := refbench.SplitName(name)
	v.NonTrivial = strings.Contains(name, "/") || (len(parts) > 0 && strings.HasPrefix(parts[len(parts)-1], "-"))
	if len(parts) > 0 && strings.HasPrefix(parts[len(parts)-1], "-") {
		v.Label("gomaxprocs_part")
	}
	if strings.Contains(name, "/gomaxprocs=") {
		v.Label("explicit_gomaxprocs")
	}
	if strings.Contains(name, "//") || strings.HasSuffix(name, "/") {
		v.Label("empty_segment")
	}

	n := benchfmt.Name(name)
	gb, gp := n.Parts()
	if string(gb) != base {
		v.Failf("Parts(%q) base = %q, reference %q", name, gb, base)
		return
	}
	if len(gp) != len(parts) {
		v.Failf("Parts(%q) = %q, reference %q", name, gp, parts)
		return
	}
	recon := append([]byte(nil), gb...)
	for i := range gp {
		if string(gp[i]) != parts[i] {
			v.Failf("Parts(%q) = %q, reference %q", name, gp, parts)
			return
		}
		recon = append(recon, gp[i]...)
	}
	if !bytes.Equal(recon, []byte(name)) {
		v.Failf("base+parts of %q reconstruct %q", name, recon)
		return
	}
	if string(n.Base()) != base {
		v.Failf("Base(%q) = %q but Parts base = %q", name, n.Base(), base)
		return
	}
	if string(n.Full()) != name || n.String() != name {
		v.Failf("Full/String(%q) = %q / %q", name, n.Full(), n.String())
		return
	}

	// the result
	res := &benchfmt.Result{Name: benchfmt.Name(name), Iters: 1, Values: []benchfmt.Value{{Value: 1, Unit: "u"}}}
	cfgRef := map[string]string{}
	for _, kv := range c.Config {
		if _, dup := cfgRef[kv.K]; dup || kv.V == "" || !keyOK(kv.K) || strings.HasPrefix(kv.K, "/") {
			continue
		}
		res.Config = append(res.Config, benchfmt.Config{Key: kv.K, Value: []byte(kv.V), File: kv.File})
		cfgRef[kv.K] = kv.V
	}

	// keys to extract: everything the name offers plus the requested ones
	want := map[string]string{".name": base, ".fullname": name, "/gomaxprocs": refbench.NameKey(name, "gomaxprocs")}
	for _, p := range parts {
		if eq := strings.IndexByte(p, '='); strings.HasPrefix(p, "/") && eq > 1 {
			k := p[1:eq]
			if keyOK(k) {
				want["/"+k] = refbench.NameKey(name, k)
			}
		}
	}
	for _, k := range c.Keys {
		if !keyOK(k) || k == ".config" || k == ".unit" || k == "/" {
			continue
		}
		switch {
		case k == ".name" || k == ".fullname":
		case strings.HasPrefix(k, "."):
			// other dotted keys are plain (internal) configuration keys such as .file
			want[k] = cfgRef[k]
		case strings.HasPrefix(k, "/"):
			want[k] = refbench.NameKey(name, k[1:])
		default:
			want[k] = cfgRef[k]
		}
	}
	for k, val := range cfgRef {
		want[k] = val
	}
	for k, wv := range want {
		v.Sub++
		// projection
		var pp benchproc.ProjectionParser
		proj, err := pp.Parse(strconv.Quote(k), nil)
		if err != nil {
			v.Failf("Parse(%s): %v", strconv.Quote(k), err)
			return
		}
		fs := proj.Fields()
		if len(fs) != 1 || fs[0].Name != k {
			v.Failf("Parse(%s) fields %v", strconv.Quote(k), fs)
			return
		}
		// per-measurement keys first (on a projection that has projected nothing yet), then the
		// key of the whole result: without a .unit field they are all the same key
		pv := proj.ProjectValues(res)
		if len(pv) != len(res.Values) {
			v.Failf("ProjectValues returned %d keys for %d measurements", len(pv), len(res.Values))
			return
		}
		for _, kk := range pv {
			if got := kk.Get(fs[0]); got != wv {
				v.Failf("name %q config %v: projection %q: ProjectValues extracted %q, reference %q", name, cfgRef, k, got, wv)
				return
			}
		}
		key := proj.Project(res)
		if got := key.Get(fs[0]); got != wv {
			v.Failf("name %q config %v: projection %q extracted %q, reference %q", name, cfgRef, k, got, wv)
			return
		}
		if pv[0] != key {
			v.Failf("name %q: projection %q: Project and ProjectValues give different keys for the same result", name, k)
			return
		}
		// the same term written with unquoted words, when key and value need no quoting
		if refexpr.BareOK(k, false) && wv != "" && refexpr.BareOK(wv, true) {
			f, err := benchproc.NewFilter(k + ":" + wv)
			if err != nil {
				v.Failf("NewFilter(%s:%s) (unquoted words): %v", k, wv, err)
				return
			}
			if m, _ := f.Match(res); !m.All() {
				v.Failf("name %q config %v: filter %s:%s (unquoted words) does not match, reference extraction %q", name, cfgRef, k, wv, wv)
				return
			}
			var bp benchproc.ProjectionParser
			proj, err := bp.Parse(k, nil)
			if err != nil || len(proj.Fields()) != 1 || proj.Fields()[0].Name != k {
				v.Failf("Parse(%s) (unquoted word): %v", k, err)
				return
			}
			if !utf8.ValidString(k) || len(k) != len([]rune(k)) {
				v.Label("unquoted_non_ascii_word")
			}
		}
		// a fixed value list on the key keeps exactly the results whose extracted value is listed
		for _, probe := range []struct {
			val  string
			want bool
		}{{wv, true}, {wv + "x", false}} {
			flt, err := benchproc.NewFilter("*")
			if err != nil {
				v.Failf("NewFilter(*): %v", err)
				return
			}
			var fp benchproc.ProjectionParser
			q := strconv.Quote(k) + "@(" + strconv.Quote(probe.val) + " " + strconv.Quote("other\x00value") + ")"
			if _, err := fp.Parse(q, flt); err != nil {
				v.Failf("Parse(%s): %v", q, err)
				return
			}
			m, _ := flt.Match(res)
			if m.All() != probe.want || m.Any() != probe.want {
				v.Failf("name %q config %v: fixed list %s keeps the result = %v, reference extraction of %s is %q", name, cfgRef, q, m.All(), k, wv)
				return
			}
		}
		for _, probe := range []struct {
			val  string
			want bool
		}{{wv, true}, {wv + "x", false}, {"", wv == ""}} {
			f, err := benchproc.NewFilter(strconv.Quote(k) + ":" + strconv.Quote(probe.val))
			if err != nil {
				v.Failf("NewFilter(%s:%s): %v", strconv.Quote(k), strconv.Quote(probe.val), err)
				return
			}
			m, _ := f.Match(res)
			if m.All() != probe.want || m.Any() != probe.want || m.Test(0) != probe.want {
				v.Failf("name %q config %v: filter %s:%s matched=%v, reference extraction %q", name, cfgRef, k, strconv.Quote(probe.val), m.All(), wv)
				return
			}
		}
	}
	// all extractions at once: the conjunction of key:value over every key matches; with one
	// value altered it does not (terms are written quoted, joined in one of several ways)
	{
		var ks []string
		for k := range want {
			ks = append(ks, k)
		}
		sort.Strings(ks)
		sep := conjSeps[((c.Sep%len(conjSeps))+len(conjSeps))%len(conjSeps)]
		conj := func(alter int) string {
			var terms []string
			for i, k := range ks {
				val := want[k]
				if i == alter {
					val += "~"
				}
				terms = append(terms, strconv.Quote(k)+":"+strconv.Quote(val))
			}
			if c.Sep%3 != 0 {
				// a per-measurement term in front: it holds for the one measurement there is
				terms = append([]string{".unit:u"}, terms...)
			}
			return strings.Join(terms, sep)
		}
		for _, alter := range []int{-1, len(ks) - 1, 0, len(ks) / 2} {
			q := conj(alter)
			f, err := benchproc.NewFilter(q)
			if err != nil {
				v.Failf("NewFilter(%s): %v", q, err)
				return
			}
			if m, _ := f.Match(res); m.All() != (alter < 0) {
				v.Failf("name %q config %v: conjunction %s matched=%v, want %v (reference extractions %v)", name, cfgRef, q, m.All(), alter < 0, want)
				return
			}
		}
		if len(ks) >= 3 {
			v.Label("conjunction_over_3+_keys")
		}
		// and as one projection: every field of the key agrees with the reference
		var pp benchproc.ProjectionParser
		var qs []string
		for _, k := range ks {
			if k != ".fullname" { // (next to /keys and .name it is reduced: C08's subject)
				qs = append(qs, strconv.Quote(k))
			}
		}
		psep := []string{",", " ", "\u3000", " , ", "\u2003"}[((c.Sep%5)+5)%5]
		proj, err := pp.Parse(strings.Join(qs, psep), nil)
		if err != nil {
			v.Failf("Parse(%s): %v", strings.Join(qs, psep), err)
			return
		}
		key := proj.Project(res)
		for _, f := range proj.Fields() {
			if got := key.Get(f); got != want[f.Name] {
				v.Failf("name %q config %v: projection %s: field %q = %q, reference %q", name, cfgRef, strings.Join(qs, psep), f.Name, got, want[f.Name])
				return
			}
		}
	}
	// .fullname next to two or three sub-name keys of one expression: each key keeps its own
	// value, and .fullname is the name without exactly the parts of those keys
	{
		var sub []string
		for k := range want {
			if strings.HasPrefix(k, "/") {
				sub = append(sub, k)
			}
		}
		sort.Strings(sub)
		if len(sub) >= 2 {
			rot := ((c.Sep % len(sub)) + len(sub)) % len(sub)
			sub = append(sub[rot:], sub[:rot]...)
			if len(sub) > 3 {
				sub = sub[:3]
			}
			expr := refproj.Expr{{Key: ".fullname"}}
			qs := []string{strconv.Quote(".fullname")}
			if c.Sep%2 == 1 {
				expr, qs = nil, nil
			}
			for _, k := range sub {
				expr = append(expr, refproj.FieldSpec{Key: k})
				qs = append(qs, strconv.Quote(k))
			}
			if c.Sep%2 == 1 {
				expr = append(expr, refproj.FieldSpec{Key: ".fullname"})
				qs = append(qs, strconv.Quote(".fullname"))
			}
			var pp benchproc.ProjectionParser
			proj, err := pp.Parse(strings.Join(qs, ","), nil)
			if err != nil {
				v.Failf("Parse(%s): %v", strings.Join(qs, ","), err)
				return
			}
			key := proj.Project(res)
			wantFull := refproj.NewCtx(expr).RemainderName(name)
			for _, f := range proj.Fields() {
				w := want[f.Name]
				if f.Name == ".fullname" {
					w = wantFull
				}
				if got := key.Get(f); got != w {
					v.Failf("name %q: projection %s: field %q = %q, reference %q", name, strings.Join(qs, ","), f.Name, got, w)
					return
				}
			}
			v.Label("fullname_beside_2+_subname_keys")
		}
	}
	// .fullname next to plain (file configuration) keys in the projections of one
	// parser: plain keys never remove anything from the name, whatever sub-name
	// keys the name happens to contain. (Sub-name keys and .name next to
	// .fullname do — that is C08's subject.)
	var plain []string
	for k := range want {
		if !strings.HasPrefix(k, "/") && k != ".name" && k != ".fullname" {
			plain = append(plain, k)
		}
	}
	sort.Strings(plain)
	if len(plain) > 0 {
		v.Label("fullname_beside_plain_keys")
		for _, k := range plain {
			if strings.Contains(name, "/"+k+"=") || (k == "gomaxprocs" && refbench.NameKey(name, "gomaxprocs") != "") {
				v.Label("plain_key_also_a_subname_key")
			}
		}
		var pp benchproc.ProjectionParser
		var fields []*benchproc.Field
		var keys []benchproc.Key
		if len(name)%2 == 0 {
			// one expression
			q := strconv.Quote(".fullname")
			for _, k := range plain {
				q += "," + strconv.Quote(k)
			}
			proj, err := pp.Parse(q, nil)
			if err != nil {
				v.Failf("Parse(%s): %v", q, err)
				return
			}
			key := proj.Project(res)
			for _, f := range proj.Fields() {
				fields, keys = append(fields, f), append(keys, key)
			}
		} else {
			// separate projections of one parser (as -row / -col / -table are)
			var projs []*benchproc.Projection
			for _, k := range append([]string{".fullname"}, plain...) {
				proj, err := pp.Parse(strconv.Quote(k), nil)
				if err != nil {
					v.Failf("Parse(%s): %v", strconv.Quote(k), err)
					return
				}
				projs = append(projs, proj)
			}
			for _, proj := range projs {
				key := proj.Project(res)
				for _, f := range proj.Fields() {
					fields, keys = append(fields, f), append(keys, key)
				}
			}
		}
		if len(fields) != len(plain)+1 {
			v.Failf("projection of .fullname and %q has %d fields", plain, len(fields))
			return
		}
		for i, f := range fields {
			if got := keys[i].Get(f); got != want[f.Name] {
				v.Failf("name %q config %v: projections .fullname,%s of one parser: field %q = %q, reference %q", name, cfgRef, strings.Join(plain, ","), f.Name, got, want[f.Name])
				return
			}
		}
	}
	// A clone that is edited afterwards: a longer value for the first configured key leaves
	// every other key as it was (each value of a clone stands on its own).
	if len(res.Config) >= 2 {
		cl := res.Clone()
		k0 := res.Config[0].Key
		// (just long enough to reach into the value stored after it, were the two adjacent)
		long := cfgRef[k0] + strings.Repeat("+", len(res.Config[1].Value))
		cl.SetConfig(k0, long)
		v.Label("clone_then_longer_value")
		for k, wv := range cfgRef {
			if k == k0 {
				wv = long
			}
			var pp benchproc.ProjectionParser
			proj, err := pp.Parse(strconv.Quote(k), nil)
			if err != nil {
				v.Failf("Parse(%s): %v", strconv.Quote(k), err)
				return
			}
			if got := proj.Project(cl).Get(proj.Fields()[0]); got != wv {
				v.Failf("name %q config %v: after Clone and SetConfig(%q, longer value) key %q extracts %q, want %q", name, cfgRef, k0, k, got, wv)
				return
			}
			if got := proj.Project(res).Get(proj.Fields()[0]); got != cfgRef[k] {
				v.Failf("name %q config %v: editing the clone changed the original: key %q extracts %q, want %q", name, cfgRef, k, got, cfgRef[k])
				return
			}
		}
	}
	// Two fields through one projection, on this name and on a sibling whose base and
	// sub-name value are cut at another place of the same text (base+v[:1], v[1:]): the two
	// tuples are different although their values concatenate alike.
	for k, wv := range want {
		if !strings.HasPrefix(k, "/") || k == "/gomaxprocs" || len(wv) < 2 || strings.ContainsAny(wv, "/-") || !utf8.ValidString(wv[:1]) || !utf8.ValidString(name) {
			continue
		}
		seg := k + "=" + wv
		if strings.Count(name, seg) != 1 || !strings.HasPrefix(name, base+"/") {
			continue
		}
		sib := base + wv[:1] + strings.Replace(name[len(base):], seg, k+"="+wv[1:], 1)
		sres := &benchfmt.Result{Name: benchfmt.Name(sib), Iters: 1, Values: []benchfmt.Value{{Value: 1, Unit: "u"}}}
		var pp benchproc.ProjectionParser
		proj, err := pp.Parse(".name,"+strconv.Quote(k), nil)
		if err != nil {
			v.Failf("Parse(.name,%s): %v", strconv.Quote(k), err)
			return
		}
		k1, k2 := proj.Project(res), proj.Project(sres)
		fs := proj.Fields()
		v.Label("two_fields_colliding_concatenation")
		if k1 == k2 || k1.Get(fs[0]) != base || k1.Get(fs[1]) != wv || k2.Get(fs[0]) != base+wv[:1] || k2.Get(fs[1]) != wv[1:] {
			v.Failf("projection .name,%s: %q gives (%q,%q) and %q gives (%q,%q), equal keys = %v; want (%q,%q) and (%q,%q), different keys",
				k, name, k1.Get(fs[0]), k1.Get(fs[1]), sib, k2.Get(fs[0]), k2.Get(fs[1]), k1 == k2, base, wv, base+wv[:1], wv[1:])
			return
		}
		break
	}
	// .fullname next to sub-name keys the name does not have: nothing to remove, so it is
	// still the whole name (segments that merely start like "/k" stay).
	var absent []string
	for k, wv := range want {
		if !strings.HasPrefix(k, "/") || wv != "" || k == "/gomaxprocs" {
			continue
		}
		if strings.Contains(name, k+"=") {
			continue // an empty-valued "/k=" segment exists; C08's subject
		}
		absent = append(absent, k)
	}
	sort.Strings(absent)
	if len(absent) > 0 {
		var pp benchproc.ProjectionParser
		fn, err := pp.Parse(".fullname", nil)
		if err != nil {
			v.Failf("Parse(.fullname): %v", err)
			return
		}
		for _, k := range absent {
			if _, err := pp.Parse(strconv.Quote(k), nil); err != nil {
				v.Failf("Parse(%s): %v", strconv.Quote(k), err)
				return
			}
			if strings.Contains(name, k) {
				v.Label("absent_subname_key_is_prefix_of_a_segment")
			}
		}
		if got := fn.Project(res).Get(fn.Fields()[0]); got != name {
			v.Failf("name %q: .fullname projected beside the absent sub-name keys %q = %q, reference the whole name", name, absent, got)
			return
		}
	}
	if name != string(res.Name) {
		v.Failf("result name changed by extraction")
	}
	return
}

// ---------------------------------------------------------------------------

var alpha = []byte{'/', '=', '-', '0', '7', 'a', 'k'}

func TestC05Exhaustive(t *testing.T) {
	maxLen := vcase.Scale(6, 7)
	shard, nsh := vcase.Shard()
	vcase.Enum(t, "C05", "exhaustive", true, func(yield func(Case) bool) {
		idx := 0
		var rec func(prefix []byte) bool
		rec = func(prefix []byte) bool {
			if idx%nsh == shard {
				if !yield(mkCase(string(prefix), []Cfg{{"a", "0", true}}, []string{"/a", "/k", "/7", "/a=", "a", "k", "/kk", "/a7", "/gomaxprocs7"})) {
					return false
				}
			}
			idx++
			if len(prefix) == maxLen {
				return true
			}
			for _, b := range alpha {
				if !rec(append(prefix, b)) {
					return false
				}
			}
			return true
		}
		rec(nil)
	}, Check)
}

func genName(t *rapid.T) string {
	var sb strings.Builder
	word := rapid.OneOf(
		rapid.StringMatching(`[a-zA-Z0-9_]{0,6}`),
		rapid.SampledFrom([]string{"", "é", "日本", "\xff", "\xc3", "8", "-8", "a-b", "=", "k=v", "gomaxprocs", "0", "-", "roma", "Šą", "à"}),
	)
	keyw := rapid.SampledFrom([]string{"k", "size", "gomaxprocs", "a", "é", "", "k2", "7", "gomaxprocs2", "gomaxprocs_limit", "sizeclass", "kk", "città", "ąk"})
	sb.WriteString(word.Draw(t, "base"))
	n := rapid.IntRange(0, 5).Draw(t, "nseg")
	for i := 0; i < n; i++ {
		switch rapid.IntRange(0, 4).Draw(t, "segkind") {
		case 0, 1:
			sb.WriteString("/" + keyw.Draw(t, "k") + "=" + word.Draw(t, "v"))
		case 2:
			sb.WriteString("/" + word.Draw(t, "pos"))
		case 3:
			sb.WriteString("/")
		case 4:
			sb.WriteString("/" + keyw.Draw(t, "k2") + "=" + word.Draw(t, "v2") + "=" + word.Draw(t, "v3"))
		}
	}
	switch rapid.IntRange(0, 6).Draw(t, "tail") {
	case 0, 1:
		sb.WriteString("-" + strconv.Itoa(rapid.IntRange(0, 128).Draw(t, "procs")))
	case 2:
		sb.WriteString("-")
	case 3:
		sb.WriteString(rapid.StringMatching(`[0-9]{1,3}`).Draw(t, "digits"))
	case 4:
		// tails that are digits beyond the range of an int, signed, or digits of another script
		sb.WriteString("-" + rapid.SampledFrom([]string{"18446744073709551616", "99999999999999999999", "9223372036854775808", "+8", "-8", "٣", "1٣", "８", "0x8", "8_0", "1e3"}).Draw(t, "oddtail"))
	}
	return sb.String()
}

func Gen(t *rapid.T) Case {
	name := genName(t)
	var cfg []Cfg
	keyPool := []string{"goos", "a", "k", "pkg", "é", ".file", ".label", "note", "gomaxprocs", "size", "cpu/model", "a/k"}
	n := rapid.IntRange(0, 6).Draw(t, "ncfg")
	for i := 0; i < n; i++ {
		cfg = append(cfg, Cfg{
			K:    rapid.SampledFrom(keyPool).Draw(t, "ck"),
			V:    rapid.OneOf(rapid.StringMatching(`[ -~]{1,8}`), rapid.SampledFrom([]string{"linux", " x ", "é", "\xfe", "1", "a b"})).Draw(t, "cv"),
			File: rapid.Bool().Draw(t, "file"),
		})
	}
	keys := rapid.SliceOfN(rapid.SampledFrom([]string{"/k", "/size", "/a", "/é", "/7", "/k2", "goos", "a", "k", "absent", ".file", ".label", "/gomaxprocs", "gomaxprocs", "/absent", "/gomaxprocs2", "/gomaxprocs_limit", "/gomaxproc", "/sizeclass", "/siz", "/kk", "cpu/model", "a/k", "k/", "/città", "/ąk"}), 0, 6).Draw(t, "keys")
	c := mkCase(name, cfg, keys)
	c.Sep = rapid.IntRange(0, len(conjSeps)-1).Draw(t, "sep")
	return c
}

func TestC05Rapid(t *testing.T) { vcase.Run(t, "C05", "rapid", Gen, Check) }
