// Package c16 (b): NewKeyHeader builds a header tree in which every level
// partitions the keys into maximal runs of equal values nested in their parents.
package c16

import (
	"fmt"
	"strings"
	"testing"

	"golang.org/x/perf/benchfmt"
	"golang.org/x/perf/benchproc"
	"pgregory.net/rapid"
	"verif/harness/lib/vcase"
)

type Case struct {
	Fields []string   // projection fields (config keys, possibly ".config")
	Rows   [][]string // one value per key field per result ("" = missing)
	Sort   bool       // sort the keys with SortKeys first
}

var keyPool = []string{"a", "b", "c", "d"}

func Check(c Case) (v vcase.Verdict) {
	if len(c.Fields) == 0 || len(c.Rows) == 0 {
		return
	}
	var pp benchproc.ProjectionParser
	proj, err := pp.Parse(strings.Join(c.Fields, ","), nil)
	if err != nil {
		v.Failf("Parse: %v", err)
		return
	}
	var keys []benchproc.Key
	seen := map[benchproc.Key]bool{}
	for _, row := range c.Rows {
		res := &benchfmt.Result{Name: benchfmt.Name("X"), Iters: 1, Values: []benchfmt.Value{{Value: 1, Unit: "u"}}}
		for i, val := range row {
			if i < len(keyPool) && val != "" {
				res.Config = append(res.Config, benchfmt.Config{Key: keyPool[i], Value: []byte(val), File: true})
			}
		}
		k := proj.Project(res)
		if !seen[k] {
			seen[k] = true
			keys = append(keys, k)
		}
	}
	if c.Sort {
		benchproc.SortKeys(keys)
		v.Label("sorted")
	}
	h := benchproc.NewKeyHeader(keys)
	flat := proj.FlattenedFields()
	n := len(keys)
	if len(h.Keys) != n {
		v.Failf("header has %d keys, want %d", len(h.Keys), n)
		return
	}
	if len(h.Levels) != len(flat) {
		v.Failf("header has %d levels, projection has %d flattened fields", len(h.Levels), len(flat))
		return
	}
	fail := func(format string, a ...interface{}) {
		var ks []string
		for _, k := range keys {
			ks = append(ks, k.String())
		}
		v.Failf(format+"\nfields %v keys %q", append(a, c.Fields, ks)...)
	}
	depth := 0
	var walk func(nodes []*benchproc.KeyHeaderNode, start, length, level int) bool
	walk = func(nodes []*benchproc.KeyHeaderNode, start, length, level int) bool {
		if level == len(flat) {
			if len(nodes) != 0 {
				fail("node below the last level")
				return false
			}
			return true
		}
		if level+1 > depth {
			depth = level + 1
		}
		pos := start
		for i, nd := range nodes {
			v.Sub++
			if nd.Field != level {
				fail("node at level %d has Field %d", level, nd.Field)
				return false
			}
			if nd.Start != pos || nd.Len < 1 {
				fail("level %d: node %d covers [%d,%d) but the previous one ended at %d: not a partition into contiguous runs", level, i, nd.Start, nd.Start+nd.Len, pos)
				return false
			}
			for j := nd.Start; j < nd.Start+nd.Len; j++ {
				if j >= n {
					fail("node reaches beyond the keys")
					return false
				}
				if got := keys[j].Get(flat[level]); got != nd.Value {
					fail("level %d: node value %q but key %d has %s=%q", level, nd.Value, j, flat[level].Name, got)
					return false
				}
			}
			if i > 0 && nodes[i-1].Value == nd.Value {
				fail("level %d: adjacent sibling nodes %d and %d both have value %q (runs not maximal)", level, i-1, i, nd.Value)
				return false
			}
			if !walk(nd.Children, nd.Start, nd.Len, level+1) {
				return false
			}
			pos += nd.Len
		}
		if pos != start+length {
			fail("level %d: nodes cover [%d,%d), parent covers [%d,%d)", level, start, pos, start, start+length)
			return false
		}
		return true
	}
	if !walk(h.Top, 0, n, 0) {
		return
	}
	if depth != len(flat) {
		fail("header depth %d, want %d", depth, len(flat))
		return
	}
	// a child run never crosses a parent boundary even when the values agree
	if len(flat) >= 2 {
		for i := 1; i < n; i++ {
			if keys[i].Get(flat[0]) != keys[i-1].Get(flat[0]) && keys[i].Get(flat[1]) == keys[i-1].Get(flat[1]) {
				v.Label("equal_child_values_under_different_parents")
			}
		}
	}
	v.NonTrivial = n >= 3 && len(flat) >= 2
	if false {
		fmt.Println()
	}
	return
}

func Gen(t *rapid.T) Case {
	var c Case
	nf := rapid.IntRange(1, 4).Draw(t, "nf")
	if vcase.OneIn(t, 5, "config") {
		c.Fields = []string{".config"}
	} else {
		c.Fields = append(c.Fields, keyPool[:nf]...)
	}
	nr := rapid.IntRange(1, 20).Draw(t, "nr")
	for i := 0; i < nr; i++ {
		row := make([]string, len(keyPool))
		for j := range row {
			row[j] = rapid.SampledFrom([]string{"x", "y", "", "z"}).Draw(t, "v")
		}
		c.Rows = append(c.Rows, row)
	}
	c.Sort = rapid.IntRange(0, 3).Draw(t, "sort") != 0
	return c
}

func TestC16KeyHeader(t *testing.T) { vcase.Run(t, "C16", "keyheader", Gen, Check) }
