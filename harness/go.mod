module verif/harness

go 1.23.0

require (
	golang.org/x/perf v0.0.0
	pgregory.net/rapid v1.3.0
)

require (
	git.sr.ht/~sbinet/gg v0.3.1 // indirect
	github.com/aclements/go-moremath v0.0.0-20210112150236-f10218a38794 // indirect
	github.com/ajstarks/svgo v0.0.0-20211024235047-1546f124cd8b // indirect
	github.com/go-fonts/liberation v0.2.0 // indirect
	github.com/go-latex/latex v0.0.0-20210823091927-c0d11ff05a81 // indirect
	github.com/go-pdf/fpdf v0.6.0 // indirect
	github.com/golang/freetype v0.0.0-20170609003504-e2365dfdc4a0 // indirect
	github.com/google/safehtml v0.0.2 // indirect
	github.com/mattn/go-sqlite3 v1.14.14 // indirect
	golang.org/x/image v0.26.0 // indirect
	golang.org/x/net v0.39.0 // indirect
	golang.org/x/text v0.24.0 // indirect
	gonum.org/v1/plot v0.10.1 // indirect
)

replace golang.org/x/perf => /repo
