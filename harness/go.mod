module verif/harness

go 1.23.0

require (
	golang.org/x/perf v0.0.0
	pgregory.net/rapid v1.3.0
)

require github.com/aclements/go-moremath v0.0.0-20210112150236-f10218a38794 // indirect

replace golang.org/x/perf => /repo
