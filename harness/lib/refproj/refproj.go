// Package refproj is an independent reference for benchproc projections as
// documented in "go doc golang.org/x/perf/benchproc/syntax": extraction of
// field tuples from results, group exclusions (.config/.fullname minus every
// individually projected key of the same parser), residue, and the documented
// per-field sort orders. It imports nothing from golang/perf.
package refproj

import (
	"fmt"
	"math"
	"math/big"
	"regexp"
	"sort"
	"strconv"
	"strings"

	"verif/harness/lib/refbench"
)

// FieldSpec is one field of a projection expression.
type FieldSpec struct {
	Key   string
	Order string   `json:",omitempty"` // "" (first observation), "alpha", "num", "fixed"
	Fixed []string `json:",omitempty"`
}

// Expr is a projection expression.
type Expr []FieldSpec

// Text renders the expression in concrete syntax.
func (e Expr) Text() string {
	var parts []string
	for _, f := range e {
		s := quoteIfNeeded(f.Key)
		switch f.Order {
		case "alpha", "num":
			s += "@" + f.Order
		case "fixed":
			var ws []string
			for _, w := range f.Fixed {
				ws = append(ws, strconv.Quote(w))
			}
			s += "@(" + strings.Join(ws, " ") + ")"
		}
		parts = append(parts, s)
	}
	return strings.Join(parts, ",")
}

func quoteIfNeeded(s string) string {
	if s == "" || strings.ContainsAny(s, " \t():@,\"\\") || s[0] == '-' || s[0] == '*' {
		return strconv.Quote(s)
	}
	return s
}

// Result is the view of a benchmark result projections can see.
type Result struct {
	Name     string
	FileCfg  map[string]string // file configuration (non-empty values)
	Internal map[string]string // tool-supplied configuration, e.g. .file
}

// Ctx holds what a group of expressions parsed by one parser share.
type Ctx struct {
	Exprs     []Expr
	PlainKeys map[string]bool
	NameKeys  []string
	HasConfig bool
	HasFull   bool
}

func NewCtx(exprs ...Expr) *Ctx {
	c := &Ctx{Exprs: exprs, PlainKeys: map[string]bool{}}
	for _, e := range exprs {
		for _, f := range e {
			switch {
			case f.Key == ".config":
				c.HasConfig = true
			case f.Key == ".fullname":
				c.HasFull = true
			case f.Key == ".name" || strings.HasPrefix(f.Key, "/"):
				c.NameKeys = append(c.NameKeys, f.Key)
			default:
				c.PlainKeys[f.Key] = true
			}
		}
	}
	return c
}

// Extract returns the value of a specific key.
func (c *Ctx) Extract(r *Result, key string) string {
	switch {
	case key == ".name":
		b, _ := refbench.SplitName(r.Name)
		return b
	case strings.HasPrefix(key, "/"):
		return refbench.NameKey(r.Name, key[1:])
	}
	if v, ok := r.FileCfg[key]; ok {
		return v
	}
	return r.Internal[key]
}

// RemainderName is the name without every individually projected name key.
func (c *Ctx) RemainderName(name string) string {
	base, parts := refbench.SplitName(name)
	out := base
	exG := false
	for _, k := range c.NameKeys {
		if k == ".name" {
			out = "*"
		}
		if k == "/gomaxprocs" {
			exG = true
		}
	}
parts:
	for _, p := range parts {
		for _, k := range c.NameKeys {
			if strings.HasPrefix(k, "/") && strings.HasPrefix(p, k+"=") {
				continue parts
			}
		}
		if exG && strings.HasPrefix(p, "-") {
			continue
		}
		out += p
	}
	return out
}

// RemainderConfig is the file configuration without individually projected keys.
func (c *Ctx) RemainderConfig(r *Result) map[string]string {
	m := map[string]string{}
	for k, v := range r.FileCfg {
		if !c.PlainKeys[k] && v != "" {
			m[k] = v
		}
	}
	return m
}

// Tuple is the projected tuple of an expression: values of named fields in
// expression order; a .config group contributes a map.
type Tuple struct {
	Vals   []string          // one per non-group field, expression order
	Names  []string          // field names parallel to Vals
	Config map[string]string // remainder config if the expression has .config, else nil
}

func (c *Ctx) Tuple(e Expr, r *Result) Tuple {
	var t Tuple
	for _, f := range e {
		switch f.Key {
		case ".config":
			t.Config = c.RemainderConfig(r)
		case ".fullname":
			t.Names = append(t.Names, f.Key)
			t.Vals = append(t.Vals, c.RemainderName(r.Name))
		default:
			t.Names = append(t.Names, f.Key)
			t.Vals = append(t.Vals, c.Extract(r, f.Key))
		}
	}
	return t
}

// Canon is a canonical string for map keys.
func (t Tuple) Canon() string {
	var sb strings.Builder
	for i, v := range t.Vals {
		fmt.Fprintf(&sb, "%s=%q|", t.Names[i], v)
	}
	if t.Config != nil {
		sb.WriteString("{" + CanonMap(t.Config) + "}")
	}
	return sb.String()
}

// FieldMap returns every non-empty field of the tuple by name (.config
// sub-fields by their key).
func (t Tuple) FieldMap() map[string]string {
	m := map[string]string{}
	for i, v := range t.Vals {
		if v != "" {
			m[t.Names[i]] = v
		}
	}
	for k, v := range t.Config {
		if v != "" {
			m[k] = v
		}
	}
	return m
}

// Label is Key.StringValues(): the non-empty values joined by blanks (only
// defined here for expressions without .config).
func (t Tuple) Label() string {
	var vs []string
	for _, v := range t.Vals {
		if v != "" {
			vs = append(vs, v)
		}
	}
	return strings.Join(vs, " ")
}

func CanonMap(m map[string]string) string {
	var ks []string
	for k := range m {
		ks = append(ks, k)
	}
	sort.Strings(ks)
	var sb strings.Builder
	for _, k := range ks {
		fmt.Fprintf(&sb, "%q=%q;", k, m[k])
	}
	return sb.String()
}

// ResidueDiff returns the names of residue fields on which the results
// differ: file-configuration keys not individually projected (if no
// expression has .config) and ".fullname" (if no expression has it).
func (c *Ctx) ResidueDiff(rs []*Result) []string {
	var out []string
	if !c.HasConfig {
		keys := map[string]bool{}
		for _, r := range rs {
			for k := range c.RemainderConfig(r) {
				keys[k] = true
			}
		}
		for k := range keys {
			first := c.RemainderConfig(rs[0])[k]
			for _, r := range rs[1:] {
				if c.RemainderConfig(r)[k] != first {
					out = append(out, k)
					break
				}
			}
		}
	}
	if !c.HasFull {
		first := c.RemainderName(rs[0].Name)
		for _, r := range rs[1:] {
			if c.RemainderName(r.Name) != first {
				out = append(out, ".fullname")
				break
			}
		}
	}
	sort.Strings(out)
	return out
}

// ---------------------------------------------------------------------------
// orders

var sufRe = regexp.MustCompile(`^([0-9]+(?:\.[0-9]*)?|\.[0-9]+)([kKMGTPEZY]i?)?[bB]?$`)
// a text without any digit is not a number (the spellings of infinity and NaN are recognised before)
var wordRe = regexp.MustCompile(`^[^0-9]+$`)

func numClass(s string) (class int, val *big.Rat, nan bool, inf int) {
	if f, err := strconv.ParseFloat(s, 64); err == nil {
		switch {
		case math.IsNaN(f):
			return 1, nil, true, 0
		case math.IsInf(f, 1):
			return 1, nil, false, 1
		case math.IsInf(f, -1):
			return 1, nil, false, -1
		}
		return 1, new(big.Rat).SetFloat64(f), false, 0
	}
	if m := sufRe.FindStringSubmatch(s); m != nil {
		r, ok := new(big.Rat).SetString(m[1])
		if !ok {
			return 0, nil, false, 0
		}
		if m[2] != "" {
			exp := 1 + strings.IndexByte("KMGTPEZY", strings.ToUpper(m[2][:1])[0])
			base := int64(1000)
			if strings.HasSuffix(m[2], "i") {
				base = 1024
			}
			r.Mul(r, new(big.Rat).SetInt(new(big.Int).Exp(big.NewInt(base), big.NewInt(int64(exp)), nil)))
		}
		return 1, r, false, 0
	}
	if s != "" && wordRe.MatchString(s) {
		return 2, nil, false, 0
	}
	return 0, nil, false, 0
}

// NumCmp: -1/+1 when the documented numeric order strictly orders a, b; 0
// when it imposes nothing.
func NumCmp(a, b string) int {
	ca, va, nana, infa := numClass(a)
	cb, vb, nanb, infb := numClass(b)
	if ca == 0 || cb == 0 {
		return 0
	}
	if ca != cb {
		if ca == 1 {
			return -1
		}
		return 1
	}
	if ca == 2 {
		return 0
	}
	switch {
	case nana && nanb:
		return 0
	case nana:
		return 1
	case nanb:
		return -1
	}
	if infa != 0 || infb != 0 {
		switch {
		case infa == infb:
			return 0
		case infa < infb:
			return -1
		}
		return 1
	}
	d := new(big.Rat).Sub(va, vb)
	mag := new(big.Rat).Abs(va)
	if m2 := new(big.Rat).Abs(vb); m2.Cmp(mag) > 0 {
		mag = m2
	}
	if new(big.Rat).Abs(d).Cmp(new(big.Rat).Mul(mag, big.NewRat(1, 1000000000))) <= 0 {
		return 0
	}
	return d.Sign()
}

// Ranks tracks first-observation order per field name.
type Ranks map[string]map[string]int

// Observe records the values of one projected result. Missing values of
// .config sub-keys are not observations; other fields observe "" too.
func (rk Ranks) Observe(t Tuple) {
	for i, v := range t.Vals {
		rk.obs(t.Names[i], v)
	}
	for k, v := range t.Config {
		if v != "" {
			rk.obs(k, v)
		}
	}
}

func (rk Ranks) obs(field, v string) {
	m := rk[field]
	if m == nil {
		m = map[string]int{}
		rk[field] = m
	}
	if _, ok := m[v]; !ok {
		m[v] = len(m)
	}
}

// Cmp compares two tuples of expression e: -1/+1 when the documented order
// is strict, 0 when nothing is imposed (or the tuples are equal).
// configOrder lists the .config sub-keys in creation order (needed because
// the lexicographic order runs over flattened fields).
func Cmp(e Expr, rk Ranks, configOrder []string, a, b Tuple) int {
	vi := 0
	for _, f := range e {
		if f.Key == ".config" {
			for _, k := range configOrder {
				x, y := a.Config[k], b.Config[k]
				if x == y {
					continue
				}
				switch f.Order {
				case "alpha":
					return strings.Compare(x, y)
				case "num":
					return NumCmp(x, y)
				default:
					rx, okx := rk[k][x]
					ry, oky := rk[k][y]
					if x == "" || y == "" || !okx || !oky {
						return 0
					}
					if rx < ry {
						return -1
					}
					return 1
				}
			}
			continue
		}
		x, y := a.Vals[vi], b.Vals[vi]
		vi++
		if x == y {
			continue
		}
		switch f.Order {
		case "alpha":
			return strings.Compare(x, y)
		case "num":
			return NumCmp(x, y)
		case "fixed":
			px, py, nx, ny := -1, -1, 0, 0
			for i, w := range f.Fixed {
				if w == x {
					px, nx = i, nx+1
				}
				if w == y {
					py, ny = i, ny+1
				}
			}
			if nx != 1 || ny != 1 {
				return 0
			}
			if px < py {
				return -1
			}
			return 1
		default:
			rx, okx := rk[f.Key][x]
			ry, oky := rk[f.Key][y]
			if !okx || !oky {
				return 0
			}
			if rx < ry {
				return -1
			}
			return 1
		}
	}
	return 0
}

// SortDefined sorts the tuples by Cmp and reports whether every adjacent
// pair (hence, by transitivity of a total order, every pair) is strictly
// ordered by the documented order. If not, the order is only partly defined
// and callers must not rely on it.
func SortDefined(e Expr, rk Ranks, configOrder []string, ts []Tuple) (sorted []Tuple, defined bool) {
	sorted = append([]Tuple(nil), ts...)
	defined = true
	for i := range sorted {
		for j := i + 1; j < len(sorted); j++ {
			if Cmp(e, rk, configOrder, sorted[i], sorted[j]) == 0 {
				defined = false
			}
		}
	}
	if !defined {
		return sorted, false
	}
	sort.SliceStable(sorted, func(i, j int) bool { return Cmp(e, rk, configOrder, sorted[i], sorted[j]) < 0 })
	return sorted, true
}
