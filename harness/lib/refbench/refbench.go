// Package refbench is an independent, deliberately naive reference model of
// the Go benchmark format (https://golang.org/design/14313-benchmark-format)
// as documented by package benchfmt: line classification, configuration
// scoping, unit metadata, unit normalisation and benchmark-name decomposition.
// It is written on strings with the standard library only and shares no code
// with golang/perf.
package refbench

import (
	"math"
	"math/big"
	"regexp"
	"strconv"
	"strings"
	"unicode"
	"unicode/utf8"
)

// ---------------------------------------------------------------------------
// units

// UnitTok is one component of a unit.
type UnitTok struct {
	Tok   string
	Pos   int
	Denom bool
}

func isUnitSep(r rune) bool { return r == '*' || r == '/' || r == '-' || unicode.IsSpace(r) }

// UnitTokens splits a unit into components. '/' moves to the denominator,
// '*' back to the numerator, '-' and white space keep the side.
func UnitTokens(unit string) []UnitTok {
	var toks []UnitTok
	denom := false
	start := -1
	flush := func(end int) {
		if start >= 0 {
			toks = append(toks, UnitTok{unit[start:end], start, denom})
			start = -1
		}
	}
	for i, r := range unit {
		if isUnitSep(r) {
			flush(i)
			switch r {
			case '*':
				denom = false
			case '/':
				denom = true
			}
			continue
		}
		if start < 0 {
			start = i
		}
	}
	flush(len(unit))
	return toks
}

// TidyUnit returns the base unit of unit, and the decimal exponent e such
// that a value v in unit equals v·10^e in the base unit, and the number of
// rewritten components.
func TidyUnit(unit string) (base string, exp10 int, n int) {
	toks := UnitTokens(unit)
	var b strings.Builder
	prev := 0
	for _, t := range toks {
		if t.Denom {
			continue
		}
		var repl string
		switch t.Tok {
		case "ns":
			repl = "sec"
			exp10 -= 9
		case "MB":
			repl = "B"
			exp10 += 6
		default:
			continue
		}
		n++
		b.WriteString(unit[prev:t.Pos])
		b.WriteString(repl)
		prev = t.Pos + len(t.Tok)
	}
	b.WriteString(unit[prev:])
	return b.String(), exp10, n
}

// ScaleExact returns v·10^exp10 rounded once to float64 (the ideal result of
// normalisation), computed with big.Float. NaN, Inf and 0 map to themselves.
func ScaleExact(v float64, exp10 int) float64 {
	if exp10 == 0 || v == 0 || math.IsNaN(v) || math.IsInf(v, 0) {
		return v
	}
	x := new(big.Float).SetPrec(400).SetFloat64(v)
	p := new(big.Float).SetPrec(400).SetInt(new(big.Int).Exp(big.NewInt(10), big.NewInt(int64(abs(exp10))), nil))
	if exp10 > 0 {
		x.Mul(x, p)
	} else {
		x.Quo(x, p)
	}
	f, _ := x.Float64()
	return f
}

func abs(x int) int {
	if x < 0 {
		return -x
	}
	return x
}

// UlpDiff returns the distance between a and b in units in the last place
// (0 for identical bits or two NaNs; a huge number for mismatched specials).
func UlpDiff(a, b float64) uint64 {
	if math.IsNaN(a) || math.IsNaN(b) {
		if math.IsNaN(a) && math.IsNaN(b) {
			return 0
		}
		return math.MaxUint64
	}
	if a == b {
		if a == 0 && math.Signbit(a) != math.Signbit(b) {
			return 1
		}
		return 0
	}
	if math.IsInf(a, 0) || math.IsInf(b, 0) {
		// an overflow by rounding at the very edge is within tolerance only if the other is MaxFloat64
		if math.Abs(a) >= math.MaxFloat64 && math.Abs(b) >= math.MaxFloat64 && (a > 0) == (b > 0) {
			return 1
		}
		return math.MaxUint64
	}
	ord := func(f float64) int64 {
		b := int64(math.Float64bits(f))
		if b < 0 {
			b = math.MinInt64 - b
		}
		return b
	}
	x, y := ord(a), ord(b)
	if x > y {
		x, y = y, x
	}
	return uint64(y - x)
}

// ---------------------------------------------------------------------------
// names

// SplitName decomposes a benchmark name: base, the '/'-introduced parts, and
// the optional trailing "-N" part (returned as the last element of parts).
func SplitName(name string) (base string, parts []string) {
	// trailing run of ASCII digits
	i := len(name)
	for i > 0 && name[i-1] >= '0' && name[i-1] <= '9' {
		i--
	}
	gmp := ""
	rest := name
	if i < len(name) && i > 0 && name[i-1] == '-' {
		gmp = name[i-1:]
		rest = name[:i-1]
	}
	segs := strings.Split(rest, "/")
	base = segs[0]
	for _, s := range segs[1:] {
		parts = append(parts, "/"+s)
	}
	if gmp != "" {
		parts = append(parts, gmp)
	}
	return
}

// NameKey returns the value of sub-name key k ("/k") for name: the text after
// "/k=" in the first part with that prefix; for k == "gomaxprocs" the
// trailing -N wins (without the dash), then an explicit /gomaxprocs= part.
func NameKey(name, k string) string {
	_, parts := SplitName(name)
	if k == "gomaxprocs" && len(parts) > 0 {
		last := parts[len(parts)-1]
		if strings.HasPrefix(last, "-") {
			return last[1:]
		}
	}
	pre := "/" + k + "="
	for _, p := range parts {
		if strings.HasPrefix(p, pre) {
			return p[len(pre):]
		}
	}
	return ""
}

// ---------------------------------------------------------------------------
// reader

type Value struct {
	Value     float64
	Unit      string
	OrigValue float64
	OrigUnit  string // "" when the unit needed no normalisation
}

// Written returns the (value, unit) pair as written in the input.
func (v Value) Written() (float64, string) {
	if v.OrigUnit != "" {
		return v.OrigValue, v.OrigUnit
	}
	return v.Value, v.Unit
}

type Result struct {
	Name   string
	Iters  int
	Values []Value
	Config map[string]string // file configuration in effect
	// ConfigOrder lists the file configuration keys in the documented slice
	// order of Result.Config: new keys are appended; deleting a key moves the
	// last key into its place.
	ConfigOrder []string
	// Touched lists the keys that a configuration line of this input has set or
	// removed before this result: a label supplied by the tool under such a key
	// is no longer in effect (the file's word counts, also when it removes the key).
	Touched map[string]bool
}

type UnitMeta struct {
	Unit     string // base unit
	OrigUnit string
	Key      string
	Value    string
}

// Record is one expected record.
type Record struct {
	Kind   string // "result", "unit", "error"
	Line   int
	Result *Result
	Unit   *UnitMeta
}

// Units is the unit metadata accumulated across files.
type Units map[[2]string]*UnitMeta

// Lines splits text like bufio.ScanLines: at '\n', one trailing '\r'
// dropped per line, no empty final line.
func Lines(text string) []string {
	if text == "" {
		return nil
	}
	ls := strings.Split(text, "\n")
	if ls[len(ls)-1] == "" {
		ls = ls[:len(ls)-1]
	}
	for i, l := range ls {
		ls[i] = strings.TrimSuffix(l, "\r")
	}
	return ls
}

func fields(s string) []string { return strings.FieldsFunc(s, unicode.IsSpace) }

// ConfigLine classifies line as a configuration line.
func ConfigLine(line string) (key, val string, ok bool) {
	idx := strings.IndexByte(line, ':')
	if idx <= 0 {
		return
	}
	key = line[:idx]
	first := true
	for _, r := range key { // invalid bytes decode as U+FFFD: neither lower, upper nor space
		if first {
			if !unicode.IsLower(r) {
				return "", "", false
			}
			first = false
		}
		if unicode.IsSpace(r) || unicode.IsUpper(r) {
			return "", "", false
		}
	}
	rest := line[idx+1:]
	if rest == "" {
		return key, "", true
	}
	if rest[0] != ' ' && rest[0] != '\t' {
		return "", "", false
	}
	return key, strings.TrimLeft(rest, " \t"), true
}

// Read interprets text line by line. units carries unit metadata across
// files (pass the same map for every file of a sequence).
func Read(text string, units Units) []Record {
	var out []Record
	cfg := map[string]string{}
	touched := map[string]bool{}
	var order []string
	for i, line := range Lines(text) {
		ln := i + 1
		switch {
		case strings.HasPrefix(line, "Benchmark"):
			rest := line[len("Benchmark"):]
			// name alone, nothing (not even white space) after it: ignored
			if firstSpace(rest) < 0 {
				continue
			}
			res, ok := benchLine(rest)
			if !ok {
				out = append(out, Record{Kind: "error", Line: ln})
				continue
			}
			res.Config = map[string]string{}
			for k, v := range cfg {
				res.Config[k] = v
			}
			res.ConfigOrder = append([]string(nil), order...)
			res.Touched = map[string]bool{}
			for k := range touched {
				res.Touched[k] = true
			}
			out = append(out, Record{Kind: "result", Line: ln, Result: res})
		case strings.HasPrefix(line, "U") && len(fields(line)) > 0 && fields(line)[0] == "Unit":
			fs := fields(line)[1:]
			if len(fs) == 0 {
				out = append(out, Record{Kind: "error", Line: ln})
				continue
			}
			orig := fs[0]
			base, _, _ := TidyUnit(orig)
			for _, kv := range fs[1:] {
				eq := strings.IndexByte(kv, '=')
				if eq <= 0 {
					out = append(out, Record{Kind: "error", Line: ln})
					continue
				}
				k, v := kv[:eq], kv[eq+1:]
				if have, ok := units[[2]string{base, k}]; ok {
					if have.Value != v {
						out = append(out, Record{Kind: "error", Line: ln})
					}
					continue
				}
				um := &UnitMeta{Unit: base, OrigUnit: orig, Key: k, Value: v}
				units[[2]string{base, k}] = um
				out = append(out, Record{Kind: "unit", Line: ln, Unit: um})
			}
		default:
			if k, v, ok := ConfigLine(line); ok {
				touched[k] = true
				if v == "" {
					if _, ok := cfg[k]; ok {
						delete(cfg, k)
						for i, o := range order {
							if o == k {
								order[i] = order[len(order)-1]
								order = order[:len(order)-1]
								break
							}
						}
					}
				} else {
					if _, ok := cfg[k]; !ok {
						order = append(order, k)
					}
					cfg[k] = v
				}
			}
		}
	}
	return out
}

func firstSpace(s string) int {
	for i, r := range s {
		if unicode.IsSpace(r) {
			return i
		}
	}
	return -1
}

func benchLine(rest string) (*Result, bool) {
	sp := firstSpace(rest)
	name := rest[:sp]
	fs := fields(rest[sp:])
	if len(fs) == 0 {
		return nil, false // missing iteration count
	}
	it, err := strconv.Atoi(fs[0])
	if err != nil {
		return nil, false
	}
	fs = fs[1:]
	if len(fs) == 0 || len(fs)%2 != 0 {
		// no measurements, or a value without unit. (A bad float before
		// the dangling field is an error too, so parity suffices.)
		return nil, false
	}
	res := &Result{Name: name, Iters: it}
	for i := 0; i < len(fs); i += 2 {
		f, err := strconv.ParseFloat(fs[i], 64)
		if err != nil {
			return nil, false
		}
		if bf, ok := longDecimal(fs[i]); ok {
			f = bf // (strconv decided validity; see longDecimal for the value)
		}
		res.Values = append(res.Values, MakeValue(f, fs[i+1]))
	}
	return res, true
}

// MakeValue normalises a written measurement.
func MakeValue(f float64, unit string) Value {
	base, e, n := TidyUnit(unit)
	if n == 0 {
		return Value{Value: f, Unit: unit}
	}
	return Value{Value: ScaleExact(f, e), Unit: base, OrigValue: f, OrigUnit: unit}
}

// FileLabels returns the .file label for each path, as documented for
// benchfmt.Files.
func FileLabels(paths []string, allowLabels bool) (labels, real []string) {
	count := map[string]int{}
	labeled := make([]bool, len(paths))
	labels = make([]string, len(paths))
	real = make([]string, len(paths))
	for i, p := range paths {
		if eq := strings.Index(p, "="); allowLabels && eq >= 0 {
			labels[i], real[i], labeled[i] = p[:eq], p[eq+1:], true
		} else {
			labels[i], real[i] = p, p
			count[p]++
		}
	}
	seen := map[string]int{}
	for i := range paths {
		if labeled[i] || count[real[i]] == 1 {
			continue
		}
		labels[i] = real[i] + "#" + strconv.Itoa(seen[real[i]])
		seen[real[i]]++
	}
	return
}

// ValidUTF8 is re-exported for generators.
func ValidUTF8(s string) bool { return utf8.ValidString(s) }

var longDecRe = regexp.MustCompile(`^[+-]?([0-9]*)\.?([0-9]*)(?:[eE]([+-]?[0-9]{1,5}))?$`)

// longDecimal returns the correctly rounded value of a plain decimal text with more than 700
// digits, computed with big.Rat: strconv.ParseFloat itself drops integer digits beyond the
// 800th without moving the decimal point (the defect repaired in /repo as C03-a), so it cannot
// be the reference for such texts. ok is false for shorter or other texts and for values that
// overflow (strconv's answer stands there).
func longDecimal(txt string) (val float64, ok bool) {
	txt = strings.ReplaceAll(txt, "_", "")
	m := longDecRe.FindStringSubmatch(txt)
	if m == nil || len(m[1])+len(m[2]) <= 700 {
		return 0, false
	}
	if m[3] != "" {
		if e, err := strconv.Atoi(m[3]); err != nil || e > 3000 || e < -3000 {
			return 0, false
		}
	}
	r, good := new(big.Rat).SetString(txt)
	if !good {
		return 0, false
	}
	f, _ := r.Float64()
	if math.IsInf(f, 0) {
		return 0, false
	}
	if f == 0 && strings.HasPrefix(txt, "-") {
		f = math.Copysign(0, -1)
	}
	return f, true
}
