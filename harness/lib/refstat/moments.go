package refstat

import (
	"math"
	"math/big"
	"sort"
)

// Prec is the mantissa size of every big.Float produced by this package.
const Prec = 256

// Eps is the float64 unit round-off 2^-53.
const Eps = 1.0 / (1 << 53)

// Rat converts a finite float64 exactly.
func Rat(x float64) *big.Rat {
	r := new(big.Rat)
	if r.SetFloat64(x) == nil {
		panic("refstat: non-finite value")
	}
	return r
}

func ratInt(n int) *big.Rat { return new(big.Rat).SetInt64(int64(n)) }

// F64 rounds a rational to the nearest float64 (±Inf on overflow).
func F64(r *big.Rat) float64 { f, _ := r.Float64(); return f }

// Float converts a rational to a Prec-bit big.Float.
func Float(r *big.Rat) *big.Float { return new(big.Float).SetPrec(Prec).SetRat(r) }

// BF64 rounds a big.Float to float64.
func BF64(f *big.Float) float64 { v, _ := f.Float64(); return v }

// SumRat is the exact sum.
func SumRat(xs []float64) *big.Rat {
	s := new(big.Rat)
	for _, x := range xs {
		s.Add(s, Rat(x))
	}
	return s
}

// MeanRat is the exact arithmetic mean Σx/n (n ≥ 1).
func MeanRat(xs []float64) *big.Rat {
	return new(big.Rat).Quo(SumRat(xs), ratInt(len(xs)))
}

// WeightedMeanRat is Σw·x / Σw exactly (Σw must be non-zero).
func WeightedMeanRat(xs, ws []float64) *big.Rat {
	num, den := new(big.Rat), new(big.Rat)
	for i, x := range xs {
		w := Rat(ws[i])
		den.Add(den, w)
		num.Add(num, w.Mul(w, Rat(x)))
	}
	return num.Quo(num, den)
}

// VarianceRat is the exact unbiased sample variance Σ(x−x̄)²/(n−1); 0 for
// n = 1 (the convention of the code under test).
func VarianceRat(xs []float64) *big.Rat {
	n := len(xs)
	if n <= 1 {
		return new(big.Rat)
	}
	// Σ(x−x̄)² = Σx² − (Σx)²/n, exact in rationals.
	s, q := new(big.Rat), new(big.Rat)
	for _, x := range xs {
		r := Rat(x)
		s.Add(s, r)
		q.Add(q, new(big.Rat).Mul(r, r))
	}
	s.Mul(s, s).Quo(s, ratInt(n))
	q.Sub(q, s)
	return q.Quo(q, ratInt(n-1))
}

// SqrtRat is √r to Prec bits (r ≥ 0).
func SqrtRat(r *big.Rat) *big.Float {
	f := Float(r)
	if f.Sign() == 0 {
		return f
	}
	return new(big.Float).SetPrec(Prec).Sqrt(f)
}

// MinMax returns the extreme values.
func MinMax(xs []float64) (lo, hi float64) {
	lo, hi = math.Inf(1), math.Inf(-1)
	for _, x := range xs {
		lo = math.Min(lo, x)
		hi = math.Max(hi, x)
	}
	return
}

// MaxAbs returns max |x|.
func MaxAbs(xs []float64) float64 {
	m := 0.0
	for _, x := range xs {
		m = math.Max(m, math.Abs(x))
	}
	return m
}

// PercentileR8 is the Hyndman–Fan (1996) type-8 sample quantile of xs at the
// probability p (taken as the exact rational value of the float64 p):
//
//	h = (n + 1/3)·p + 1/3,   Q = x_(⌊h⌋) + (h − ⌊h⌋)·(x_(⌊h⌋+1) − x_(⌊h⌋)),
//
// with Q = x_(1) for h < 1 and Q = x_(n) for h ≥ n (order statistics
// 1-based), and min / max for p ≤ 0 / p ≥ 1. xs need not be sorted.
func PercentileR8(xs []float64, p float64) *big.Rat {
	n := len(xs)
	s := append([]float64(nil), xs...)
	sort.Float64s(s)
	if p <= 0 {
		return Rat(s[0])
	}
	if p >= 1 {
		return Rat(s[n-1])
	}
	third := big.NewRat(1, 3)
	h := new(big.Rat).Add(ratInt(n), third)
	h.Mul(h, Rat(p)).Add(h, third)
	// floor(h), h > 0
	fl := new(big.Int).Quo(h.Num(), h.Denom())
	if !fl.IsInt64() || fl.Int64() >= int64(n) {
		return Rat(s[n-1])
	}
	k := int(fl.Int64())
	if k < 1 {
		return Rat(s[0])
	}
	frac := new(big.Rat).Sub(h, new(big.Rat).SetInt(fl))
	lo, hi := Rat(s[k-1]), Rat(s[k])
	hi.Sub(hi, lo).Mul(hi, frac)
	return lo.Add(lo, hi)
}

// GeoMean is (Πx)^(1/n) for positive xs to (almost) Prec bits. The product
// is formed exactly (a big.Float whose mantissa is wide enough for n 53-bit
// factors); the n-th root is taken by Newton iteration after the binary
// exponent has been reduced modulo n.
func GeoMean(xs []float64) *big.Float {
	n := len(xs)
	prod := new(big.Float).SetPrec(uint(64*n + 64)).SetInt64(1)
	for _, x := range xs {
		if !(x > 0) {
			panic("refstat: GeoMean needs positive values")
		}
		prod.Mul(prod, new(big.Float).SetFloat64(x)) // exact: precision suffices
	}
	// prod = m·2^e, m in [0.5,1). e = q·n + r with 0 ≤ r < n.
	m := new(big.Float)
	e := prod.MantExp(m)
	q := e / n
	r := e - q*n
	if r < 0 {
		r += n
		q--
	}
	a := new(big.Float).SetPrec(Prec+64).SetMantExp(m, r) // in [0.5, 2^n)
	// a^(1/n) is in [2^(-1/n), 2): start from the float64 estimate.
	mf, _ := m.Float64()
	y0 := math.Exp((math.Log(mf) + float64(r)*math.Ln2) / float64(n))
	y := new(big.Float).SetPrec(Prec + 64).SetFloat64(y0)
	nn := new(big.Float).SetPrec(Prec + 64).SetInt64(int64(n))
	n1 := new(big.Float).SetPrec(Prec + 64).SetInt64(int64(n - 1))
	for it := 0; it < 8; it++ {
		// y ← ((n−1)·y + a / y^(n−1)) / n
		p := powBig(y, n-1)
		t := new(big.Float).SetPrec(Prec+64).Quo(a, p)
		t.Add(t, new(big.Float).SetPrec(Prec+64).Mul(n1, y))
		y = t.Quo(t, nn)
	}
	out := new(big.Float).SetPrec(Prec).Set(y)
	return out.SetMantExp(out, q)
}

func powBig(y *big.Float, k int) *big.Float {
	res := new(big.Float).SetPrec(y.Prec()).SetInt64(1)
	base := new(big.Float).SetPrec(y.Prec()).Set(y)
	for k > 0 {
		if k&1 == 1 {
			res.Mul(res, base)
		}
		base.Mul(base, base)
		k >>= 1
	}
	return res
}

// R8Neighbours returns the two order statistics between which the type-8
// quantile at p interpolates, and the exact interpolation fraction. ok is
// false at the ends (p outside (0,1), or h outside [1, n)).
func R8Neighbours(xs []float64, p float64) (lo, hi float64, frac *big.Rat, ok bool) {
	n := len(xs)
	if n == 0 || !(p > 0 && p < 1) {
		return 0, 0, nil, false
	}
	s := append([]float64(nil), xs...)
	sort.Float64s(s)
	third := big.NewRat(1, 3)
	h := new(big.Rat).Add(ratInt(n), third)
	h.Mul(h, Rat(p)).Add(h, third)
	fl := new(big.Int).Quo(h.Num(), h.Denom())
	if !fl.IsInt64() || fl.Int64() >= int64(n) || fl.Int64() < 1 {
		return 0, 0, nil, false
	}
	k := int(fl.Int64())
	return s[k-1], s[k], new(big.Rat).Sub(h, new(big.Rat).SetInt(fl)), true
}
