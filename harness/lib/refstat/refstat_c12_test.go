package refstat

import (
	"math"
	"math/big"
	"testing"
)

func TestGKRule(t *testing.T) {
	for k := 0; k <= 22; k += 2 {
		kk := float64(k)
		v, e := GK15(func(x float64) float64 { return math.Pow(x, kk) }, -1, 1)
		if math.Abs(v-2/(kk+1)) > 2e-15 {
			t.Errorf("x^%d: %v want %v", k, v, 2/(kk+1))
		}
		if k <= 12 && e > 2e-15 {
			t.Errorf("x^%d: gauss differs by %v", k, e)
		}
	}
	v, ok := Integrate(math.Sin, 0, math.Pi, 1e-13)
	if !ok || math.Abs(v-2) > 1e-13 {
		t.Errorf("sin: %v %v", v, ok)
	}
}

func TestTCDFKnown(t *testing.T) {
	// closed forms: ν=1: ½+atan(x)/π ; ν=2: ½ + x/(2√(2+x²))
	for _, x := range []float64{-1e6, -300, -3, -0.5, 1e-3, 0.7, 2, 40, 1e4, 1e6, 1e30} {
		got, ok := TCDF(1, x)
		want := 0.5 + math.Atan(x)/math.Pi
		if !ok || math.Abs(got-want) > 1e-12 {
			t.Errorf("ν=1 x=%v: %v want %v ok=%v", x, got, want, ok)
		}
		got, ok = TCDF(2, x)
		want = 0.5 + x/(2*math.Sqrt(2+x*x))
		if x > 1e100 {
			want = 1
		}
		if !ok || math.Abs(got-want) > 1e-12 {
			t.Errorf("ν=2 x=%v: %v want %v ok=%v", x, got, want, ok)
		}
	}
	// Stirling series against Lgamma where both are accurate
	for _, nu := range []float64{200, 250.5, 1000} {
		want := lg((nu+1)/2) - lg(nu/2) - 0.5*math.Log(nu*math.Pi)
		if math.Abs(tLogNorm(nu)-want) > 4e-16*nu*math.Log(nu) { // Lgamma rounding
			t.Errorf("tLogNorm(%v)=%v want %v", nu, tLogNorm(nu), want)
		}
	}
	// total mass and normal limit
	for _, nu := range []float64{1, 1.5, 7.3, 200, 1000, 3e4, 1e5} {
		got, ok := TCDF(nu, 1e100)
		if !ok || math.Abs(got-1) > 1e-12 {
			t.Errorf("ν=%v total: %v %v", nu, got, ok)
		}
		if nu >= 200 {
			for x := -8.0; x <= 8; x += 0.125 {
				f, _ := TCDF(nu, x)
				phi, ok2 := NormCDF(x)
				lim, bound := TCDFNormalLimit(nu, x, phi)
				if !ok2 || math.Abs(f-lim) > bound*0.6+1e-12 {
					t.Errorf("ν=%v x=%v: F=%v limit=%v diff=%g bound=%g", nu, x, f, lim, f-lim, bound)
				}
			}
		}
	}
	for _, z := range []float64{-38, -9, -1, 0.3, 2, 6, 12, 50} {
		got, ok := NormCDF(z)
		want := 0.5 * math.Erfc(-z/math.Sqrt2)
		if !ok || math.Abs(got-want) > 1e-13 {
			t.Errorf("Φ(%v)=%v want %v", z, got, want)
		}
	}
}

func TestBetaIncRef(t *testing.T) {
	// I_x(1,b) = 1-(1-x)^b ; I_x(a,1) = x^a ; I_x(2,2)=3x²-2x³
	for _, x := range []float64{0.01, 0.3, 0.5, 0.77, 0.999} {
		for _, c := range []struct{ a, b, want float64 }{
			{1, 3.5, 1 - math.Pow(1-x, 3.5)}, {4.25, 1, math.Pow(x, 4.25)}, {2, 2, 3*x*x - 2*x*x*x},
		} {
			got, ok := BetaInc(x, c.a, c.b)
			if !ok || math.Abs(got-c.want) > 1e-12 {
				t.Errorf("I_%v(%v,%v)=%v want %v ok=%v", x, c.a, c.b, got, c.want, ok)
			}
		}
	}
	// symmetric large parameters: I_½(a,a)=½
	for _, a := range []float64{10, 1000, 5e3} {
		got, ok := BetaInc(0.5, a, a)
		if !ok || math.Abs(got-0.5) > 1e-9 {
			t.Errorf("I_.5(%v,%v)=%v ok=%v", a, a, got, ok)
		}
	}
}

func TestMoments(t *testing.T) {
	xs := []float64{2, 4, 4, 4, 5, 5, 7, 9}
	if F64(MeanRat(xs)) != 5 || VarianceRat(xs).Cmp(big.NewRat(32, 7)) != 0 {
		t.Errorf("mean/var %v %v", MeanRat(xs), VarianceRat(xs))
	}
	// R8 on 1..5 at p=.25: h=(5+1/3)/4+1/3=5/3 → 1+2/3
	if PercentileR8([]float64{5, 3, 1, 2, 4}, 0.25).Cmp(big.NewRat(5, 3)) != 0 {
		t.Errorf("R8 %v", PercentileR8([]float64{5, 3, 1, 2, 4}, 0.25))
	}
	if PercentileR8([]float64{1, 2, 3, 4}, 0.5).Cmp(big.NewRat(5, 2)) != 0 {
		t.Errorf("median")
	}
	g := BF64(GeoMean([]float64{1, 2, 4, 8, 16}))
	if g != 4 {
		t.Errorf("geomean %v", g)
	}
	g = BF64(GeoMean([]float64{1e300, 1e300, 1e-300, 3}))
	want := math.Exp((2*math.Log(1e300) + math.Log(1e-300) + math.Log(3)) / 4)
	if math.Abs(g/want-1) > 1e-13 {
		t.Errorf("geomean big %v want %v", g, want)
	}
	big500 := make([]float64, 500)
	for i := range big500 {
		big500[i] = 1e300
	}
	if g := BF64(GeoMean(big500)); g != 1e300 {
		t.Errorf("geomean 500×1e300 = %v", g)
	}
}

func TestTTestRef(t *testing.T) {
	// values pinned in golang/perf's own ttest_test.go
	s1 := []float64{2, 1, 3, 4}
	s2 := []float64{6, 5, 7, 9}
	w := Welch(s1, s2)
	if math.Abs(BF64(w.T)+3.9703446152237674) > 1e-14 || math.Abs(BF64(w.DoF)-5.584615384615385) > 1e-14 {
		t.Errorf("welch %v %v", w.T, w.DoF)
	}
	p := Pooled(s1, s2)
	if math.Abs(BF64(p.T)+3.9703446152237674) > 1e-14 || BF64(p.DoF) != 6 {
		t.Errorf("pooled %v %v", p.T, p.DoF)
	}
	pr := Paired(s1, s2, 0)
	if math.Abs(BF64(pr.T)+17) > 1e-13 || BF64(pr.DoF) != 3 {
		t.Errorf("paired %v", pr.T)
	}
	o := OneSample(s1, 0)
	if math.Abs(BF64(o.T)-3.872983346207417) > 1e-14 {
		t.Errorf("one %v", o.T)
	}
	f, _ := TCDF(6, -3.9703446152237674)
	if math.Abs(f-0.0036820296121056195) > 1e-12 {
		t.Errorf("p %v", f)
	}
}
