package refstat

import "math/big"

// TStat is a textbook t statistic with the exact ingredients it was made of.
// T and DoF are Prec-bit big.Floats; the moments are exact rationals.
type TStat struct {
	T, DoF *big.Float
	// M1, M2: sample means (M2 = μ0 for the one-sample and paired tests).
	// V1, V2: unbiased sample variances (V2 = 0 where there is no 2nd sample).
	M1, M2, V1, V2 *big.Rat
	// SE2 is the squared standard error (the square of T's denominator).
	SE2 *big.Rat
}

func bf() *big.Float { return new(big.Float).SetPrec(Prec) }

// mkT returns num/√se2, or nil when se2 = 0 (statistic undefined).
func mkT(num, se2 *big.Rat) *big.Float {
	if se2.Sign() == 0 {
		return nil
	}
	se := SqrtRat(se2)
	return bf().Quo(Float(num), se)
}

// Welch: t = (x̄1 − x̄2) / √(s1²/n1 + s2²/n2),
//
//	ν = (s1²/n1 + s2²/n2)² / ( (s1²/n1)²/(n1−1) + (s2²/n2)²/(n2−1) )
//
// (Welch–Satterthwaite). Needs n1,n2 ≥ 2 and s1² + s2² > 0.
func Welch(x1, x2 []float64) TStat {
	n1, n2 := len(x1), len(x2)
	r := TStat{M1: MeanRat(x1), M2: MeanRat(x2), V1: VarianceRat(x1), V2: VarianceRat(x2)}
	a := new(big.Rat).Quo(r.V1, ratInt(n1))
	b := new(big.Rat).Quo(r.V2, ratInt(n2))
	r.SE2 = new(big.Rat).Add(a, b)
	r.T = mkT(new(big.Rat).Sub(r.M1, r.M2), r.SE2)
	if r.T == nil {
		return r
	}
	num := new(big.Rat).Mul(r.SE2, r.SE2)
	den := new(big.Rat).Quo(new(big.Rat).Mul(a, a), ratInt(n1-1))
	den.Add(den, new(big.Rat).Quo(new(big.Rat).Mul(b, b), ratInt(n2-1)))
	r.DoF = Float(num.Quo(num, den))
	return r
}

// Pooled (Student, equal variances): sp² = ((n1−1)s1² + (n2−1)s2²)/(n1+n2−2),
// t = (x̄1 − x̄2)/√(sp²(1/n1 + 1/n2)), ν = n1 + n2 − 2. Needs n1,n2 ≥ 1,
// n1+n2 ≥ 3 and sp² > 0.
func Pooled(x1, x2 []float64) TStat {
	n1, n2 := len(x1), len(x2)
	r := TStat{M1: MeanRat(x1), M2: MeanRat(x2), V1: VarianceRat(x1), V2: VarianceRat(x2)}
	sp := new(big.Rat).Mul(ratInt(n1-1), r.V1)
	sp.Add(sp, new(big.Rat).Mul(ratInt(n2-1), r.V2))
	sp.Quo(sp, ratInt(n1+n2-2))
	inv := new(big.Rat).Add(big.NewRat(1, int64(n1)), big.NewRat(1, int64(n2)))
	r.SE2 = sp.Mul(sp, inv)
	r.T = mkT(new(big.Rat).Sub(r.M1, r.M2), r.SE2)
	r.DoF = bf().SetInt64(int64(n1 + n2 - 2))
	return r
}

// OneSample: t = (x̄ − μ0)/(s/√n), ν = n − 1. Needs n ≥ 2, s² > 0.
func OneSample(x []float64, mu0 float64) TStat {
	n := len(x)
	r := TStat{M1: MeanRat(x), M2: Rat(mu0), V1: VarianceRat(x), V2: new(big.Rat)}
	r.SE2 = new(big.Rat).Quo(r.V1, ratInt(n))
	r.T = mkT(new(big.Rat).Sub(r.M1, r.M2), r.SE2)
	r.DoF = bf().SetInt64(int64(n - 1))
	return r
}

// Paired: the one-sample test of the exact differences d_i = x1_i − x2_i
// against μ0. Diffs returns those differences rounded to float64 only where
// the caller needs them; the statistic itself uses exact rationals.
func Paired(x1, x2 []float64, mu0 float64) TStat {
	n := len(x1)
	ds := make([]*big.Rat, n)
	s, q := new(big.Rat), new(big.Rat)
	for i := range x1 {
		ds[i] = new(big.Rat).Sub(Rat(x1[i]), Rat(x2[i]))
		s.Add(s, ds[i])
		q.Add(q, new(big.Rat).Mul(ds[i], ds[i]))
	}
	mean := new(big.Rat).Quo(s, ratInt(n))
	v := new(big.Rat)
	if n > 1 {
		ss := new(big.Rat).Mul(s, s)
		ss.Quo(ss, ratInt(n))
		v.Sub(q, ss).Quo(v, ratInt(n-1))
	}
	r := TStat{M1: mean, M2: Rat(mu0), V1: v, V2: new(big.Rat)}
	r.SE2 = new(big.Rat).Quo(v, ratInt(n))
	r.T = mkT(new(big.Rat).Sub(r.M1, r.M2), r.SE2)
	r.DoF = bf().SetInt64(int64(n - 1))
	return r
}
