package refstat

import (
	"math"
	"sort"
)

func lg(x float64) float64 { y, _ := math.Lgamma(x); return y }

// TLogDensity is the logarithm of the textbook Student-t density
//
//	f_ν(x) = Γ((ν+1)/2) / (√(νπ) Γ(ν/2)) · (1 + x²/ν)^(−(ν+1)/2).
//
// For ν < 200 the normalising constant comes from math.Lgamma; beyond, the
// difference lgamma((ν+1)/2) − lgamma(ν/2) of two numbers of size ν·log ν
// would lose ν·log ν·1e-16 (4e-11 at ν = 1e5), so the Stirling series
//
//	log Γ(z+½) − log Γ(z) = ½·log z − 1/(8z) + 1/(192z³) − 1/(640z⁵) + 17/(14336z⁷) − …
//
// (z = ν/2; remainder < 1e-17 for z ≥ 100) is used instead. The power is
// evaluated through log1p (or, for x² ≫ ν where x² may overflow,
// through 2·log|x| − log ν + log1p(ν/x²)), so the value is accurate to a few
// 1e-16·max(1, ν·log ν/10) relative for every finite x.
func TLogDensity(nu, x float64) float64 {
	c := tLogNorm(nu)
	ax := math.Abs(x)
	var l float64 // log(1 + x²/ν)
	if ax > 1e100 || ax*ax > 1e8*nu {
		r := nu / ax / ax // ν/x², no overflow
		l = 2*math.Log(ax) - math.Log(nu) + math.Log1p(r)
	} else {
		l = math.Log1p(x * x / nu)
	}
	return c - (nu+1)/2*l
}

func tLogNorm(nu float64) float64 {
	if nu < 200 {
		return lg((nu+1)/2) - lg(nu/2) - 0.5*math.Log(nu*math.Pi)
	}
	z := nu / 2
	z2 := z * z
	ser := (-1.0/8 + (1.0/192-(1.0/640-17.0/14336/z2)/z2)/z2) / z
	// ½·log z − ½·log(νπ) = −½·log(2π)
	return ser - 0.5*math.Log(2*math.Pi)
}

// TDensity is the textbook Student-t density.
func TDensity(nu, x float64) float64 { return math.Exp(TLogDensity(nu, x)) }

var uBreaks = []float64{0, 0.25, 0.5, 1, 1.5, 2, 3, 4, 6, 8, 12, 16, 24, 32, 48, 64, 96, 128, 192, 256}

func pieces(upper float64, breaks []float64) []float64 {
	pts := []float64{0}
	for _, b := range breaks[1:] {
		if b >= upper {
			break
		}
		pts = append(pts, b)
	}
	return append(pts, upper)
}

// TCDF is the Student-t distribution function obtained by adaptive
// Gauss–Kronrod integration of the textbook density:
//
//	F(x) = ½ + sign(x) ∫_0^{|x|} f_ν(t) dt,   t = sinh u.
//
// The substitution makes the integrand f_ν(sinh u)·cosh u smooth and short
// ranged even for ν = 1 and |x| = 1e6. |x| is clamped to 1e100 (the tail
// beyond is < 1e-100 for every ν ≥ 1). Requested absolute accuracy 1e-13;
// ok reports whether the integrator reached it.
func TCDF(nu, x float64) (float64, bool) {
	if x == 0 {
		return 0.5, true
	}
	ax := math.Min(math.Abs(x), 1e100)
	g := func(u float64) float64 {
		return math.Exp(TLogDensity(nu, math.Sinh(u)) + math.Log(math.Cosh(u)))
	}
	v, ok := IntegratePieces(g, pieces(math.Asinh(ax), uBreaks), 1e-13)
	if v > 0.5 {
		v = 0.5
	}
	if x < 0 {
		return 0.5 - v, ok
	}
	return 0.5 + v, ok
}

// CDFByIntegration integrates an arbitrary symmetric-about-0 density pdf the
// same way (F(x) = ½ + sign(x)∫_0^{|x|} pdf, t = sinh u). It is used to
// integrate the implementation's own PDF, whose rounding noise (about
// ν·1e-16 relative for a t density) limits the reachable accuracy: absTol
// should stay above that noise or the recursion only ends at its budget.
func CDFByIntegration(pdf func(float64) float64, x, absTol float64) (float64, bool) {
	if x == 0 {
		return 0.5, true
	}
	ax := math.Min(math.Abs(x), 1e100)
	g := func(u float64) float64 {
		p := pdf(math.Sinh(u))
		if p == 0 {
			return 0
		}
		return p * math.Cosh(u)
	}
	v, ok := IntegratePieces(g, pieces(math.Asinh(ax), uBreaks), absTol)
	if x < 0 {
		return 0.5 - v, ok
	}
	return 0.5 + v, ok
}

// NormDensity is the standard normal density.
func NormDensity(z float64) float64 {
	return math.Exp(-0.5*z*z) / math.Sqrt(2*math.Pi)
}

// NormCDF is Φ(z) by integration of the density from 0 to |z| (clamped to 40,
// where the tail is < 1e-300).
func NormCDF(z float64) (float64, bool) {
	if z == 0 {
		return 0.5, true
	}
	az := math.Min(math.Abs(z), 40)
	v, ok := IntegratePieces(NormDensity, pieces(az, uBreaks), 1e-13)
	if v > 0.5 {
		v = 0.5
	}
	if z < 0 {
		return 0.5 - v, ok
	}
	return 0.5 + v, ok
}

// TCDFNormalLimit is the first-order expansion of the t distribution function
// around the normal one, F_ν(x) = Φ(x) − φ(x)(x + x³)/(4ν) + R, with
// |R| ≤ 0.5/ν² for ν ≥ 200 (the second-order term is bounded by 0.23/ν²;
// verified numerically against TCDF in this package's tests). phi is Φ(x)
// supplied by the caller (e.g. from NormCDF).
func TCDFNormalLimit(nu, x, phi float64) (val, bound float64) {
	if math.Abs(x) > 40 { // φ(x)·x³ < 1e-340: the correction vanishes (and x³ may overflow)
		return phi, 0.5 / (nu * nu)
	}
	return phi - NormDensity(x)*(x+x*x*x)/(4*nu), 0.5 / (nu * nu)
}

// BetaInc is the regularized incomplete beta function I_x(a,b) for a,b ≥ 1 by
// integration of the density t^(a−1)(1−t)^(b−1)/B(a,b) over [0,x], with break
// points around the mode. ok is false outside a,b ≥ 1, 0 ≤ x ≤ 1 or when the
// integrator gave up. The normalising constant uses math.Lgamma, whose
// absolute error grows like 1e-16·(a+b)·log(a+b); the result is therefore
// good to about 1e-12·max(1,(a+b)/10) only — callers comparing at 1e-9 should
// keep a+b ≤ 1e4.
func BetaInc(x, a, b float64) (float64, bool) {
	if !(a >= 1 && b >= 1 && x >= 0 && x <= 1) {
		return math.NaN(), false
	}
	if x == 0 {
		return 0, true
	}
	if x == 1 {
		return 1, true
	}
	logC := lg(a+b) - lg(a) - lg(b)
	f := func(t float64) float64 {
		if t <= 0 || t >= 1 {
			if (t <= 0 && a == 1) || (t >= 1 && b == 1) {
				return math.Exp(logC + (a-1)*math.Log(math.Max(t, 1e-300)) + (b-1)*math.Log1p(-math.Min(t, 1-1e-16)))
			}
			return 0
		}
		return math.Exp(logC + (a-1)*math.Log(t) + (b-1)*math.Log1p(-t))
	}
	mode := 0.5
	if a+b > 2 {
		mode = (a - 1) / (a + b - 2)
	}
	sd := math.Sqrt(a * b / ((a + b) * (a + b) * (a + b + 1)))
	// Integrate the smaller side to keep absolute accuracy symmetric.
	integ := func(lo, hi float64) (float64, bool) {
		pts := []float64{lo, hi}
		for _, k := range []float64{-40, -16, -8, -4, -2, -1, 0, 1, 2, 4, 8, 16, 40} {
			p := mode + k*sd
			if p > lo && p < hi {
				pts = append(pts, p)
			}
		}
		sort.Float64s(pts)
		return IntegratePieces(f, pts, 1e-13*math.Max(1, (a+b)/10))
	}
	if x <= mode {
		return integ(0, x)
	}
	v, ok := integ(x, 1)
	return 1 - v, ok
}
