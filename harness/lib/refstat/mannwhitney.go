package refstat

import (
	"math"
	"sort"
)

// This file: reference Mann-Whitney U statistics. The exact null distribution
// is obtained by brute-force enumeration of all assignments of the pooled
// values to the two groups (the trusted base), and by a dynamic program over
// tie groups for larger samples (cross-checked against the enumeration).

// TwoU returns 2·U1 for samples x1, x2 by direct pair counting: twice the
// number of pairs (a in x1, b in x2) with a > b, plus the number of tied pairs.
func TwoU(x1, x2 []float64) int {
	u := 0
	for _, a := range x1 {
		for _, b := range x2 {
			switch {
			case a > b:
				u += 2
			case a == b:
				u++
			}
		}
	}
	return u
}

// TieGroups returns the multiplicities of the distinct pooled values in
// increasing order of value.
func TieGroups(x1, x2 []float64) []int {
	all := append(append([]float64(nil), x1...), x2...)
	sort.Float64s(all)
	var t []int
	for i := 0; i < len(all); {
		j := i
		for j < len(all) && all[j] == all[i] {
			j++
		}
		t = append(t, j-i)
		i = j
	}
	return t
}

// Dist maps 2U to its probability under the null hypothesis.
type Dist map[int]float64

// EnumDist enumerates every subset of size n1 of the pooled values (given as
// tie-group multiplicities t) and tabulates 2U. Cost C(N, n1); N <= ~22.
func EnumDist(t []int, n1 int) Dist {
	// expand to group indices
	var grp []int
	for g, m := range t {
		for i := 0; i < m; i++ {
			grp = append(grp, g)
		}
	}
	N := len(grp)
	counts := map[int]int{}
	total := 0
	sel := make([]bool, N)
	var rec func(pos, left int)
	rec = func(pos, left int) {
		if left == 0 {
			// compute 2U by pair counting over group indices
			u := 0
			for i := 0; i < N; i++ {
				if !sel[i] {
					continue
				}
				for j := 0; j < N; j++ {
					if sel[j] {
						continue
					}
					switch {
					case grp[i] > grp[j]:
						u += 2
					case grp[i] == grp[j]:
						u++
					}
				}
			}
			counts[u]++
			total++
			return
		}
		if N-pos < left {
			return
		}
		sel[pos] = true
		rec(pos+1, left-1)
		sel[pos] = false
		rec(pos+1, left)
	}
	rec(0, n1)
	d := Dist{}
	for u, c := range counts {
		d[u] = float64(c) / float64(total)
	}
	return d
}

// DPDist computes the same distribution by dynamic programming over tie
// groups with float64 counts (relative error ~1e-14).
func DPDist(t []int, n1 int) Dist {
	N := 0
	for _, m := range t {
		N += m
	}
	n2 := N - n1
	maxU := 2 * n1 * n2
	// state[used] = counts by 2U
	state := make([][]float64, n1+1)
	state[0] = make([]float64, maxU+1)
	state[0][0] = 1
	below := 0 // pooled values in lower groups
	for _, m := range t {
		next := make([][]float64, n1+1)
		for used := 0; used <= n1; used++ {
			cur := state[used]
			if cur == nil {
				continue
			}
			x2below := below - used
			if x2below < 0 {
				continue
			}
			for r := 0; r <= m && used+r <= n1; r++ {
				if (m-r)+x2below > n2 {
					continue
				}
				ways := choose(m, r)
				add := 2*r*x2below + r*(m-r)
				if next[used+r] == nil {
					next[used+r] = make([]float64, maxU+1)
				}
				dst := next[used+r]
				for u, c := range cur {
					if c != 0 && u+add <= maxU {
						dst[u+add] += c * ways
					}
				}
			}
		}
		state = next
		below += m
	}
	d := Dist{}
	total := choose(N, n1)
	if state[n1] != nil {
		for u, c := range state[n1] {
			if c != 0 {
				d[u] = c / total
			}
		}
	}
	return d
}

func choose(n, k int) float64 {
	if k < 0 || k > n {
		return 0
	}
	if k > n-k {
		k = n - k
	}
	r := 1.0
	for i := 1; i <= k; i++ {
		r = r * float64(n-k+i) / float64(i)
	}
	return math.Round(r)
}

// PLE returns P(2U <= twoU).
func (d Dist) PLE(twoU int) float64 {
	p := 0.0
	for u, q := range d {
		if u <= twoU {
			p += q
		}
	}
	return p
}

// PGE returns P(2U >= twoU).
func (d Dist) PGE(twoU int) float64 {
	p := 0.0
	for u, q := range d {
		if u >= twoU {
			p += q
		}
	}
	return p
}

// TwoSided returns min(1, 2·min(P<=, P>=)).
func (d Dist) TwoSided(twoU int) float64 {
	return math.Min(1, 2*math.Min(d.PLE(twoU), d.PGE(twoU)))
}

// MinU, MaxU return the support bounds (in 2U).
func (d Dist) MinMax() (int, int) {
	first := true
	lo, hi := 0, 0
	for u := range d {
		if first || u < lo {
			lo = u
		}
		if first || u > hi {
			hi = u
		}
		first = false
	}
	return lo, hi
}

// NormalApprox returns the tie- and continuity-corrected normal approximation
// of the Mann-Whitney p-value; alt is -1 (less), 0 (two-sided), +1 (greater).
// ok is false when the variance is zero.
func NormalApprox(twoU int, n1, n2 int, t []int, alt int) (p float64, ok bool) {
	N := float64(n1 + n2)
	tie := 0.0
	for _, m := range t {
		fm := float64(m)
		tie += fm*fm*fm - fm
	}
	variance := float64(n1) * float64(n2) / 12 * ((N + 1) - tie/(N*(N-1)))
	if variance <= 0 {
		return 0, false
	}
	sigma := math.Sqrt(variance)
	mu := float64(n1) * float64(n2) / 2
	u := float64(twoU) / 2
	phi := func(z float64) float64 { return 0.5 * math.Erfc(-z/math.Sqrt2) }
	switch alt {
	case -1:
		return phi((u - mu + 0.5) / sigma), true
	case 1:
		return 1 - phi((u-mu-0.5)/sigma), true
	}
	num := u - mu
	switch {
	case num > 0:
		num -= 0.5
	case num < 0:
		num += 0.5
	}
	z := num / sigma
	return 2 * math.Min(phi(z), 1-phi(z)), true
}
