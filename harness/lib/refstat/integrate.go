// Package refstat holds independent reference mathematics for the checks of
// golang.org/x/perf/internal/stats: exact moments (math/big), adaptive
// numerical integration, textbook distribution functions and test statistics.
// It imports only the standard library and nothing from golang/perf.
package refstat

import "math"

// Gauss–Kronrod (7,15) rule on [-1,1] (QUADPACK qk15): positive nodes in
// decreasing order, the last one is 0. gkW are the Kronrod weights, gW the
// weights of the embedded 7-point Gauss rule (nodes gkX[1], gkX[3], gkX[5], 0).
var gkX = [8]float64{
	0.991455371120812639206854697526329,
	0.949107912342758524526189684047851,
	0.864864423359769072789712788640926,
	0.741531185599394439863864773280788,
	0.586087235467691130294144838258730,
	0.405845151377397166906606412076961,
	0.207784955007898467600689403773245,
	0.000000000000000000000000000000000,
}
var gkW = [8]float64{
	0.022935322010529224963732008058970,
	0.063092092629978553290700663189204,
	0.104790010322250183839876322541518,
	0.140653259715525918745189590510238,
	0.169004726639267902826583426598550,
	0.190350578064785409913256402421014,
	0.204432940075298892414161999234649,
	0.209482141084727828012999174891714,
}
var gW = [4]float64{
	0.129484966168869693270611432679082,
	0.279705391489276667901467771423780,
	0.381830050505118944950369775488975,
	0.417959183673469387755102040816327,
}

// GK15 applies the (7,15) rule to f on [a,b] and returns the Kronrod estimate
// and |Kronrod − Gauss| as error indicator.
func GK15(f func(float64) float64, a, b float64) (val, errEst float64) {
	c, h := 0.5*(a+b), 0.5*(b-a)
	fc := f(c)
	k := fc * gkW[7]
	g := fc * gW[3]
	for i := 0; i < 7; i++ {
		d := h * gkX[i]
		s := f(c-d) + f(c+d)
		k += gkW[i] * s
		if i%2 == 1 {
			g += gW[i/2] * s
		}
	}
	return k * h, math.Abs((k - g) * h)
}

// Integrate returns ∫_a^b f by adaptive bisection of the GK15 rule. absTol is
// the requested absolute accuracy of the whole integral; it is distributed
// over the sub-intervals in proportion to their length. ok is false when the
// recursion limit (depth 60) or the evaluation budget was exhausted before
// the error indicator fell below the tolerance; the value is then still the
// best estimate. f must be finite on [a,b].
func Integrate(f func(float64) float64, a, b, absTol float64) (val float64, ok bool) {
	if a == b {
		return 0, true
	}
	if a > b {
		v, o := Integrate(f, b, a, absTol)
		return -v, o
	}
	budget := 200000
	ok = true
	var rec func(a, b, tol float64, depth int) float64
	rec = func(a, b, tol float64, depth int) float64 {
		v, e := GK15(f, a, b)
		budget -= 15
		// The GK error indicator (difference to a rule of much lower
		// order) over-estimates the Kronrod error by orders of magnitude
		// for smooth integrands; QUADPACK rescales it by (200·e/|resabs|)^1.5.
		// We keep the plain, conservative indicator.
		if e <= tol || e <= 4*math.SmallestNonzeroFloat64 {
			return v
		}
		m := 0.5 * (a + b)
		if depth >= 60 || budget <= 0 || m <= a || m >= b {
			ok = false
			return v
		}
		return rec(a, m, tol/2, depth+1) + rec(m, b, tol/2, depth+1)
	}
	return rec(a, b, absTol, 0), ok
}

// IntegratePieces integrates f over consecutive pieces with break points
// pts[0] < pts[1] < … (at least two), giving each piece an equal share of
// absTol. Break points let the caller isolate a narrow peak.
func IntegratePieces(f func(float64) float64, pts []float64, absTol float64) (val float64, ok bool) {
	ok = true
	n := len(pts) - 1
	if n < 1 {
		return 0, true
	}
	for i := 0; i < n; i++ {
		v, o := Integrate(f, pts[i], pts[i+1], absTol/float64(n))
		val += v
		ok = ok && o
	}
	return val, ok
}
