// Package genbench generates benchmark-format text (valid, near-valid and
// hostile) line by line for the reader/writer checks. Every random choice
// goes through rapid.
package genbench

import (
	"math"
	"math/big"
	"strconv"
	"strings"

	"pgregory.net/rapid"
	"verif/harness/lib/vcase"
)

var CfgKeys = []string{"goos", "goarch", "pkg", "k9", "é", "a", "b", "cpu", "ключ", "note-x", "a.b", "a/b", "x_y"}
var cfgVals = []string{"linux", "amd64", "golang.org/x/perf", "v", "12", "Intel(R) Core(TM) i7 @ 2.80GHz", "a b  c", "x ", "é日本", "k: v", "Benchmark", "Unit", "\xff\xfe", "v\t1", "-", "*", "\"q\"", "a\\b"}
var Units = []string{"ns/op", "MB/s", "B/op", "allocs/op", "sec/op", "B/s", "ns", "MB", "widgets", "x-bytes", "ns/MB", "µs", "%", "ns-MB", "nsec/op", "GC-ns/op", "u", "%cpu", "%d", "àB/op", "MB*MB*MB*ns*ns/op"}
var nameBases = []string{"X", "Encode", "Decode/size=4k", "Foo/bar", "A/k=v/size=1", "", "é", "X/a=/b", "_", "9", "Sort/n=10/kind=rand"}
var floats = []string{"1", "0", "2.5", "100", "1e3", "1.5e-7", "12345678", "0.000001", "-3", "+4", "NaN", "Inf", "-Inf", "+Inf",
	"1e25", "5e24", "2.5e30", "4e23", "1e-30", "0x1p-2", ".5", "5.", "9223372036854775808", "9223372036854775809", "92233720368547758089", "18446744073709551616", "922337203685477580", "1e-320", "007", "-0",
	// forms that leave the number parser's exact fast path: upper-case exponent markers, exact
	// ties between adjacent floats (even and odd lower neighbour), 16+ digit mantissas, values
	// rounding up to a power of two, the subnormal border
	"1E40", "2.5E-30", "1.2345678901234567E3", "4503599627370496E0", "1E-300", "1.5E3",
	"9007199254740993.0", "9.007199254740993e15", "18014398509481986.0", "4503599627370498.5", "9007199254740995.0", "4503599627370497.5",
	"1.00000000000000011102230246251565404236316680908203125", "9.313225746154785e-10", "2.220446049250313e-16", "1.1805916207174113e+21",
	"1e308", "-1.5e308", "1.7976931348623157e+308", "9.9e307", "3e-324", "2.4703282292062328e-324", "4.9406564584124654e-324", "1.7976931348623157e308", "1.7976931348623159e308", "+1.5e+3", "-2.5E+0"}
var seps = []string{" ", " ", " ", "\t", "  ", " \t ", "\u00a0", "\u2003", "\u0085", "\v", "\f"}

func pick(t *rapid.T, xs []string, label string) string { return rapid.SampledFrom(xs).Draw(t, label) }

func sep(t *rapid.T) string {
	if vcase.OneIn(t, 8, "sepodd") {
		return pick(t, seps, "sep")
	}
	return " "
}

// ConfigLine returns a valid configuration line (set or delete).
func ConfigLine(t *rapid.T) string {
	k := pick(t, CfgKeys, "ckey")
	switch rapid.IntRange(0, 9).Draw(t, "cfgform") {
	case 0:
		return k + ":"
	case 1:
		return k + ": " + pick(t, []string{"", " ", "\t", " \t "}, "blankval")
	default:
		v := pick(t, cfgVals, "cval")
		if rapid.IntRange(0, 3).Draw(t, "cvalrnd") == 0 {
			v = rapid.StringMatching(`[!-~][ -~]{0,10}`).Draw(t, "cvalgen")
		}
		return k + ":" + pick(t, []string{" ", " ", "\t", "  ", " \t"}, "csep") + v
	}
}

func nearConfigLine(t *rapid.T) string {
	return pick(t, []string{"Key: v", "kEy: v", "key : v", "9key: v", "key:v", "Ünit: x", "k\u00a0x: v", "k\xffx: v", ": v", "key", "key:: v", "k: ", " key: v", "k\u0085: v", "ǅ: titlecase", "ﬁ: ligature", "_k: v", "é:", "goos:linux", "goos:\u00a0linux", "goos:\u2003x", "k:\v x", "goos:\fplan9", "note:\vx", "pkg:\f", "goos:\rlinux", "pkg:\v", "k:\f v", "unit: x", "benchmark: y", "goos: ", "pkg:\t"}, "nearcfg")
}

// UnitLine returns a unit metadata line, valid or malformed.
func UnitLine(t *rapid.T) string {
	if rapid.IntRange(0, 3).Draw(t, "unitbad") == 0 {
		return pick(t, []string{"Unit", "Unit ", "Unit ns/op", "Unit ns/op =x", "Unit ns/op k=", "Unitx ns/op a=b", "Unit\tns/op\ta=b", "Unit ns/op a=b =c d e=f", "Units ns/op a=b", "Unit\u00a0MB/s\u00a0better=higher", " Unit ns/op a=b", "Unit ns/op a=b a=b a=c", "Unit = a=b", "Unit x =", "unit ns/op a=b", "U", "Un", "Unit\u2003x\u2003k=v", "Unit\xff ns/op a=b", "Unit ns/op \xff=\xfe"}, "badunit")
	}
	u := pick(t, Units, "uunit")
	var sb strings.Builder
	sb.WriteString("Unit" + sep(t) + u)
	n := rapid.IntRange(1, 3).Draw(t, "nmeta")
	for i := 0; i < n; i++ {
		sb.WriteString(sep(t) + pick(t, []string{"better", "assume", "k", "é"}, "mkey") + "=" + pick(t, []string{"higher", "lower", "exact", "nothing", "", "x=y", "é"}, "mval"))
	}
	return sb.String()
}

// Name returns a benchmark name (without the Benchmark prefix), no white space.
func Name(t *rapid.T) string {
	n := pick(t, nameBases, "nbase")
	if rapid.IntRange(0, 2).Draw(t, "procs") == 0 {
		n += "-" + strconv.Itoa(rapid.IntRange(1, 64).Draw(t, "nprocs"))
	}
	return n
}

// BenchLine returns a benchmark line; valid with probability ~3/4.
func BenchLine(t *rapid.T) string {
	name := Name(t)
	switch rapid.IntRange(0, 15).Draw(t, "benchform") {
	case 0:
		return "Benchmark" + name // name only: ignored
	case 1:
		return "Benchmark" + name + pick(t, []string{" ", "\t", "  ", "\u00a0"}, "trail") // malformed
	case 2:
		return "Benchmark" + name + " " + pick(t, []string{"x", "1.5", "-", "99999999999999999999", "1e3", "0x10", "+5", "-5", ""}, "badit") + " 1 ns/op"
	case 3:
		return "Benchmark" + name + " 10 5" // missing unit
	case 4:
		return "Benchmark" + name + " 10 5 ns/op 7" // odd
	case 5:
		return "Benchmark" + name + " 10 " + pick(t, []string{"x", "1e400", "1_0", "--1", "1e", "0x", "1.2.3", "ns/op", "1:30", "3:2", ":", "1:", "12/", "1;2", "1 :2", "5_", "0_", "1e5_", "٣", "1,5"}, "badfloat") + " ns/op"
	case 6:
		return "Benchmark" + name + " 10" // no measurements
	}
	var sb strings.Builder
	iters := strconv.Itoa(rapid.IntRange(0, 100000).Draw(t, "iters"))
	if vcase.OneIn(t, 12, "longiters") {
		// counts of 19 and more characters leave the integer parser's fast path
		iters = pick(t, []string{"0000000000000000000100", "1000000000000000000", "9223372036854775807", "9223372036854775808", "0000000000000000000", "000000000000000000000000000000007", "1_000_000_000_000_000_000", "00000000000000000001e3", "999999999999999999", "+000000000000000000012", "5000000000000000000", "9223372036854775806", "-100000000000000000", "-9223372036854775808", "9999999999999999999", "-", "+", "18446744073709551615", "18446744073709551616", "18446744073709551620", "18446744073709551625", "-18446744073709551629", "184467440737095516200"}, "longit")
	}
	sb.WriteString("Benchmark" + name + sep(t) + iters)
	nm := rapid.IntRange(1, 4).Draw(t, "nmeas")
	if vcase.OneIn(t, 30, "manymeas") {
		nm = rapid.IntRange(30, 80).Draw(t, "nmeasbig")
	}
	for i := 0; i < nm; i++ {
		sb.WriteString(sep(t) + Float(t) + sep(t) + pick(t, Units, "unit"))
	}
	if rapid.IntRange(0, 9).Draw(t, "trailws") == 0 {
		sb.WriteString(pick(t, []string{" ", "\t", " \u00a0"}, "tw"))
	}
	return sb.String()
}

// pow5 holds the decimal digits of 5^1 .. 5^60: the cut-offs of the slow number path's
// left shifts are prefixes of these.
var pow5 = func() []string {
	var out []string
	n := new(big.Int).SetInt64(1)
	for i := 0; i < 60; i++ {
		n.Mul(n, big.NewInt(5))
		out = append(out, n.String())
	}
	return out
}()

// Float returns the spelling of a measurement value: mostly from the fixed list, sometimes built
// around a boundary of the number parser (short mantissa with a decimal exponent just beyond
// the exactly representable powers of ten, integers between 2^53 and 2^64 written out in full,
// digit strings that are prefixes of a power of five, shortest and 17-digit forms of arbitrary
// bit patterns).
func Float(t *rapid.T) string {
	if !vcase.OneIn(t, 5, "fgen") {
		return pick(t, floats, "fval")
	}
	sign := pick(t, []string{"", "", "-", "+"}, "fsign")
	if vcase.OneIn(t, 40, "fverylong") {
		// more than 800 integer digits, a decimal point, and an exponent that brings the value back
		n := rapid.SampledFrom([]int{799, 800, 801, 805, 850}).Draw(t, "flonglen")
		return sign + pick(t, []string{"1", "7", "12"}, "flead") + strings.Repeat(pick(t, []string{"0", "3"}, "ffill"), n) + pick(t, []string{".5", ".0", "."}, "ffrac") + "e-" + strconv.Itoa(n+rapid.IntRange(-3, 3).Draw(t, "fback"))
	}
	switch rapid.IntRange(0, 4).Draw(t, "fform") {
	case 0:
		m := rapid.Int64Range(1, 999999999999999).Draw(t, "fmant")
		return sign + strconv.FormatInt(m, 10) + pick(t, []string{"e", "E", "e+"}, "fe") + strconv.Itoa(rapid.SampledFrom([]int{1, -1}).Draw(t, "fexpsign")*rapid.IntRange(15, 45).Draw(t, "fexp"))
	case 1:
		u := rapid.Uint64Range(1<<53, 1<<63+4096).Draw(t, "fbigint")
		if rapid.Bool().Draw(t, "fnear63") {
			u = uint64(1<<63) - 3 + uint64(rapid.IntRange(0, 20).Draw(t, "foff"))
		}
		return sign + strconv.FormatUint(u, 10) + pick(t, []string{"", "", ".0", "e0", "0"}, "ftail")
	case 2:
		d := pick(t, pow5, "fpow5")
		d = d[:rapid.IntRange(1, len(d)).Draw(t, "fpre")]
		if len(d) > 1 && rapid.Bool().Draw(t, "fdot") {
			d = d[:1] + "." + d[1:]
		}
		return sign + d + "e" + strconv.Itoa(rapid.IntRange(-340, 290).Draw(t, "fexp5"))
	case 3:
		f := math.Float64frombits(rapid.Uint64().Draw(t, "fbits"))
		if f != f || f-f != 0 {
			return "1"
		}
		return strconv.FormatFloat(f, 'g', -1, 64)
	default:
		f := math.Float64frombits(rapid.Uint64().Draw(t, "fbits17"))
		if f != f || f-f != 0 {
			return "2"
		}
		return strconv.FormatFloat(f, 'e', 16, 64)
	}
}

func foreignLine(t *rapid.T) string {
	return pick(t, []string{"PASS", "FAIL", "ok  \tgolang.org/x/perf\t1.234s", "--- BENCH: BenchmarkX", "    bench_test.go:10: log line", "# comment", "", " ", "\r", "goos linux", "\xff\xfe\xfd", "a\x00b: c", "\x00", "=== RUN   TestX", "benchmarkX 1 2 ns/op", " BenchmarkX 1 2 ns/op", "BENCHMARKX 1 2 ns/op", "Benchmar", "testing: warning: no tests to run", "exit status 1", "\u00a0", "é", "Ü"}, "foreign")
}

func noiseLine(t *rapid.T) string {
	b := rapid.SliceOfN(rapid.Byte(), 0, 30).Draw(t, "noise")
	for i := range b {
		if b[i] == '\n' {
			b[i] = ' '
		}
	}
	return string(b)
}

// Line returns one line (no terminator) from the weighted grammar.
func Line(t *rapid.T) string {
	switch k := rapid.IntRange(0, 19).Draw(t, "linekind"); {
	case k < 5:
		return ConfigLine(t)
	case k < 6:
		return nearConfigLine(t)
	case k < 8:
		return UnitLine(t)
	case k < 16:
		return BenchLine(t)
	case k < 18:
		return foreignLine(t)
	default:
		return noiseLine(t)
	}
}

// Text returns a whole input of up to maxLines lines. crRate is the chance
// (in 1/100) of "\r\n" line ends; a double CR ("\r\r\n", which makes a
// configuration value end in CR) appears only when allowCRCR.
func Text(t *rapid.T, maxLines int, allowCRCR bool) string {
	var sb strings.Builder
	n := rapid.IntRange(0, maxLines).Draw(t, "nlines")
	crlf := rapid.IntRange(0, 5).Draw(t, "crlfmode") == 0
	if vcase.OneIn(t, 120, "manykeys") {
		// overflow the reader's intern table: > 1024 distinct keys / units
		m := rapid.IntRange(1030, 1100).Draw(t, "nkeys")
		for i := 0; i < m; i++ {
			if i%2 == 0 {
				sb.WriteString("key" + strconv.Itoa(i) + ": v" + strconv.Itoa(i%7) + "\n")
			} else {
				sb.WriteString("BenchmarkM 1 " + strconv.Itoa(i) + " unit" + strconv.Itoa(i) + "\n")
			}
		}
	}
	if vcase.OneIn(t, 40, "longlines") {
		// lines of 4 to 60 KiB: still below the 64 KiB limit of the format's readers
		ln := rapid.SampledFrom([]int{4090, 4097, 5000, 9000, 33000, 60000}).Draw(t, "longlen")
		sb.WriteString("note: " + strings.Repeat("v", ln) + "\n")
		sb.WriteString("BenchmarkLongLine 1")
		for i := 0; i*14 < ln; i++ {
			sb.WriteString(" " + strconv.Itoa(i%97) + " metric" + strconv.Itoa(i))
		}
		sb.WriteString("\n# " + strings.Repeat("x", ln) + "\n")
	}
	for i := 0; i < n; i++ {
		sb.WriteString(Line(t))
		end := "\n"
		if crlf && rapid.IntRange(0, 3).Draw(t, "cr") != 0 {
			end = "\r\n"
		}
		if allowCRCR && vcase.OneIn(t, 60, "crcr") {
			end = "\r\r\n"
		}
		if i == n-1 && rapid.IntRange(0, 3).Draw(t, "noeol") == 0 {
			end = ""
		}
		sb.WriteString(end)
	}
	return sb.String()
}
