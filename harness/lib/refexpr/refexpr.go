// Package refexpr is an independent reference for the benchproc filter
// language: expression trees, a randomised printer into the documented
// concrete syntax, and an evaluator with ordinary boolean semantics. It
// imports nothing from golang/perf.
package refexpr

import (
	"regexp"
	"strconv"
	"strings"
	"unicode"

	"pgregory.net/rapid"
	"verif/harness/lib/refbench"
)

// Node is a filter expression tree.
type Node struct {
	Op   string  // "and" | "or" | "not" | "true" | "match" | "list"
	Kids []*Node `json:",omitempty"`
	Key  string  `json:",omitempty"`
	Vals []Term  `json:",omitempty"` // one for "match", >=1 for "list"
}

// Term is a literal or a regular expression.
type Term struct {
	Lit string
	Re  string `json:",omitempty"` // non-empty: regexp source (Lit ignored)
}

// Meas is a measurement as seen by .unit terms.
type Meas struct {
	Unit, OrigUnit string
}

// Result is the part of a benchmark result filters can see.
type Result struct {
	Name   string
	Config map[string]string // every configuration key (file and internal)
	Meas   []Meas
}

// Extract returns the value of a non-.unit key.
func Extract(r *Result, key string) string {
	switch {
	case key == ".name":
		b, _ := refbench.SplitName(r.Name)
		return b
	case key == ".fullname":
		return r.Name
	case strings.HasPrefix(key, "/"):
		return refbench.NameKey(r.Name, key[1:])
	}
	return r.Config[key]
}

func (t Term) matches(s string) bool {
	if t.Re != "" {
		return regexp.MustCompile(t.Re).MatchString(s)
	}
	return t.Lit == s
}

// Eval evaluates n for measurement i of r.
func Eval(n *Node, r *Result, i int) bool {
	switch n.Op {
	case "true":
		return true
	case "not":
		return !Eval(n.Kids[0], r, i)
	case "and":
		for _, k := range n.Kids {
			if !Eval(k, r, i) {
				return false
			}
		}
		return true
	case "or":
		for _, k := range n.Kids {
			if Eval(k, r, i) {
				return true
			}
		}
		return false
	case "match", "list":
		for _, t := range n.Vals {
			if n.Key == ".unit" {
				m := r.Meas[i]
				if t.matches(m.Unit) || (m.OrigUnit != "" && t.matches(m.OrigUnit)) {
					return true
				}
			} else if t.matches(Extract(r, n.Key)) {
				return true
			}
		}
		return false
	}
	panic("bad node " + n.Op)
}

// Stats describes a tree (for non-triviality rules).
type Stats struct {
	Ops, UnitLeaves, WholeLeaves, Nots, Lists, Regexps int
}

func (n *Node) Stats(s *Stats) {
	switch n.Op {
	case "and", "or":
		s.Ops++
	case "not":
		s.Ops++
		s.Nots++
	case "list":
		s.Lists++
		fallthrough
	case "match":
		if n.Key == ".unit" {
			s.UnitLeaves++
		} else {
			s.WholeLeaves++
		}
		for _, t := range n.Vals {
			if t.Re != "" {
				s.Regexps++
			}
		}
	}
	for _, k := range n.Kids {
		k.Stats(s)
	}
}

// BareOK reports whether s can be written as an unquoted word per the
// documented grammar bareWord = [^-*"():@,][^ ():@,]* — conservatively also
// excluding any Unicode white space, the reserved words AND/OR, and (in value
// position) a leading '/' which introduces a regexp.
func BareOK(s string, valuePos bool) bool {
	if s == "" || s == "AND" || s == "OR" {
		return false
	}
	for i, r := range s {
		if unicode.IsSpace(r) || strings.ContainsRune("():@,", r) {
			return false
		}
		if i == 0 && strings.ContainsRune(`-*"`, r) {
			return false
		}
	}
	if valuePos && s[0] == '/' {
		return false
	}
	return true
}

// Word renders s as a word: bare when allowed and chosen, else a
// double-quoted Go string literal.
func Word(t *rapid.T, s string, valuePos bool) string {
	if BareOK(s, valuePos) && rapid.IntRange(0, 3).Draw(t, "bare") != 0 {
		return s
	}
	return strconv.Quote(s)
}

func term(t *rapid.T, x Term) string {
	if x.Re != "" {
		return "/" + x.Re + "/"
	}
	return Word(t, x.Lit, true)
}

// Print renders n in the documented concrete syntax with random but
// meaning-preserving choices (AND vs juxtaposition, redundant parentheses,
// list abbreviation vs expanded disjunction, quoting).
func Print(t *rapid.T, n *Node) string { return printPrec(t, n, 0) }

// prec: 0 = expr (OR level), 1 = andExpr operand list, 2 = match (operand of '-')
func printPrec(t *rapid.T, n *Node, prec int) string {
	paren := func(s string, need bool) string {
		if need || rapid.IntRange(0, 7).Draw(t, "redundantparen") == 7 {
			return "(" + s + ")"
		}
		return s
	}
	switch n.Op {
	case "true":
		return paren("*", false)
	case "not":
		return paren("-"+printPrec(t, n.Kids[0], 2), false)
	case "and":
		if len(n.Kids) == 0 {
			return "*"
		}
		var parts []string
		for _, k := range n.Kids {
			parts = append(parts, printPrec(t, k, 1))
		}
		sep := " "
		var sb strings.Builder
		for i, p := range parts {
			if i > 0 {
				if rapid.Bool().Draw(t, "andword") {
					sep = " AND "
				} else {
					sep = rapid.SampledFrom([]string{" ", "  ", "\t", " ", " ", "\u00a0", "\u2003", " \u0085"}).Draw(t, "juxta")
					if strings.HasSuffix(parts[i-1], "/") && sep[0] >= 0x80 {
						// the documentation requires "space or an operator" after a regexp;
						// only ASCII space is certain to qualify
						sep = " "
					}
				}
				sb.WriteString(sep)
			}
			sb.WriteString(p)
		}
		return paren(sb.String(), prec >= 2 && len(parts) > 1 || prec >= 2)
	case "or":
		var parts []string
		for _, k := range n.Kids {
			parts = append(parts, printPrec(t, k, 0+boolToInt(k.Op == "or")))
		}
		s := strings.Join(parts, " OR ")
		return paren(s, prec >= 1)
	case "match":
		return paren(Word(t, n.Key, false)+":"+term(t, n.Vals[0]), false)
	case "list":
		if rapid.Bool().Draw(t, "abbrev") {
			var vs []string
			for _, v := range n.Vals {
				vs = append(vs, term(t, v))
			}
			return paren(Word(t, n.Key, false)+":("+strings.Join(vs, " OR ")+")", false)
		}
		var vs []string
		for _, v := range n.Vals {
			vs = append(vs, Word(t, n.Key, false)+":"+term(t, v))
		}
		return "(" + strings.Join(vs, " OR ") + ")"
	}
	panic("bad node")
}

func boolToInt(b bool) int {
	if b {
		return 1
	}
	return 0
}
