// Package vcase is the plumbing shared by every check: verdicts, evidence
// counters, replay files, known-finding bookkeeping. It imports nothing from
// golang/perf.
package vcase

import (
	"encoding/binary"
	"encoding/json"
	"fmt"
	"hash/fnv"
	"os"
	"path/filepath"
	"runtime"
	"runtime/debug"
	"sort"
	"strconv"
	"strings"
	"sync"
	"syscall"
	"testing"
	"time"

	"pgregory.net/rapid"
)

// Verdict is what a pure Check function returns for one case.
type Verdict struct {
	// Poisoned: the violation left a goroutine of the code under test spinning for ever; the
	// process reports this case as it is (no shrinking) and stops.
	Poisoned bool
	// Violation is non-empty when the property is violated by this case in a
	// way no listed known finding explains.
	Violation string
	// Known lists the ids of known findings (e.g. "C11-a") whose signature
	// this case matched. The case is then counted, not reported.
	Known []string
	// NonTrivial says whether the case is non-trivial by the property's rule.
	NonTrivial bool
	// Labels classify the case for the distribution histogram.
	Labels []string
	// Sub counts inner evaluations (e.g. pairs compared) for information.
	Sub int
}

func (v *Verdict) Failf(format string, a ...interface{}) {
	if v.Violation == "" {
		v.Violation = fmt.Sprintf(format, a...)
	}
}

func (v *Verdict) Label(l string) {
	for _, x := range v.Labels {
		if x == l {
			return
		}
	}
	v.Labels = append(v.Labels, l)
}

func (v *Verdict) KnownHit(id string) {
	for _, x := range v.Known {
		if x == id {
			return
		}
	}
	v.Known = append(v.Known, id)
}

// ---------------------------------------------------------------------------

type knownFile struct {
	Findings []struct {
		ID       string `json:"id"`
		Property string `json:"property"`
		Status   string `json:"status"` // "known" or "fixed"
		What     string `json:"what"`
	} `json:"findings"`
}

var (
	knownOnce sync.Once
	knownOpen map[string]bool // ids with status "known"
)

// KnownListed reports whether finding id is listed as an open known finding.
// Checks must only book a case under a finding that is listed; otherwise the
// deviation is a violation.
func KnownListed(id string) bool {
	knownOnce.Do(func() {
		knownOpen = map[string]bool{}
		path := os.Getenv("VERIF_KNOWN")
		if path == "" {
			path = "/verif/known_findings.json"
		}
		b, err := os.ReadFile(path)
		if err != nil {
			return
		}
		var kf knownFile
		if json.Unmarshal(b, &kf) != nil {
			return
		}
		for _, f := range kf.Findings {
			if f.Status == "known" {
				knownOpen[f.ID] = true
			}
		}
	})
	return knownOpen[id]
}

// ---------------------------------------------------------------------------

const hashCap = 300000
const sampleCap = 6

// Recorder accumulates evidence for one test unit in one process.
type Recorder struct {
	mu         sync.Mutex
	Property   string
	Unit       string
	start      time.Time
	evals      int
	sub        int
	nontrivEv  int
	hashes     map[uint64]struct{}
	hashCapped bool
	labels     map[string]int
	known      map[string]int
	samples    []json.RawMessage
	ntSeen     int
	violations int
	lastFail   json.RawMessage
	lastMsg    string
	exhaustive bool
	extra      map[string]interface{}
}

func NewRecorder(property, unit string) *Recorder {
	return &Recorder{Property: property, Unit: unit, start: time.Now(),
		hashes: map[uint64]struct{}{}, labels: map[string]int{}, known: map[string]int{},
		extra: map[string]interface{}{}}
}

func (r *Recorder) SetExhaustive(b bool) { r.mu.Lock(); r.exhaustive = b; r.mu.Unlock() }
func (r *Recorder) SetExtra(k string, v interface{}) {
	r.mu.Lock()
	r.extra[k] = v
	r.mu.Unlock()
}

func hashBytes(b []byte) uint64 {
	h := fnv.New64a()
	h.Write(b)
	return h.Sum64()
}

// Record books one evaluated case. c is marshalled to JSON lazily: always for
// failing cases, and for non-trivial cases (hash + samples).
func (r *Recorder) Record(c interface{}, v Verdict) {
	r.mu.Lock()
	defer r.mu.Unlock()
	r.evals++
	r.sub += v.Sub
	for _, l := range v.Labels {
		r.labels[l]++
	}
	for _, k := range v.Known {
		r.known[k]++
	}
	var js []byte
	if v.NonTrivial || v.Violation != "" {
		js, _ = json.Marshal(c)
	}
	if v.NonTrivial {
		r.nontrivEv++
		if len(r.hashes) < hashCap {
			r.hashes[hashBytes(js)] = struct{}{}
		} else {
			r.hashCapped = true
		}
		r.ntSeen++
		// first few, then sparse later ones (deterministic: positions 2^k)
		if len(js) < 6000 {
			if len(r.samples) < sampleCap/2 {
				r.samples = append(r.samples, js)
			} else if r.ntSeen&(r.ntSeen-1) == 0 {
				if len(r.samples) < sampleCap {
					r.samples = append(r.samples, js)
				} else {
					r.samples[sampleCap/2+(bitlen(r.ntSeen)%(sampleCap-sampleCap/2))] = js
				}
			}
		}
	}
	if v.Violation != "" {
		r.violations++
		r.lastFail = js
		r.lastMsg = v.Violation
	}
}

func bitlen(n int) int {
	k := 0
	for n > 0 {
		n >>= 1
		k++
	}
	return k
}

type partial struct {
	Property    string                 `json:"property"`
	Unit        string                 `json:"unit"`
	Shard       int                    `json:"shard"`
	Evaluations int                    `json:"evaluations"`
	Sub         int                    `json:"sub_evaluations"`
	NonTrivEv   int                    `json:"nontrivial_evaluations"`
	HashFile    string                 `json:"hash_file"`
	HashCapped  bool                   `json:"hash_capped"`
	Labels      map[string]int         `json:"labels"`
	Known       map[string]int         `json:"known_finding_hits"`
	Samples     []json.RawMessage      `json:"samples"`
	Violations  int                    `json:"violations"`
	Replay      string                 `json:"replay,omitempty"`
	Message     string                 `json:"message,omitempty"`
	Exhaustive  bool                   `json:"exhaustive"`
	WallS       float64                `json:"wall_s"`
	Extra       map[string]interface{} `json:"extra,omitempty"`
}

// ReplayFile is the format of files under /verif/replay.
type ReplayFile struct {
	Property  string          `json:"property"`
	Unit      string          `json:"unit"`
	Case      json.RawMessage `json:"case"`
	Violation string          `json:"violation"`
}

// Flush writes the partial evidence file (and the replay file if a violation
// was seen). Called from a defer in the test function.
func (r *Recorder) Flush() {
	r.mu.Lock()
	defer r.mu.Unlock()
	out := os.Getenv("VERIF_OUT")
	if out == "" {
		return
	}
	shard, _ := strconv.Atoi(os.Getenv("VERIF_SHARD"))
	base := fmt.Sprintf("%s.%s.%d", r.Property, r.Unit, shard)
	p := partial{Property: r.Property, Unit: r.Unit, Shard: shard, Evaluations: r.evals, Sub: r.sub,
		NonTrivEv: r.nontrivEv, HashCapped: r.hashCapped, Labels: r.labels, Known: r.known,
		Samples: r.samples, Violations: r.violations, Message: r.lastMsg, Exhaustive: r.exhaustive,
		WallS: time.Since(r.start).Seconds(), Extra: r.extra}
	hs := make([]uint64, 0, len(r.hashes))
	for h := range r.hashes {
		hs = append(hs, h)
	}
	sort.Slice(hs, func(i, j int) bool { return hs[i] < hs[j] })
	buf := make([]byte, 8*len(hs))
	for i, h := range hs {
		binary.LittleEndian.PutUint64(buf[8*i:], h)
	}
	p.HashFile = filepath.Join(out, base+".hashes")
	os.WriteFile(p.HashFile, buf, 0o644)
	if r.violations > 0 {
		rdir := os.Getenv("VERIF_REPLAY_DIR")
		if rdir == "" {
			rdir = filepath.Join(out, "replay")
		}
		os.MkdirAll(rdir, 0o755)
		rf := ReplayFile{Property: r.Property, Unit: r.Unit, Case: r.lastFail, Violation: r.lastMsg}
		b, _ := json.MarshalIndent(rf, "", " ")
		name := fmt.Sprintf("%s-%s-seed%s-%016x.json", r.Property, r.Unit, os.Getenv("VERIF_SEED"), hashBytes(r.lastFail))
		p.Replay = filepath.Join(rdir, name)
		os.WriteFile(p.Replay, b, 0o644)
	}
	b, _ := json.MarshalIndent(p, "", " ")
	os.WriteFile(filepath.Join(out, base+".partial.json"), b, 0o644)
}

// ---------------------------------------------------------------------------

// Guard runs check(c), turning a panic into a violation. The check runs under
// the CPU-time watchdog: code under test that loops for ever (every check
// costs milliseconds to a few seconds of CPU) becomes a violation too, and the
// process then stops, because the stuck goroutine cannot be taken back.
func Guard[C any](check func(C) Verdict, c C) Verdict {
	var v Verdict
	pmsg, hung := Watchdog(guardBudget, func() { v = check(c) })
	if hung {
		if HungReason != "" {
			return Verdict{Violation: "the code under test did not return: " + HungReason, Poisoned: true}
		}
		return Verdict{Violation: fmt.Sprintf("the code under test did not return: the check used more than %v of CPU time (or 30 minutes of wall-clock time) on this one case", guardBudget), Poisoned: true}
	}
	if pmsg != "" {
		v.Violation = pmsg
	}
	return v
}

const guardBudget = 120 * time.Second

// Shard returns (shard, nshards) from the environment.
func Shard() (int, int) {
	s, _ := strconv.Atoi(os.Getenv("VERIF_SHARD"))
	n, _ := strconv.Atoi(os.Getenv("VERIF_NSHARDS"))
	if n <= 0 {
		n = 1
	}
	return s, n
}

// Thorough reports whether the thorough tier was requested.
func Thorough() bool { return os.Getenv("VERIF_TIER") == "thorough" }

// Scale returns q in the quick tier and th in the thorough tier.
func Scale(q, th int) int {
	if Thorough() {
		return th
	}
	return q
}

// replayPath returns the replay file for this unit, or "".
func replayCase(property, unit string) (json.RawMessage, bool) {
	path := os.Getenv("VERIF_REPLAY")
	if path == "" {
		return nil, false
	}
	b, err := os.ReadFile(path)
	if err != nil {
		fmt.Printf("VERIF-BROKEN cannot read replay file: %v\n", err)
		os.Exit(2)
	}
	var rf ReplayFile
	if err := json.Unmarshal(b, &rf); err != nil {
		fmt.Printf("VERIF-BROKEN bad replay file: %v\n", err)
		os.Exit(2)
	}
	if rf.Property != property || rf.Unit != unit {
		return nil, false
	}
	return rf.Case, true
}

// traceCase writes the case about to be checked to the file named by
// VERIF_TRACE_CASE (a replay file). The driver sets that variable when it
// re-runs a worker whose process died (a panic in a goroutine of the code
// under test cannot be recovered by the check): the file then holds the case
// that killed it.
func traceCase[C any](property, unit string, c C) {
	path := os.Getenv("VERIF_TRACE_CASE")
	if path == "" {
		return
	}
	raw, err := json.Marshal(c)
	if err != nil {
		return
	}
	b, _ := json.Marshal(ReplayFile{Property: property, Unit: unit, Case: raw})
	os.WriteFile(path, b, 0o644)
}

// Run is the standard rapid-driven unit: generate, check, record. When
// VERIF_REPLAY names a replay file for this unit, rapid is bypassed and only
// that case is checked.
func Run[C any](t *testing.T, property, unit string, gen func(*rapid.T) C, check func(C) Verdict) {
	rec := NewRecorder(property, unit)
	defer rec.Flush()
	if os.Getenv("VERIF_REPLAY") != "" {
		raw, ok := replayCase(property, unit)
		if !ok {
			t.Skip("replay file is for another unit")
		}
		var c C
		if err := json.Unmarshal(raw, &c); err != nil {
			t.Fatalf("VERIF-BROKEN cannot decode case: %v", err)
		}
		v := Guard(check, c)
		rec.Record(c, v)
		if v.Violation != "" {
			t.Fatalf("violation reproduced: %s", v.Violation)
		}
		t.Logf("replayed case does not violate the property (known=%v)", v.Known)
		return
	}
	rapid.Check(t, func(rt *rapid.T) {
		c := gen(rt)
		traceCase(property, unit, c)
		v := Guard(check, c)
		rec.Record(c, v)
		if v.Violation != "" && v.Poisoned {
			rec.Flush()
			js, _ := json.Marshal(c)
			fmt.Printf("--- FAIL: %s/%s: %s\ncase (not shrunk, the process is poisoned): %s\n", property, unit, v.Violation, trunc(string(js), 4000))
			os.Exit(1)
		}
		if v.Violation != "" {
			js, _ := json.Marshal(c)
			rt.Fatalf("%s\ncase: %s", v.Violation, trunc(string(js), 4000))
		}
	})
}

// Enum is the standard deterministic-enumeration unit. enum must call yield
// for every case of this process's shard; it stops early when yield returns
// false. exhaustive says whether the union over shards covers a finite space
// completely.
func Enum[C any](t *testing.T, property, unit string, exhaustive bool, enum func(yield func(C) bool), check func(C) Verdict) {
	rec := NewRecorder(property, unit)
	rec.SetExhaustive(exhaustive)
	defer rec.Flush()
	if os.Getenv("VERIF_REPLAY") != "" {
		raw, ok := replayCase(property, unit)
		if !ok {
			t.Skip("replay file is for another unit")
		}
		var c C
		if err := json.Unmarshal(raw, &c); err != nil {
			t.Fatalf("VERIF-BROKEN cannot decode case: %v", err)
		}
		v := Guard(check, c)
		rec.Record(c, v)
		if v.Violation != "" {
			t.Fatalf("violation reproduced: %s", v.Violation)
		}
		return
	}
	var best *C // smallest failing case by JSON length (enumeration order is small-first anyway)
	bestLen := 0
	bestMsg := ""
	nfail := 0
	enum(func(c C) bool {
		traceCase(property, unit, c)
		v := Guard(check, c)
		if v.Violation != "" && v.Poisoned {
			rec.Record(c, v)
			rec.Flush()
			js, _ := json.Marshal(c)
			fmt.Printf("--- FAIL: %s/%s: %s\ncase (the process is poisoned): %s\n", property, unit, v.Violation, trunc(string(js), 4000))
			os.Exit(1)
		}
		if v.Violation != "" {
			js, _ := json.Marshal(c)
			if best == nil || len(js) < bestLen {
				cc := c
				best, bestLen, bestMsg = &cc, len(js), v.Violation
			}
			nfail++
			// do not record every failure as "last"; handled below
			v2 := v
			v2.Violation = ""
			rec.Record(c, v2)
			return nfail < 50
		}
		rec.Record(c, v)
		return true
	})
	if best != nil {
		rec.Record(*best, Verdict{Violation: bestMsg})
		js, _ := json.Marshal(*best)
		t.Fatalf("%s (and %d more failing cases)\ncase: %s", bestMsg, nfail-1, trunc(string(js), 4000))
	}
}

func trunc(s string, n int) string {
	if len(s) > n {
		return s[:n] + "…"
	}
	return s
}

// Seed returns VERIF_SEED (default 1).
func Seed() int64 {
	s, err := strconv.ParseInt(os.Getenv("VERIF_SEED"), 10, 64)
	if err != nil {
		return 1
	}
	return s
}

// ScratchDir returns a fresh scratch directory under VERIF_TMP (or the OS
// temp dir) and a cleanup function.
func ScratchDir(prefix string) (string, func()) {
	base := os.Getenv("VERIF_TMP")
	if base != "" {
		os.MkdirAll(base, 0o755)
	}
	d, err := os.MkdirTemp(base, prefix)
	if err != nil {
		panic(err)
	}
	return d, func() { os.RemoveAll(d) }
}

// JoinLabels is a helper for diagnostics.
func JoinLabels(ls []string) string { return strings.Join(ls, ",") }

// Watchdog runs f in its own goroutine and reports the recovered panic (with
// stack) if f panicked, and whether f is taken to run for ever. The budget is
// counted in CPU time of this process, not in wall-clock time: a case that is
// merely starved on a busy machine does not burn CPU and is waited for, while
// code stuck in a loop does. (The processes that use the watchdog run one case
// at a time, so the process's CPU time is the case's.) The budget is a
// liveness bound several orders of magnitude above the normal cost, never a
// performance assertion. Independently of CPU time, f is given up after 30
// minutes of wall-clock time.
func Watchdog(budget time.Duration, f func()) (panicMsg string, hung bool) {
	done := make(chan string, 1)
	go func() {
		defer func() {
			if e := recover(); e != nil {
				st := string(debug.Stack())
				if len(st) > 3000 {
					st = st[:3000]
				}
				done <- fmt.Sprintf("panic: %v\n%s", e, st)
				return
			}
			done <- ""
		}()
		f()
	}()
	cpu0, start := processCPU(), time.Now()
	tick := time.NewTicker(200 * time.Millisecond)
	defer tick.Stop()
	for {
		select {
		case m := <-done:
			return m, false
		case <-tick.C:
			if processCPU()-cpu0 > budget || time.Since(start) > 30*time.Minute {
				return "", true
			}
			// memory obtained from the system: a case that makes the code under test allocate
			// without bound is given up long before the machine suffers
			var ms runtime.MemStats
			runtime.ReadMemStats(&ms)
			if ms.Sys > memLimit() {
				HungReason = fmt.Sprintf("the process holds %d MiB of memory (limit %d MiB): unbounded allocation", ms.Sys>>20, memLimit()>>20)
				return "", true
			}
		}
	}
}

// HungReason says why the last Watchdog gave up, when it was not CPU or wall-clock time.
var HungReason string

// memLimit is the amount of memory (runtime.MemStats.Sys) beyond which a case is given up:
// 6 GiB, or VERIF_MEM_LIMIT_MB. Ordinary cases stay below a few hundred MiB.
func memLimit() uint64 {
	if mb, err := strconv.Atoi(os.Getenv("VERIF_MEM_LIMIT_MB")); err == nil && mb > 0 {
		return uint64(mb) << 20
	}
	return 6 << 30
}

// processCPU returns the user+system CPU time consumed by this process so far.
func processCPU() time.Duration {
	var ru syscall.Rusage
	if err := syscall.Getrusage(syscall.RUSAGE_SELF, &ru); err != nil {
		return 0
	}
	return time.Duration(ru.Utime.Nano() + ru.Stime.Nano())
}

// OneIn draws a boolean that is true roughly once in n draws. rapid's integer
// generators are heavily biased towards small values and range ends (0 comes
// up ~10% of the time in IntRange(0,150)), so rare features are keyed to a
// mid-range value; shrinking (towards 0) then switches the feature off.
func OneIn(t *rapid.T, n int, label string) bool {
	if n <= 1 {
		return true
	}
	if n < 8 {
		return rapid.IntRange(0, n-1).Draw(t, label) == n-1
	}
	return rapid.IntRange(0, n/2).Draw(t, label) == n/4+1
}

// OneIn2 is a deterministic coin derived from n (for choices that need not
// be random but should vary between cases).
func OneIn2(n int) bool { return n%2 == 0 }
