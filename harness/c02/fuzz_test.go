package c02

import (
	"strings"
	"testing"
)

// FuzzC02 (thorough tier): coverage-guided search over whole input texts with
// the reference-interpreter differential inside the target.
func FuzzC02(f *testing.F) {
	seeds := []string{
		"goos: linux\npkg: x\nBenchmarkA-8 10 5 ns/op 3 MB/s\nBenchmarkB 1 2 B/op\n",
		"Unit ns/op better=lower\nUnit MB/s assume=exact\nBenchmarkX 1 1 ns/op\nUnit sec/op better=higher\n",
		"k: v\nBenchmarkX 1 1 u\nk:\nBenchmarkX 1 1 u\nk: \nBenchmarkY 2 2 u\r\n",
		"Benchmark\nBenchmark \nBenchmarkX\nBenchmarkX 1\nBenchmarkX 1 2\nBenchmarkX x 2 u\nBenchmarkX 1 2 u 3\n",
		"Key: v\nkEy: v\nkey : v\n\xff: v\nk\xffy: v\nключ: v\nUnitx a=b\nUnit\nUnit u =x\nUnit u k=\n",
		"a: 1\r\r\nBenchmarkX 1 1 u\n",
	}
	for _, s := range seeds {
		f.Add([]byte(s))
	}
	f.Fuzz(func(t *testing.T, data []byte) {
		text := string(data)
		for _, l := range strings.Split(text, "\n") {
			if len(l) > 60000 {
				return
			}
		}
		if len(text) > 200000 {
			return
		}
		c := Case{TextsHex: []string{hexs(text)}, Mode: "reader"}
		if v := Check(c); v.Violation != "" {
			t.Fatalf("VERIF-VIOLATION C02: %s", v.Violation)
		}
	})
}
