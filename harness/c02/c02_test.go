// Package c02: the reader follows the format's line and scoping rules on
// every input. Oracle: the independent line interpreter in lib/refbench.
package c02

import (
	"fmt"
	"io"
	"math"
	"os"
	"path/filepath"
	"sort"
	"strings"
	"testing"
	"time"

	"golang.org/x/perf/benchfmt"
	"pgregory.net/rapid"
	"verif/harness/lib/genbench"
	"verif/harness/lib/refbench"
	"verif/harness/lib/vcase"
)

type Case struct {
	TextsHex  []string // one or more input texts (hex of the bytes)
	Mode      string   // "reader", "reset" (one Reader re-Reset per text), "files"
	Paths     []int    // files mode: index of the text each path refers to (duplicates allowed)
	Labels    []string // files mode: label for path i ("" = none)
	StopAfter []int    // reset mode: input i is abandoned after StopAfter[i]-1 records (0 = read to the end), then Reset
	NoLabels  bool     // files mode: Files.AllowLabels is false (library use); paths are taken whole
	EqNames   bool     // files mode: the file names contain '='
	Preview   string   // first text, for the human reader only
	// FailAfter[i] > 0: in reset mode, input i is delivered by a reader that
	// returns an I/O error after that many bytes (or, if -1, contains a line of
	// 70000 bytes, beyond the scanner's limit). The next input must read normally.
	FailAfter []int `json:",omitempty"`
}

type failingReader struct {
	data []byte
	n    int
}

func (f *failingReader) Read(p []byte) (int, error) {
	if f.n <= 0 {
		return 0, fmt.Errorf("injected I/O error")
	}
	k := len(p)
	if k > f.n {
		k = f.n
	}
	if k > len(f.data) {
		k = len(f.data)
	}
	copy(p, f.data[:k])
	f.data = f.data[k:]
	f.n -= k
	if k == 0 {
		return 0, fmt.Errorf("injected I/O error")
	}
	return k, nil
}

func hexs(s string) string { return fmt.Sprintf("%x", s) }
func unhex(h string) string {
	if h == "" {
		return ""
	}
	var b []byte
	fmt.Sscanf(h, "%x", &b)
	return string(b)
}

// got is a reader record converted to plain data at the moment it was produced.
type got struct {
	kind   string
	file   string
	line   int
	name   string
	iters  int
	values []benchfmt.Value
	fcfg   map[string]string // file config
	icfg   map[string]string // internal config
	unit   refbench.UnitMeta
	clone  *benchfmt.Result
}

func snapshot(rec benchfmt.Record) got {
	var g got
	g.file, g.line = rec.Pos()
	switch rec := rec.(type) {
	case *benchfmt.Result:
		g.kind = "result"
		g.name = string(rec.Name)
		g.iters = rec.Iters
		g.values = append([]benchfmt.Value(nil), rec.Values...)
		g.fcfg, g.icfg = map[string]string{}, map[string]string{}
		for _, c := range rec.Config {
			if c.File {
				g.fcfg[c.Key] = string(c.Value)
			} else {
				g.icfg[c.Key] = string(c.Value)
			}
		}
		g.clone = rec.Clone()
	case *benchfmt.UnitMetadata:
		g.kind = "unit"
		g.unit = refbench.UnitMeta{Unit: rec.Unit, OrigUnit: rec.OrigUnit, Key: rec.Key, Value: rec.Value}
	case *benchfmt.SyntaxError:
		g.kind = "error"
	default:
		g.kind = fmt.Sprintf("%T", rec)
	}
	return g
}

func mapsEqual(a, b map[string]string) bool {
	if len(a) != len(b) {
		return false
	}
	for k, v := range a {
		if w, ok := b[k]; !ok || w != v {
			return false
		}
	}
	return true
}

func fmtMap(m map[string]string) string {
	var ks []string
	for k := range m {
		ks = append(ks, k)
	}
	sort.Strings(ks)
	var sb strings.Builder
	for _, k := range ks {
		fmt.Fprintf(&sb, "%q=%q ", k, m[k])
	}
	return sb.String()
}

func valuesEqual(a []benchfmt.Value, b []refbench.Value) string {
	if len(a) != len(b) {
		return fmt.Sprintf("%d values, want %d", len(a), len(b))
	}
	for i := range a {
		x, y := a[i], b[i]
		_, _, n := refbench.TidyUnit(y.OrigUnit)
		if x.Unit != y.Unit || x.OrigUnit != y.OrigUnit || refbench.UlpDiff(x.Value, y.Value) > uint64(n+2) ||
			(y.OrigUnit != "" && refbench.UlpDiff(x.OrigValue, y.OrigValue) != 0) {
			return fmt.Sprintf("value %d = {%v %q orig %v %q}, want {%v %q orig %v %q}", i, x.Value, x.Unit, x.OrigValue, x.OrigUnit, y.Value, y.Unit, y.OrigValue, y.OrigUnit)
		}
	}
	return ""
}

// compare checks the records of one file against the reference records.
// Errors are compared per line (a line has an error or not); results and
// unit records must agree exactly and in order.
func compare(file string, gots []got, want []refbench.Record, wantInternal map[string]string) string {
	type lineAgg struct {
		results []int
		units   []int
		err     bool
	}
	agg := func(n int, kind func(i int) (string, int)) (map[int]*lineAgg, []int) {
		m := map[int]*lineAgg{}
		var order []int
		for i := 0; i < n; i++ {
			k, ln := kind(i)
			a := m[ln]
			if a == nil {
				a = &lineAgg{}
				m[ln] = a
				order = append(order, ln)
			}
			switch k {
			case "result":
				a.results = append(a.results, i)
			case "unit":
				a.units = append(a.units, i)
			case "error":
				a.err = true
			default:
				a.results = append(a.results, -1)
			}
		}
		return m, order
	}
	gm, gorder := agg(len(gots), func(i int) (string, int) { return gots[i].kind, gots[i].line })
	wm, worder := agg(len(want), func(i int) (string, int) { return want[i].Kind, want[i].Line })
	if fmt.Sprint(gorder) != fmt.Sprint(worder) {
		return fmt.Sprintf("%s: records produced for lines %v, reference %v", file, gorder, worder)
	}
	for _, g := range gots {
		if g.file != file {
			return fmt.Sprintf("record at line %d reports file %q, want %q", g.line, g.file, file)
		}
	}
	for _, ln := range worder {
		ga, wa := gm[ln], wm[ln]
		if ga.err != wa.err {
			return fmt.Sprintf("%s:%d: syntax error reported=%v, reference=%v", file, ln, ga.err, wa.err)
		}
		if len(ga.results) != len(wa.results) || len(ga.units) != len(wa.units) {
			return fmt.Sprintf("%s:%d: %d results and %d unit records, reference %d and %d", file, ln, len(ga.results), len(ga.units), len(wa.results), len(wa.units))
		}
		for i := range wa.results {
			if ga.results[i] < 0 {
				return fmt.Sprintf("%s:%d: unknown record type", file, ln)
			}
			g, w := gots[ga.results[i]], want[wa.results[i]].Result
			if g.name != w.Name || g.iters != w.Iters {
				return fmt.Sprintf("%s:%d: name/iters %q %d, reference %q %d", file, ln, g.name, g.iters, w.Name, w.Iters)
			}
			if msg := valuesEqual(g.values, w.Values); msg != "" {
				return fmt.Sprintf("%s:%d: %s", file, ln, msg)
			}
			if !mapsEqual(g.fcfg, w.Config) {
				return fmt.Sprintf("%s:%d: file configuration {%s}, reference {%s}", file, ln, fmtMap(g.fcfg), fmtMap(w.Config))
			}
			wi := map[string]string{}
			for k, v := range wantInternal {
				if !w.Touched[k] {
					wi[k] = v
				}
			}
			if !mapsEqual(g.icfg, wi) {
				return fmt.Sprintf("%s:%d: tool-supplied configuration {%s}, want {%s} (labels %s; the file has touched %v)", file, ln, fmtMap(g.icfg), fmtMap(wi), fmtMap(wantInternal), w.Touched)
			}
		}
		for i := range wa.units {
			g, w := gots[ga.units[i]].unit, *want[wa.units[i]].Unit
			if g != w {
				return fmt.Sprintf("%s:%d: unit metadata %+v, reference %+v", file, ln, g, w)
			}
		}
	}
	return ""
}

// clonesIntact verifies that every clone still equals the snapshot taken
// when it was produced.
func clonesIntact(gots []got) string {
	for _, g := range gots {
		if g.kind != "result" {
			continue
		}
		now := snapshot(g.clone)
		if now.name != g.name || now.iters != g.iters || !mapsEqual(now.fcfg, g.fcfg) || !mapsEqual(now.icfg, g.icfg) || len(now.values) != len(g.values) || now.line != g.line || now.file != g.file {
			return fmt.Sprintf("clone of the result at line %d changed while reading continued", g.line)
		}
		for i := range now.values {
			a, b := now.values[i], g.values[i]
			if a.Unit != b.Unit || a.OrigUnit != b.OrigUnit || math.Float64bits(a.Value) != math.Float64bits(b.Value) || math.Float64bits(a.OrigValue) != math.Float64bits(b.OrigValue) {
				return fmt.Sprintf("clone of the result at line %d: value %d changed", g.line, i)
			}
		}
	}
	return ""
}

func unitsEqual(um benchfmt.UnitMetadataMap, ref refbench.Units) string {
	if len(um) != len(ref) {
		return fmt.Sprintf("Units() has %d entries, reference %d", len(um), len(ref))
	}
	for k, w := range ref {
		g := um[benchfmt.UnitMetadataKey{Unit: k[0], Key: k[1]}]
		if g == nil || g.Value != w.Value || g.OrigUnit != w.OrigUnit || g.Unit != w.Unit || g.Key != w.Key {
			return fmt.Sprintf("Units()[%q,%q] = %+v, reference %+v", k[0], k[1], g, w)
		}
	}
	return ""
}

func labelText(v *vcase.Verdict, text string, recs []refbench.Record) {
	if strings.Contains(text, "\r\n") {
		v.Label("crlf")
	}
	if !refbench.ValidUTF8(text) {
		v.Label("invalid_utf8")
	}
	if strings.Contains(text, "key1030:") {
		v.Label("many_keys_evict")
	}
	nres, sawErr, errThenRes := 0, false, false
	var prev map[string]string
	changed := false
	for _, r := range recs {
		switch r.Kind {
		case "error":
			sawErr = true
			v.Label("syntax_error")
		case "unit":
			v.Label("unit_record")
		case "result":
			nres++
			if sawErr {
				errThenRes = true
			}
			if prev != nil {
				for k, pv := range prev {
					if nv, ok := r.Result.Config[k]; !ok {
						changed = true
						v.Label("delete_between_results")
					} else if nv != pv {
						changed = true
						v.Label("overwrite_between_results")
					}
				}
			}
			prev = r.Result.Config
		}
	}
	if nres >= 2 && (changed || errThenRes) {
		v.NonTrivial = true
	}
}

func Check(c Case) (v vcase.Verdict) {
	texts := make([]string, len(c.TextsHex))
	for i, h := range c.TextsHex {
		texts[i] = unhex(h)
	}
	if len(texts) == 0 {
		return
	}
	v.Label("mode=" + c.Mode)
	var fail string
	run := func() {
		switch c.Mode {
		case "files":
			fail = checkFiles(c, texts, &v)
		default:
			fail = checkReader(c, texts, &v)
		}
	}
	pmsg, hung := vcase.Watchdog(30*time.Second, run)
	switch {
	case hung:
		v.Poisoned = true
		v.Failf("reading did not terminate (30 s of CPU time) on %d bytes of input", len(texts[0]))
	case pmsg != "":
		v.Failf("%s", pmsg)
	case fail != "":
		v.Failf("%s", fail)
	}
	return
}

func checkReader(c Case, texts []string, v *vcase.Verdict) string {
	units := refbench.Units{}
	var r *benchfmt.Reader
	var all []got
	for i, text := range texts {
		fname := fmt.Sprintf("in%d.txt", i)
		internal := map[string]string{}
		var init []string
		if i%2 == 1 {
			// (goos=linux: a label that files often set themselves, to the same or another value;
			// once a file line sets it, it is file configuration)
			init = []string{".file", fname, "tool", "x y", "goos", "linux"}
			internal = map[string]string{".file": fname, "tool": "x y", "goos": "linux"}
		}
		if r == nil || c.Mode != "reset" {
			r = benchfmt.NewReader(strings.NewReader(text), fname)
			if len(init) > 0 {
				r.Reset(strings.NewReader(text), fname, init...)
			}
			if c.Mode != "reset" {
				units = refbench.Units{} // a fresh Reader starts without unit metadata
			}
		} else if i < len(c.FailAfter) && c.FailAfter[i] != 0 {
			// an input that ends in an I/O error: the reader must report it and must be
			// usable again after the next Reset
			var src io.Reader
			bad := "cpu: x\n" + strings.Repeat("BenchmarkF 1 1 u\n", 40)
			if c.FailAfter[i] < 0 {
				src = strings.NewReader(bad + "BenchmarkLong 1 1 " + strings.Repeat("x", 70000) + "\n" + bad)
			} else {
				src = &failingReader{data: []byte(bad), n: c.FailAfter[i]}
			}
			r.Reset(src, fname)
			n := 0
			for r.Scan() {
				if n++; n > 1000 {
					return "reader produces records without end on a failing input"
				}
				// every record delivered before the failure is a real one: the healthy part of
				// this input consists of "BenchmarkF 1 1 u" lines only
				switch rec := r.Result().(type) {
				case *benchfmt.Result:
					if string(rec.Name) != "F" || rec.Iters != 1 || len(rec.Values) != 1 || rec.Values[0].Value != 1 || rec.Values[0].Unit != "u" || rec.GetConfig("cpu") != "x" {
						return fmt.Sprintf("before the I/O error the reader delivered the result %q %d %v (config cpu=%q), which is not in the input", rec.Name, rec.Iters, rec.Values, rec.GetConfig("cpu"))
					}
				default:
					return fmt.Sprintf("before the I/O error the reader delivered a record %T (%v) that is not in the input", rec, rec)
				}
			}
			if r.Err() == nil {
				return "Err() is nil after the input failed with an I/O error"
			}
			if r.Scan() {
				return "Scan returned true again after it had returned false because of an I/O error"
			}
			v.Label("io_error_then_reset")
			continue
		} else {
			r.Reset(strings.NewReader(text), fname, init...)
		}
		if c.Mode == "reset" && i < len(c.StopAfter) && c.StopAfter[i] > 0 && i+1 < len(texts) {
			// The caller abandons this input after k records and resets the reader onto the
			// next one. What it saw must be the first k records; the reader has then parsed
			// exactly the lines up to the one the k-th record came from (unit metadata of
			// those lines counts), and nothing of this input may show up later.
			scratch := refbench.Units{} // (which records a Unit line yields depends on the metadata known so far)
			for uk, um := range units {
				cp := *um
				scratch[uk] = &cp
			}
			full := refbench.Read(text, scratch)
			k := c.StopAfter[i] - 1
			if k > len(full) {
				k = len(full)
			}
			upto := 0
			if k > 0 {
				upto = full[k-1].Line
			}
			prefix := text
			for pos, nl := 0, 0; pos < len(text); pos++ {
				if text[pos] == '\n' {
					if nl++; nl == upto {
						prefix = text[:pos+1]
						break
					}
				}
			}
			if upto == 0 {
				prefix = ""
			}
			want := refbench.Read(prefix, units)
			if len(want) < k {
				return "VERIF-BROKEN prefix has fewer records than consumed"
			}
			var gots []got
			for len(gots) < k && r.Scan() {
				gots = append(gots, snapshot(r.Result()))
			}
			if len(gots) != k {
				return fmt.Sprintf("%s: only %d of the first %d records", fname, len(gots), k)
			}
			if msg := compare(fname, gots, want[:k], internal); msg != "" {
				return msg
			}
			if k < len(want) {
				v.Label("abandoned_inside_a_line")
			}
			v.Label("abandoned_early_then_reset")
			all = append(all, gots...)
			continue
		}
		want := refbench.Read(text, units)
		labelText(v, text, want)
		var gots []got
		for r.Scan() {
			gots = append(gots, snapshot(r.Result()))
			if len(gots) > len(want)+10000 {
				return "reader produces records without end"
			}
		}
		if err := r.Err(); err != nil {
			return fmt.Sprintf("Err() = %v on an input without over-long lines", err)
		}
		if msg := compare(fname, gots, want, internal); msg != "" {
			return msg
		}
		if msg := unitsEqual(r.Units(), units); msg != "" {
			return msg
		}
		all = append(all, gots...)
		if r.Scan() {
			return "Scan returned true after it had returned false"
		}
	}
	if len(texts) > 1 {
		v.Label("multi_text")
	}
	return clonesIntact(all)
}

func checkFiles(c Case, texts []string, v *vcase.Verdict) string {
	dir, cleanup := vcase.ScratchDir("c02-")
	defer cleanup()
	var realPaths []string
	for i, text := range texts {
		p := filepath.Join(dir, fmt.Sprintf("f%d.txt", i))
		if c.EqNames {
			p = filepath.Join(dir, fmt.Sprintf("procs=%d.f%d.txt", i+1, i))
			v.Label("eq_in_file_name")
		}
		if err := os.WriteFile(p, []byte(text), 0o644); err != nil {
			return "VERIF-BROKEN " + err.Error()
		}
		realPaths = append(realPaths, p)
	}
	var args []string
	for i, ti := range c.Paths {
		if ti < 0 || ti >= len(texts) {
			return ""
		}
		p := realPaths[ti]
		if c.NoLabels {
			v.Label("labels_disabled")
		} else if i < len(c.Labels) && c.Labels[i] == "\x00empty" {
			p = "=" + p // an explicit empty label
			v.Label("empty_label")
		} else if i < len(c.Labels) && c.Labels[i] != "" {
			p = c.Labels[i] + "=" + p
			v.Label("labelled_path")
		} else if c.EqNames {
			p = "L=" + p // (an unlabelled path containing '=' would be split at it)
		}
		args = append(args, p)
	}
	if len(args) == 0 {
		return ""
	}
	labels, reals := refbench.FileLabels(args, !c.NoLabels)
	seen := map[string]bool{}
	for _, a := range args {
		if seen[a] {
			v.Label("dup_path")
		}
		seen[a] = true
	}
	v.Label("multi_file")
	files := &benchfmt.Files{Paths: args, AllowLabels: !c.NoLabels}
	units := refbench.Units{}
	var gots []got
	for files.Scan() {
		gots = append(gots, snapshot(files.Result()))
	}
	if err := files.Err(); err != nil {
		return fmt.Sprintf("Files.Err() = %v", err)
	}
	// split the records by file in order
	pos := 0
	for i := range args {
		text := texts[c.Paths[i]]
		want := refbench.Read(text, units)
		labelText(v, text, want)
		// Take the records that belong to this occurrence of the file: walk the
		// reference's sequence of record-bearing lines (line numbers restart
		// with every file, and the same path may follow itself).
		type cnt struct {
			line, res, unit, err int
		}
		var groups []*cnt
		for _, w := range want {
			if len(groups) == 0 || groups[len(groups)-1].line != w.Line {
				groups = append(groups, &cnt{line: w.Line})
			}
			g := groups[len(groups)-1]
			switch w.Kind {
			case "result":
				g.res++
			case "unit":
				g.unit++
			default:
				g.err++
			}
		}
		var mine []got
		for _, g := range groups {
		line:
			for pos < len(gots) && gots[pos].file == reals[i] && gots[pos].line == g.line {
				switch gots[pos].kind {
				case "result":
					if g.res == 0 {
						break line
					}
					g.res--
				case "unit":
					if g.unit == 0 {
						break line
					}
					g.unit--
				default:
					// (errors are attributed by the reference's count: the same
					// path may follow itself with the same line numbers)
					if g.err == 0 {
						break line
					}
					g.err--
				}
				mine = append(mine, gots[pos])
				pos++
			}
		}
		internal := map[string]string{".file": labels[i]}
		if labels[i] == "" {
			internal = map[string]string{} // an empty value is "not set", for tool-supplied keys too
		}
		if msg := compare(reals[i], mine, want, internal); msg != "" {
			return fmt.Sprintf("path %d (%s): %s", i, args[i], msg)
		}
	}
	if pos != len(gots) {
		return fmt.Sprintf("%d records left over after the last file", len(gots)-pos)
	}
	if msg := unitsEqual(files.Units(), units); msg != "" {
		return msg
	}
	return clonesIntact(gots)
}

func Gen(t *rapid.T) Case {
	var c Case
	switch rapid.IntRange(0, 9).Draw(t, "mode") {
	case 0:
		c.Mode = "reset"
	case 1:
		c.Mode = "files"
	default:
		c.Mode = "reader"
	}
	ntexts := 1
	if c.Mode != "reader" {
		ntexts = rapid.IntRange(1, 4).Draw(t, "ntexts")
	}
	maxLines := rapid.SampledFrom([]int{8, 20, 60}).Draw(t, "maxlines")
	for i := 0; i < ntexts; i++ {
		c.TextsHex = append(c.TextsHex, hexs(genbench.Text(t, maxLines, true)))
	}
	if c.Mode == "reset" && ntexts >= 2 && vcase.OneIn(t, 3, "ioerr") {
		c.FailAfter = make([]int, ntexts)
		// never the last input: something must be read after the failure; never the first
		// (the first input is read by a fresh Reader in this harness)
		if ntexts >= 3 {
			i := rapid.IntRange(1, ntexts-2).Draw(t, "failidx")
			c.FailAfter[i] = rapid.SampledFrom([]int{-1, 1, 10, 100, 300}).Draw(t, "failafter")
		}
	}
	if c.Mode == "reset" && ntexts >= 2 && c.FailAfter == nil && vcase.OneIn(t, 3, "stopearly") {
		c.StopAfter = make([]int, ntexts)
		for i := 0; i < ntexts-1; i++ {
			c.StopAfter[i] = rapid.IntRange(0, 9).Draw(t, "stopafter")
		}
	}
	if c.Mode == "files" {
		np := rapid.IntRange(1, 5).Draw(t, "npaths")
		for i := 0; i < np; i++ {
			c.Paths = append(c.Paths, rapid.IntRange(0, ntexts-1).Draw(t, "pathidx"))
			c.Labels = append(c.Labels, rapid.SampledFrom([]string{"", "", "", "old", "new", "x#0", "é", "\x00empty"}).Draw(t, "label"))
		}
		c.NoLabels = rapid.IntRange(0, 3).Draw(t, "nolabels") == 0
		c.EqNames = rapid.IntRange(0, 2).Draw(t, "eqnames") == 0
	}
	pv := unhex(c.TextsHex[0])
	if len(pv) > 300 {
		pv = pv[:300] + "…"
	}
	c.Preview = pv
	return c
}

func TestC02Rapid(t *testing.T) { vcase.Run(t, "C02", "rapid", Gen, Check) }
