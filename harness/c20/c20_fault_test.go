package c20

import (
	"bufio"
	"bytes"
	"context"
	"encoding/json"
	"fmt"
	"io"
	"strings"
	"sync"
	"testing"

	"golang.org/x/perf/storage"
	"pgregory.net/rapid"
	"verif/harness/lib/vcase"
)

func bufioReader(b []byte) *bufio.Reader { return bufio.NewReader(bytes.NewReader(b)) }

// extra checker state for the failed upload
type deadInfo struct {
	deadIDs []string
	deadTag string
}

func hasBench(f File) bool {
	for _, r := range f.Rows {
		if r.K == 0 {
			return true
		}
	}
	return false
}

func validUpload(u Upload) bool {
	if len(u.Files) < 1 {
		return false
	}
	for _, f := range u.Files {
		if !hasBench(f) || strings.ContainsAny(f.Name, "\"\r\n/\\") {
			return false
		}
		for _, r := range f.Rows {
			if strings.ContainsAny(r.A+r.B, "\r\n") || r.K < 0 || r.K > 3 {
				return false
			}
		}
	}
	return u.Via == "" || u.Via == "direct" || u.Via == "client"
}

func wellFormed(c Case) bool {
	if c.Store != "mem" && c.Store != "local" {
		return false
	}
	for _, h := range c.History {
		if !validUpload(h) {
			return false
		}
	}
	if !validUpload(c.Target) || !validUpload(c.Follow) {
		return false
	}
	f := c.Fault
	n := len(c.Target.Files)
	switch f.Kind {
	case "none":
	case "trunc":
		bd := buildBody(uploadParts(c.Target, "t"))
		if f.Off < 0 || f.Off >= len(bd.body) {
			return false
		}
		switch f.Cut {
		case "eof", "uerr", "tcp-half", "tcp-close":
		default:
			return false
		}
	case "fs":
		if f.K < 0 {
			return false
		}
	case "nobench":
		if f.File < 0 || f.File >= n || f.Variant < 0 || f.Variant > 2 {
			return false
		}
	case "longline", "labelclash":
		if f.File < 0 || f.File >= n || f.Variant < 0 || f.Variant > 100 {
			return false
		}
	case "field":
		if f.Pos < 0 || f.Pos > n || f.FName == "file" || f.FName == "commit" || strings.ContainsAny(f.FName, "\"\r\n") || strings.Contains(f.FValue, "\r") {
			return false
		}
	case "abort":
		if f.After < 0 || f.After > n || f.Mid < 0 || (f.After == n && f.Mid != 0) || (f.After < n && f.Mid > len(c.Target.Files[f.After].Rows)) {
			return false
		}
	default:
		return false
	}
	return true
}

// nobenchContent renders file f without any benchmark line.
func nobenchContent(f File, tag string, variant int) string {
	if variant == 1 {
		return ""
	}
	var b strings.Builder
	b.WriteString("tag: " + tag + "\n")
	for i, r := range f.Rows {
		t := r.text()
		if r.K == 0 {
			if variant == 0 {
				continue
			}
			if i%2 == 0 {
				t = "Benchmark" + r.A // no fields at all: not a result line
			} else {
				t = " " + t // indented: not a result line
			}
		}
		b.WriteString(t + "\n")
	}
	return b.String()
}

// faulty performs the upload under test and applies the oracle.
func (k *checker) faulty() {
	c, f, v := k.c, k.c.Fault, k.v
	const tag = "t"
	tgt := c.Target
	full := fullFiles(tgt, tag)
	allowed := map[int]string{} // files of a failed upload that may remain, with their exact content
	mustFail := true
	recordsBefore, labelsBefore := 0, 0
	var status int
	var resp []byte
	delivered := full // what the server received completely if it answers 2xx

	metaLabels := 3 // upload, upload-part, upload-time
	if c.User != "" {
		metaLabels++
	}
	countFile := func(i, nrows int) {
		recs, _ := tgt.Files[i].records(tag, nrows)
		recordsBefore += len(recs)
		for _, r := range recs {
			labelsBefore += len(r.labels) + metaLabels + nameLabelCount(strings.Fields(strings.TrimPrefix(r.line, "Benchmark"))[0])
			if tgt.Files[i].Name != "" {
				labelsBefore++
			}
		}
	}

	eitherOutcome := false
	switch f.Kind {
	case "none":
		mustFail = false
		k.s.ffs.begin(-1, false, false)
		bd := buildBody(uploadParts(tgt, tag))
		status, resp = k.s.post(bd.body, len(bd.body), "eof")

	case "longline":
		// A file with a (non-benchmark) line too long for a line scanner, after its first
		// benchmark line. The server may reject such an upload or take it whole; what it
		// may not do is answer 2xx and keep only a part of the file.
		fl := tgt.Files[f.File]
		at := len(fl.Rows)
		for i, r := range fl.Rows {
			if r.K == 0 {
				at = i + 1 + f.Variant%3
				break
			}
		}
		if at > len(fl.Rows) {
			at = len(fl.Rows)
		}
		long := Row{K: 3, A: "# " + strings.Repeat("x", 70000+1000*f.Variant)}
		rows := append(append(append([]Row{}, fl.Rows[:at]...), long), fl.Rows[at:]...)
		files := append([]File{}, tgt.Files...)
		fl.Rows = rows
		files[f.File] = fl
		tgt.Files = files
		full = fullFiles(tgt, tag)
		delivered = full
		mustFail, eitherOutcome = false, true
		for i := 0; i < f.File; i++ {
			allowed[i] = full[i].content
			countFile(i, len(tgt.Files[i].Rows))
		}
		countFile(f.File, at)
		if at < len(rows)-1 {
			v.Label("longline:benchmark_lines_follow")
		}
		k.s.ffs.begin(-1, false, false)
		bd := buildBody(uploadParts(tgt, tag))
		status, resp = k.s.post(bd.body, len(bd.body), "eof")

	case "labelclash":
		// A file whose last benchmark carries, as a key=value part of its name, a key that is
		// also a label of the file: the index holds one value per record and key, so the
		// database refuses the record - an error that only shows when the queued rows are
		// written (for a small upload: at commit). Either outcome is acceptable, a partly
		// committed upload is not.
		fl := tgt.Files[f.File]
		key := []string{"goos", "pkg", "commit"}[f.Variant%3]
		rows := append(append([]Row{}, fl.Rows...), Row{K: 1, A: key, B: "linux"}, Row{K: 0, A: "Clash/" + key + "=linux", B: "1 1 ns/op"})
		if f.Variant%2 == 1 {
			rows = append(rows, Row{K: 0, A: "After", B: "1 2 ns/op"})
		}
		files := append([]File{}, tgt.Files...)
		at := len(fl.Rows) + 1
		fl.Rows = rows
		files[f.File] = fl
		tgt.Files = files
		full = fullFiles(tgt, tag)
		delivered = full
		mustFail, eitherOutcome = false, true
		// (the refusal shows when the queued rows are written: usually at commit, when no file
		// is being written any more, so every file of the upload may stay in the store)
		for i := range tgt.Files {
			allowed[i] = full[i].content
			if i < f.File {
				countFile(i, len(tgt.Files[i].Rows))
			}
		}
		countFile(f.File, at)
		k.s.ffs.begin(-1, false, false)
		bd := buildBody(uploadParts(tgt, tag))
		status, resp = k.s.post(bd.body, len(bd.body), "eof")

	case "trunc":
		bd := buildBody(uploadParts(tgt, tag))
		cut := f.Cut
		complete := f.Off >= bd.closeEnd
		if complete && cut == "tcp-close" {
			cut = "tcp-half" // the answer is needed to tell what happened
		}
		mustFail = !complete
		v.Label("cut=" + cut)
		where := "between_parts"
		for _, sp := range bd.files {
			if f.Off >= sp.contentEnd+len(delim) {
				allowed[sp.fileIdx] = full[sp.fileIdx].content
			}
			switch {
			case f.Off >= sp.hdrStart && f.Off < sp.contentStart:
				where = "in_part_header"
			case f.Off >= sp.contentStart && f.Off <= sp.contentEnd:
				where = "in_file_content"
			case f.Off > sp.contentEnd && f.Off < sp.contentEnd+len(delim):
				where = "in_delimiter"
			case f.Off == sp.contentEnd+len(delim):
				where = "at_delimiter_end"
			}
			if f.Off > sp.contentStart {
				end := f.Off
				if end > sp.contentEnd {
					end = sp.contentEnd
				}
				// rows completely delivered (terminated by a newline, or the whole content)
				data := string(bd.body[sp.contentStart:end])
				nrows := strings.Count(data, "\n") - 1 // minus the tag line
				if end == sp.contentEnd {
					nrows = len(tgt.Files[sp.fileIdx].Rows)
				}
				if nrows > 0 {
					countFile(sp.fileIdx, nrows)
				}
			}
		}
		if complete {
			where = "after_closing_delimiter"
		}
		v.Label("trunc:" + where)
		k.s.ffs.begin(-1, false, false)
		status, resp = k.s.post(bd.body, f.Off, cut)
		// Known-finding signature C20-b: the body ends cleanly (no transport
		// error) inside the header block of a part that follows at least one
		// complete file, and the server commits the files before that part.
		if status/100 == 2 && mustFail && cut == "eof" {
			for pi, sp := range bd.parts {
				if pi == 0 || f.Off < sp.hdrStart+len("--"+boundary+"\r\n") || f.Off >= sp.contentStart {
					continue
				}
				nfiles := 0
				for _, q := range bd.parts[:pi] {
					if q.fileIdx >= 0 {
						nfiles++
					}
				}
				var st uploadStatus
				if json.Unmarshal(resp, &st) == nil && len(st.FileIDs) == nfiles && nfiles >= 1 && vcase.KnownListed("C20-b") {
					v.KnownHit("C20-b")
					v.Label("known_c20b")
					mustFail = false
					delivered = full[:nfiles]
				}
			}
		}

	case "fs":
		bd := buildBody(uploadParts(tgt, tag))
		k.s.ffs.begin(f.K, f.Partial, f.Sticky)
		status, resp = k.s.post(bd.body, len(bd.body), "eof")
		fired := k.s.ffs.fired
		if fired == nil {
			mustFail = false
			v.Label("fs:not_reached")
		} else {
			v.Label("fs:" + fired.call)
			if f.Partial {
				v.Label("fs:partial_write")
			}
			if f.Sticky {
				v.Label("fs:sticky")
			}
			for i := 0; i < fired.writer && i < len(full); i++ {
				allowed[i] = full[i].content
				countFile(i, len(tgt.Files[i].Rows))
			}
			if fired.writer < len(full) {
				// complete rows of the current file that the store had accepted before the fault
				acc := string(fired.before)
				if fired.call == "Close" {
					countFile(fired.writer, len(tgt.Files[fired.writer].Rows))
				} else if i := strings.Index(acc, "\n\n"); i >= 0 {
					if nrows := strings.Count(acc[i+2:], "\n") - 1; nrows > 0 {
						if nrows > len(tgt.Files[fired.writer].Rows) {
							nrows = len(tgt.Files[fired.writer].Rows)
						}
						countFile(fired.writer, nrows)
					}
				}
			}
		}

	case "nobench":
		var ps []partSpec
		for i, fl := range tgt.Files {
			ct := full[i].content
			if i == f.File {
				ct = nobenchContent(fl, tag, f.Variant)
			}
			ps = append(ps, partSpec{"file", true, fl.Name, ct, i})
			if i < f.File {
				allowed[i] = full[i].content
				countFile(i, len(fl.Rows))
			}
		}
		if tgt.Commit {
			ps = append(ps, partSpec{field: "commit", content: "1", fileIdx: -1})
		}
		v.Label(fmt.Sprintf("nobench:variant=%d", f.Variant))
		k.s.ffs.begin(-1, false, false)
		bd := buildBody(ps)
		status, resp = k.s.post(bd.body, len(bd.body), "eof")

	case "field":
		var ps []partSpec
		for i := 0; i <= len(tgt.Files); i++ {
			if i == f.Pos {
				ps = append(ps, partSpec{field: f.FName, isFile: f.AsFile, filename: "x.txt", content: f.FValue, fileIdx: -1})
			}
			if i < len(tgt.Files) {
				ps = append(ps, partSpec{"file", true, tgt.Files[i].Name, full[i].content, i})
				if i < f.Pos {
					allowed[i] = full[i].content
					countFile(i, len(tgt.Files[i].Rows))
				}
			}
		}
		if tgt.Commit {
			ps = append(ps, partSpec{field: "commit", content: "1", fileIdx: -1})
		}
		switch {
		case f.Pos == 0:
			v.Label("field:before_files")
		case f.Pos == len(tgt.Files):
			v.Label("field:after_files")
		default:
			v.Label("field:between_files")
		}
		k.s.ffs.begin(-1, false, false)
		bd := buildBody(ps)
		status, resp = k.s.post(bd.body, len(bd.body), "eof")

	case "abort":
		k.s.ffs.begin(-1, false, false)
		ts := k.s.tcp()
		cl := &storage.Client{BaseURL: ts.URL, HTTPClient: ts.Client()}
		up := cl.NewUpload(context.Background())
		for i := 0; i < f.After; i++ {
			w, err := up.CreateFile(tgt.Files[i].Name)
			if err != nil {
				panic(err)
			}
			io.WriteString(w, full[i].content)
			allowed[i] = full[i].content
			countFile(i, len(tgt.Files[i].Rows))
		}
		if f.Mid > 0 {
			fl := tgt.Files[f.After]
			w, err := up.CreateFile(fl.Name)
			if err != nil {
				panic(err)
			}
			part := fl.content(tag, f.Mid)
			io.WriteString(w, part)
			if recs, _ := fl.records(tag, f.Mid); len(recs) > 0 {
				allowed[f.After] = part // a complete file from the server's point of view
				countFile(f.After, f.Mid)
			}
			v.Label("abort:mid_file")
		} else {
			v.Label("abort:at_file_boundary")
		}
		err := up.Abort()
		if err == nil {
			v.Failf("storage.Client.Abort after %d files (+%d rows) returned nil: the server did not answer the aborted upload with an error", f.After, f.Mid)
			return
		}
		status = 500
		k.s.dropTCP() // all handlers have returned

	default:
		panic("bad fault kind")
	}

	if f.Kind != "none" && !(f.Kind == "fs" && k.s.ffs.fired == nil) {
		v.NonTrivial = recordsBefore >= 1
		switch {
		case recordsBefore == 0:
			v.Label("records_before_fault=0")
		case recordsBefore < 4:
			v.Label("records_before_fault=1-3")
		default:
			v.Label("records_before_fault=4+")
		}
		if labelsBefore >= 249 {
			v.Label("database_flush_before_fault")
		}
	}

	ok := status/100 == 2
	if ok && mustFail {
		// Known-finding signature C20-a: the one write whose error the server
		// does not look at is the blank line after the metadata header.
		if fi := k.s.ffs.fired; f.Kind == "fs" && fi != nil && fi.call == "Write" && string(fi.payload) == "\n" && !f.Sticky &&
			bytes.HasSuffix(fi.before, []byte("\n")) && !bytes.Contains(fi.before, []byte("\n\n")) && bytes.Contains(fi.before, []byte("upload-time: ")) &&
			vcase.KnownListed("C20-a") {
			v.KnownHit("C20-a")
			v.Label("fs:known_C20-a")
			k.stop = true
			return
		}
		v.Failf("upload with fault %s was answered %d %s: the fault must fail the upload", describe(f), status, strings.TrimSpace(string(resp)))
		return
	}
	if !ok && !mustFail && f.Kind != "trunc" && !eitherOutcome {
		v.Failf("upload without an effective fault (%s) was answered %d: %s", describe(f), status, resp)
		return
	}
	if ok {
		v.Label("outcome=success")
		if !k.accept("upload under test", resp, tag, delivered) {
			return
		}
		k.verifyState("after the successful upload under test", nil, nil)
		return
	}

	// ---- the upload failed: nothing of it may be visible
	v.Label("outcome=failed")
	k.deadTag = tag
	k.deadIDs = k.requestIDs()
	if len(k.deadIDs) > 1 {
		v.Failf("one upload request used several upload ids towards the file store: %v", k.deadIDs)
		return
	}
	for _, id := range k.deadIDs {
		k.noteID(id, "failed upload")
	}
	k.checkingFailure = true
	k.verifyState("after the failed upload ("+describe(f)+")", k.deadIDs, []string{tag})
	k.checkingFailure = false
	if v.Violation != "" {
		return
	}
	// file store: no partially written file, and not the file that was being
	// written when the failure happened.
	mine := map[string]bool{}
	for _, u := range k.model {
		for _, fl := range u.files {
			mine["uploads/"+fl.id+".txt"] = true
		}
	}
	files := k.storeFiles()
	left := 0
	for _, name := range keys(files) {
		if mine[name] {
			continue
		}
		idx := -1
		for j, w := range k.s.ffs.writers {
			if w.name == name {
				idx = j
			}
		}
		if idx < 0 {
			v.Failf("after the failed upload the store holds %s, which no request created", name)
			return
		}
		want, may := allowed[idx]
		if !may {
			v.Failf("after the failed upload (%s) file %d of it (%s) is still in the store with content %q: the file being written when the failure happened must be removed", describe(f), idx, name, files[name])
			return
		}
		w := k.s.ffs.writers[idx]
		ut := ""
		k.checkStored(name, files[name], w.meta["upload"], w.meta["upload-part"], tgt.Files[idx].Name, want, &ut)
		if v.Violation != "" {
			v.Violation = "after the failed upload (" + describe(f) + "), left-over earlier file: " + v.Violation
			return
		}
		k.tolerated[name] = true
		left++
	}
	if left > 0 {
		v.Label("earlier_files_of_failed_upload_left_in_store")
	}
}

func describe(f Fault) string {
	switch f.Kind {
	case "trunc":
		return fmt.Sprintf("body cut at offset %d (%s)", f.Off, f.Cut)
	case "fs":
		return fmt.Sprintf("file-store call %d fails (partial=%v sticky=%v)", f.K, f.Partial, f.Sticky)
	case "nobench":
		return fmt.Sprintf("file %d without benchmark lines (variant %d)", f.File, f.Variant)
	case "longline":
		return fmt.Sprintf("file %d with a line of more than 64 KiB (variant %d)", f.File, f.Variant)
	case "labelclash":
		return fmt.Sprintf("file %d ends with a benchmark whose name part repeats a label key (variant %d)", f.File, f.Variant)
	case "field":
		return fmt.Sprintf("unexpected field %q before file %d", f.FName, f.Pos)
	case "abort":
		return fmt.Sprintf("client abort after %d files and %d rows", f.After, f.Mid)
	}
	return f.Kind
}

// ---------------------------------------------------------------------------
// number of file-store calls of a fault-free run of the target (deterministic;
// measured on a throw-away server, cached per request body)

var (
	callsMu    sync.Mutex
	callsCache = map[string]int{}
)

func fsCalls(c Case) int {
	bd := buildBody(uploadParts(c.Target, "t"))
	key := c.User + "\x00" + string(bd.body)
	callsMu.Lock()
	n, ok := callsCache[key]
	callsMu.Unlock()
	if ok {
		return n
	}
	s, closeAll := newServer(Case{User: c.User, Store: "mem"})
	defer closeAll()
	s.ffs.begin(-1, false, false)
	code, resp := s.post(bd.body, len(bd.body), "eof")
	if code/100 != 2 {
		panic(fmt.Sprintf("dry run of the target upload answered %d: %s", code, resp))
	}
	n = s.ffs.calls
	callsMu.Lock()
	callsCache[key] = n
	callsMu.Unlock()
	return n
}

// ---------------------------------------------------------------------------
// generators

var benchNames = []string{"A", "B", "Enc", "Dec/size=1", "Dec/big", "Sort-8", "Sort-16", "Sort/n=4-8", "Read-only-4", "Enc/utf-8-4", "x86-64"}
var labelKeys = []string{"étape", "µarch", "goos", "goarch", "pkg", "cpu", "commit", "branch", "note", "goos", "pkg", "upload", "upload-part", "upload-time"}
var junk = []string{"PASS", "ok  \tgolang.org/x/foo\t0.123s", "", "--- BENCH: BenchmarkA", "    bench_test.go:12: note", "BenchmarkNoFields", " BenchmarkIndented 1 2 ns/op", "FAIL", "goos linux"}

func genBench(t *rapid.T) Row {
	name := rapid.SampledFrom(benchNames).Draw(t, "bname")
	rest := fmt.Sprintf("%d %d.%d ns/op", rapid.IntRange(1, 2000).Draw(t, "iters"), rapid.IntRange(0, 999).Draw(t, "v"), rapid.IntRange(0, 9).Draw(t, "vf"))
	if rapid.IntRange(0, 3).Draw(t, "extra") == 0 {
		rest += fmt.Sprintf(" %d B/op", rapid.IntRange(0, 64).Draw(t, "bop"))
	}
	return Row{K: 0, A: name, B: rest, Tab: rapid.IntRange(0, 7).Draw(t, "tabs") == 0}
}

func genFile(t *rapid.T, maxLines int, wide bool) File {
	var f File
	f.Name = rapid.SampledFrom([]string{"", "a.txt", "bench.out", "r 1.txt", "x", "load-50%.txt", "%d%s.txt"}).Draw(t, "fname")
	if wide {
		n := rapid.IntRange(40, 60).Draw(t, "nwide")
		for i := 0; i < n; i++ {
			f.Rows = append(f.Rows, Row{K: 1, A: fmt.Sprintf("w%d", i), B: "v"})
		}
	}
	nb := rapid.IntRange(1, maxLines).Draw(t, "nbench")
	for i := 0; i < nb; i++ {
		for rapid.IntRange(0, 3).Draw(t, "pre") == 0 {
			switch rapid.IntRange(0, 3).Draw(t, "prekind") {
			case 0, 1:
				f.Rows = append(f.Rows, Row{K: 1, A: rapid.SampledFrom(labelKeys).Draw(t, "lk"), B: rapid.StringMatching(`[a-z0-9]{1,6}`).Draw(t, "lv"), Tab: rapid.IntRange(0, 5).Draw(t, "labeltab") == 0})
			case 2:
				f.Rows = append(f.Rows, Row{K: 2, A: rapid.SampledFrom(labelKeys).Draw(t, "lk")})
			default:
				f.Rows = append(f.Rows, Row{K: 3, A: rapid.SampledFrom(junk).Draw(t, "junk")})
			}
		}
		f.Rows = append(f.Rows, genBench(t))
	}
	if rapid.IntRange(0, 4).Draw(t, "tail") == 0 {
		f.Rows = append(f.Rows, Row{K: 3, A: rapid.SampledFrom(junk).Draw(t, "junk")})
	}
	f.NoFinalNL = rapid.IntRange(0, 4).Draw(t, "nofinalnl") == 0
	return f
}

func genUpload(t *rapid.T, maxFiles, maxLines int, wide bool) Upload {
	var u Upload
	nf := rapid.IntRange(1, maxFiles).Draw(t, "nfiles")
	for i := 0; i < nf; i++ {
		u.Files = append(u.Files, genFile(t, maxLines, wide))
	}
	u.Commit = rapid.Bool().Draw(t, "commit")
	u.Via = rapid.SampledFrom([]string{"direct", "direct", "client"}).Draw(t, "via")
	return u
}

// uniform draws an integer in [0, n) without rapid's bias towards small
// values: single bits are unbiased, so the value is assembled from bits
// (rejection with a bounded number of retries, then reduction modulo n).
func uniform(t *rapid.T, n int, label string) int {
	if n <= 1 {
		return 0
	}
	nbits := 0
	for 1<<nbits < n {
		nbits++
	}
	u := 0
	for try := 0; try < 4; try++ {
		u = 0
		for i := 0; i < nbits; i++ {
			u = u<<1 | rapid.IntRange(0, 1).Draw(t, label)
		}
		if u < n {
			return u
		}
	}
	return u % n
}

// Gen draws a scenario; the fault position is uniform over all positions of
// the drawn upload, except that half of the truncation offsets are taken from
// the offsets within 3 bytes of a part boundary or line end.
func Gen(t *rapid.T) Case {
	var c Case
	c.User = rapid.SampledFrom([]string{"", "user", "alice", "100%bob"}).Draw(t, "user")
	c.Store = rapid.SampledFrom([]string{"mem", "mem", "mem", "local"}).Draw(t, "store")
	nh := rapid.IntRange(0, 3).Draw(t, "nhist")
	for i := 0; i < nh; i++ {
		c.History = append(c.History, genUpload(t, 2, 3, false))
	}
	wide := rapid.IntRange(0, 3).Draw(t, "wide") == 0
	c.Target = genUpload(t, 3, 6, wide)
	c.Target.Via = "direct"
	c.Follow = genUpload(t, 1, 2, false)
	n := len(c.Target.Files)
	switch kind := rapid.SampledFrom([]string{"trunc", "trunc", "trunc", "trunc", "trunc", "trunc", "trunc", "fs", "fs", "fs", "fs", "fs", "fs",
		"nobench", "nobench", "longline", "longline", "labelclash", "labelclash", "field", "field", "abort", "abort", "none"}).Draw(t, "kind"); kind {
	case "trunc":
		bd := buildBody(uploadParts(c.Target, "t"))
		off := 0
		if rapid.Bool().Draw(t, "hot") {
			hot := hotOffsets(bd)
			off = hot[uniform(t, len(hot), "hotoff")]
		} else {
			off = uniform(t, len(bd.body), "off")
		}
		cut := rapid.SampledFrom([]string{"eof", "eof", "eof", "uerr", "uerr", "tcp-half", "tcp-close"}).Draw(t, "cut")
		c.Fault = Fault{Kind: "trunc", Off: off, Cut: cut}
	case "fs":
		N := fsCalls(c)
		c.Fault = Fault{Kind: "fs", K: uniform(t, N, "k"), Partial: rapid.Bool().Draw(t, "partial"), Sticky: rapid.Bool().Draw(t, "sticky")}
	case "longline":
		c.Fault = Fault{Kind: "longline", File: rapid.IntRange(0, n-1).Draw(t, "file"), Variant: rapid.IntRange(0, 5).Draw(t, "variant")}
	case "labelclash":
		c.Fault = Fault{Kind: "labelclash", File: rapid.IntRange(0, n-1).Draw(t, "file"), Variant: rapid.IntRange(0, 5).Draw(t, "variant")}
	case "nobench":
		c.Fault = Fault{Kind: "nobench", File: rapid.IntRange(0, n-1).Draw(t, "file"), Variant: rapid.IntRange(0, 2).Draw(t, "variant")}
	case "field":
		c.Fault = Fault{Kind: "field", Pos: rapid.IntRange(0, n).Draw(t, "pos"),
			FName:  rapid.SampledFrom([]string{"abort", "x", "file2", "File", "Commit", "files", ""}).Draw(t, "fieldname"),
			FValue: rapid.SampledFrom([]string{"1", "", "BenchmarkZ 1 1 ns/op\n"}).Draw(t, "fieldvalue"),
			AsFile: rapid.IntRange(0, 3).Draw(t, "asfile") == 0}
	case "abort":
		after := rapid.IntRange(0, n).Draw(t, "after")
		mid := 0
		if after < n && rapid.Bool().Draw(t, "midfile") {
			mid = rapid.IntRange(1, len(c.Target.Files[after].Rows)).Draw(t, "mid")
		}
		c.Fault = Fault{Kind: "abort", After: after, Mid: mid}
	default:
		c.Fault = Fault{Kind: "none"}
	}
	return c
}

func TestC20Rapid(t *testing.T) {
	vcase.Run(t, "C20", "rapid", Gen, Check)
}

// ---------------------------------------------------------------------------
// enumeration over fixed representative uploads

func bench(name string, i int) Row {
	return Row{K: 0, A: name, B: fmt.Sprintf("%d %d.5 ns/op", 10+i, 3+i)}
}

func wideRows(n int) []Row {
	var rs []Row
	for i := 0; i < n; i++ {
		rs = append(rs, Row{K: 1, A: fmt.Sprintf("w%d", i), B: "v"})
	}
	return rs
}

func small(name string) Upload {
	return Upload{Files: []File{{Name: name, Rows: []Row{bench("H", 1), bench("H", 2), bench("G-4", 3)}}}, Via: "direct"}
}

// representatives returns the fixed scenarios (fault left open).
func representatives() []Case {
	follow := Upload{Files: []File{{Name: "after.txt", Rows: []Row{bench("After", 0)}}}, Commit: true, Via: "direct"}
	viaClient := small("hc.txt")
	viaClient.Via = "client"
	var out []Case
	// 1: one file, two lines, no commit field, empty store
	out = append(out, Case{User: "", Store: "mem",
		Target: Upload{Files: []File{{Name: "one.txt", Rows: []Row{bench("A", 0), bench("B-8", 1)}}}}})
	// 2: two files with label changes, other text, commit field, one earlier upload
	out = append(out, Case{User: "user", Store: "mem", History: []Upload{small("h.txt")},
		Target: Upload{Commit: true, Files: []File{
			{Name: "a.txt", Rows: []Row{{K: 1, A: "goos", B: "linux"}, bench("Enc", 0), {K: 3, A: "PASS"}, {K: 1, A: "goos", B: "darwin"}, bench("Enc", 1)}},
			{Name: "b.txt", Rows: []Row{{K: 3, A: ""}, bench("Dec/size=1", 2), bench("Dec/size=1", 3), {K: 2, A: "goos"}, {K: 3, A: "ok  \tpkg\t0.1s"}}},
		}}})
	// 3: three files, empty file name, missing final newline, local-disk store, three earlier uploads
	out = append(out, Case{User: "alice", Store: "local", History: []Upload{small("h1.txt"), viaClient, small("")},
		Target: Upload{Files: []File{
			{Name: "", Rows: []Row{bench("A", 0)}, NoFinalNL: true},
			{Name: "m.txt", Rows: []Row{{K: 1, A: "pkg", B: "p"}, bench("B", 1), bench("Sort-16", 2)}},
			{Name: "z.txt", Rows: []Row{bench("A", 3), {K: 3, A: "BenchmarkNoFields"}}, NoFinalNL: true},
		}}})
	// 4: wide label sets, so that the database layer flushes in the middle of the first file
	w1 := append(wideRows(50), bench("W", 0), bench("X", 1), bench("W", 2), bench("X", 3), bench("W", 4), bench("X", 5))
	out = append(out, Case{User: "user", Store: "mem", History: []Upload{small("h.txt"), small("h2.txt")},
		Target: Upload{Commit: true, Files: []File{
			{Name: "wide.txt", Rows: w1},
			{Name: "tail.txt", Rows: []Row{bench("T", 0), bench("T", 1)}},
		}}})
	// 5: six lines with the same name and labels in one file
	out = append(out, Case{User: "", Store: "mem", History: []Upload{viaClient},
		Target: Upload{Commit: true, Files: []File{{Name: "same.txt", Rows: []Row{bench("S", 0), bench("S", 1), bench("S", 2), bench("S", 3), bench("S", 4), bench("S", 5)}}}}})
	for i := range out {
		out[i].Follow = follow
		out[i].Target.Via = "direct"
	}
	return out
}

// TestC20EnumTrunc enumerates truncation offsets of the representative
// uploads: every offset with every delivery mode in the thorough tier; every
// 7th offset (one delivery mode) plus all offsets near a boundary or line end
// (clean end and read error) in the quick tier.
func TestC20EnumTrunc(t *testing.T) {
	shard, nshards := vcase.Shard()
	thorough := vcase.Thorough()
	vcase.Enum(t, "C20", "enum_trunc", thorough, func(yield func(Case) bool) {
		i := 0
		for _, rep := range representatives() {
			bd := buildBody(uploadParts(rep.Target, "t"))
			hot := map[int]bool{}
			for _, o := range hotOffsets(bd) {
				hot[o] = true
			}
			for off := 0; off < len(bd.body); off++ {
				var cuts []string
				switch {
				case thorough:
					cuts = []string{"eof", "uerr", "tcp-half"}
					if off%5 == 0 {
						cuts = append(cuts, "tcp-close")
					}
				case hot[off]:
					cuts = []string{"eof", "uerr"}
					if off%16 == 0 {
						cuts = append(cuts, "tcp-half")
					}
				case off%7 == 0:
					cuts = []string{[]string{"eof", "uerr", "eof", "tcp-half", "uerr", "tcp-close"}[(off/7)%6]}
				}
				for _, cut := range cuts {
					i++
					if i%nshards != shard {
						continue
					}
					c := rep
					c.Fault = Fault{Kind: "trunc", Off: off, Cut: cut}
					if !yield(c) {
						return
					}
				}
			}
		}
	}, Check)
}

// TestC20EnumFaults enumerates, for the representative uploads, every call of
// the file store as the failing one (plain, partial, sticky), every file as
// the one without benchmark lines, every position of an unexpected field and
// every client abort point. Complete in both tiers.
func TestC20EnumFaults(t *testing.T) {
	shard, nshards := vcase.Shard()
	vcase.Enum(t, "C20", "enum_faults", true, func(yield func(Case) bool) {
		i := 0
		emit := func(c Case) bool {
			i++
			if i%nshards != shard {
				return true
			}
			return yield(c)
		}
		for _, rep := range representatives() {
			n := len(rep.Target.Files)
			N := fsCalls(rep)
			for k := 0; k <= N; k++ { // k == N: the fault is never reached
				for _, m := range [][2]bool{{false, false}, {true, false}, {false, true}, {true, true}} {
					c := rep
					c.Fault = Fault{Kind: "fs", K: k, Partial: m[0], Sticky: m[1]}
					if !emit(c) {
						return
					}
				}
			}
			for f := 0; f < n; f++ {
				for variant := 0; variant <= 2; variant++ {
					c := rep
					c.Fault = Fault{Kind: "nobench", File: f, Variant: variant}
					if !emit(c) {
						return
					}
				}
			}
			for pos := 0; pos <= n; pos++ {
				for _, fn := range []string{"abort", "x", "File", ""} {
					for _, asFile := range []bool{false, true} {
						c := rep
						c.Fault = Fault{Kind: "field", Pos: pos, FName: fn, FValue: "1", AsFile: asFile}
						if !emit(c) {
							return
						}
					}
				}
			}
			for after := 0; after <= n; after++ {
				c := rep
				c.Fault = Fault{Kind: "abort", After: after}
				if !emit(c) {
					return
				}
				if after < n {
					for mid := 1; mid <= len(rep.Target.Files[after].Rows); mid++ {
						c := rep
						c.Fault = Fault{Kind: "abort", After: after, Mid: mid}
						if !emit(c) {
							return
						}
					}
				}
			}
			c := rep
			c.Fault = Fault{Kind: "none"}
			if !emit(c) {
				return
			}
		}
	}, Check)
}
