// Package c20: uploads to the perf data storage server are all-or-nothing
// under single injected faults, and upload IDs are never reused.
//
// Every case builds a fresh in-process server (storage/app.App on a file-backed
// sqlite database and a fault-injecting fs.FS wrapper around fs.MemFS or the
// local-disk store), performs a history of successful uploads, then one upload
// with a single fault at a chosen position, then one more successful upload,
// and compares everything that can be observed (queries, listings, the file
// store) with a model that contains the successful uploads only.
//
// The oracle is written from the property text and the package documentation:
// it never looks at how the server decides; whether a request succeeded is
// read from the HTTP status, whether it was *allowed* to succeed is decided
// from the request that was sent.
package c20

import (
	"bytes"
	"context"
	"encoding/json"
	"errors"
	"fmt"
	"io"
	"log"
	"net"
	"net/http"
	"net/http/httptest"
	"net/url"
	"os"
	"path/filepath"
	"regexp"
	"sort"
	"strconv"
	"strings"
	"sync"
	"time"

	"golang.org/x/perf/storage"
	"golang.org/x/perf/storage/app"
	"golang.org/x/perf/storage/db"
	_ "golang.org/x/perf/storage/db/sqlite3"
	"golang.org/x/perf/storage/fs"
	"golang.org/x/perf/storage/fs/local"
	"verif/harness/lib/vcase"
)

func init() { log.SetOutput(io.Discard) } // the server logs every request

// ---------------------------------------------------------------------------
// case data

// Row is one line of an uploaded file.
type Row struct {
	K int    // 0 benchmark line, 1 label "A: B", 2 label removal "A:", 3 other text (ignored by the format)
	A string // benchmark name without the "Benchmark" prefix / label key / the text
	B string // rest of the benchmark line / label value
	// Tab: the fields of a benchmark line are separated by tabs, not blanks; a label value is
	// preceded by two tabs instead of a blank
	Tab bool
}

// File is one uploaded file.
type File struct {
	Name      string // form file name, may be empty
	Rows      []Row
	NoFinalNL bool // last line is not newline-terminated
}

// Upload is one multipart upload request.
type Upload struct {
	Files  []File
	Commit bool   // a trailing "commit" field, as storage.Client sends
	Via    string // "direct" (ServeHTTP) or "client" (storage.Client over loopback); fault-free uploads only
}

// Fault is the single fault injected into the upload under test.
type Fault struct {
	Kind string // "none", "trunc", "fs", "nobench", "field", "abort"

	// trunc: only Body[:Off] is delivered.
	Off int
	Cut string // "eof": clean end of body; "uerr": body read error; "tcp-half": loopback, write side closed; "tcp-close": loopback, connection closed

	// fs: the K-th call (0-based, counting NewWriter, Write and Close calls of
	// this upload) fails.
	K       int
	Partial bool // a failing Write first accepts half of its bytes
	Sticky  bool // after the fault every later Write/Close of that writer fails too

	// nobench: file File carries no benchmark line (Variant picks how).
	File    int
	Variant int

	// field: an unexpected form field before file Pos (Pos == len(Files): after the last file).
	Pos    int
	FName  string
	FValue string
	AsFile bool // the unexpected field carries a file name

	// abort: storage.Client.Abort after After complete files and Mid further rows of the next file.
	After int
	Mid   int
}

// Case is one scenario.
type Case struct {
	User    string // name returned by the server's Auth hook ("" = none)
	Store   string // "mem" or "local"
	History []Upload
	Target  Upload
	Fault   Fault
	Follow  Upload // uploaded after the faulty attempt; must succeed
}

// ---------------------------------------------------------------------------
// rendering and the model of a file

const boundary = "c20xBOUNDARYx7d1f03"
const delim = "\r\n--" + boundary

func (r Row) text() string {
	switch r.K {
	case 0:
		if r.Tab {
			// fields separated by tabs only: a line without a single blank
			return "Benchmark" + r.A + "\t" + strings.ReplaceAll(r.B, " ", "\t")
		}
		return "Benchmark" + r.A + " " + r.B
	case 1:
		if r.Tab {
			// a tab-aligned label line: every blank and tab after the colon is separator
			return r.A + ":\t\t" + r.B
		}
		return r.A + ": " + r.B
	case 2:
		return r.A + ":"
	}
	return r.A
}

// content renders rows[:n] of f, preceded by the upload's tag label.
func (f File) content(tag string, n int) string {
	var b strings.Builder
	b.WriteString("tag: " + tag + "\n")
	for i := 0; i < n; i++ {
		b.WriteString(f.Rows[i].text())
		if i < n-1 || !f.NoFinalNL {
			b.WriteString("\n")
		}
	}
	return b.String()
}

// rec is one expected result: the verbatim benchmark line and the file labels
// in force at that line (server labels are added by the caller).
type rec struct {
	line   string
	labels map[string]string
}

// records returns the expected results of rows[:n] and the number of maximal
// runs of consecutive benchmark lines with identical name and labels (the
// server may store such a run as one record; see countBounds).
func (f File) records(tag string, n int) (out []rec, runs int) {
	cur := map[string]string{"tag": tag}
	prevKey := ""
	for i := 0; i < n; i++ {
		r := f.Rows[i]
		switch r.K {
		case 1:
			if !serverKey[r.A] { // labels the server adds are permanent: the file cannot override them
				cur[r.A] = r.B
			}
		case 2:
			if !serverKey[r.A] { // ... nor remove them
				delete(cur, r.A)
			}
		case 0:
			l := map[string]string{}
			for k, v := range cur {
				l[k] = v
			}
			out = append(out, rec{r.text(), l})
			key := r.A + "\x00" + canonLabels(l)
			if key != prevKey {
				runs++
			}
			prevKey = key
		}
	}
	return
}

// labels the server sets for every file (upload-file and by are set only for named files / known users)
var serverKey = map[string]bool{"upload": true, "upload-part": true, "upload-time": true}

func canonLabels(l map[string]string) string {
	keys := make([]string, 0, len(l))
	for k := range l {
		keys = append(keys, k)
	}
	sort.Strings(keys)
	var b strings.Builder
	for _, k := range keys {
		b.WriteString(k + "=" + l[k] + ";")
	}
	return b.String()
}

// nameLabels is the reference for the labels a benchmark name contributes to the index.
func nameLabels(name string) map[string]string {
	out := map[string]string{}
	if i := strings.LastIndexByte(name, '-'); i >= 0 && i+1 < len(name) && len(name)-i-1 <= 9 && strings.Trim(name[i+1:], "0123456789") == "" {
		out["gomaxprocs"] = name[i+1:]
		name = name[:i]
	}
	parts := strings.Split(name, "/")
	out["name"] = parts[0]
	for i := 1; i < len(parts); i++ {
		if eq := strings.IndexByte(parts[i], '='); eq >= 0 {
			out[parts[i][:eq]] = parts[i][eq+1:]
		} else {
			out["sub"+strconv.Itoa(i)] = parts[i]
		}
	}
	return out
}

// nameLabelCount is the number of labels a benchmark name contributes (name,
// -N suffix, /sub parts); only used for the "likely flushed" label.
func nameLabelCount(name string) int {
	n := 1 + strings.Count(name, "/")
	if i := strings.LastIndex(name, "-"); i >= 0 {
		if _, err := strconv.Atoi(name[i+1:]); err == nil {
			n++
		}
	}
	return n
}

// ---------------------------------------------------------------------------
// multipart bodies with known offsets

type partSpec struct {
	field    string
	isFile   bool
	filename string
	content  string
	fileIdx  int // index into the upload's files, -1 for plain fields
}

type span struct {
	fileIdx      int
	hdrStart     int // offset of "--boundary" opening the part
	contentStart int // first content byte
	contentEnd   int // offset of the "\r\n--boundary" that terminates the content
}

type built struct {
	body     []byte
	files    []span // file parts of the upload (fileIdx >= 0)
	parts    []span // every part, in order (fileIdx -1 for plain fields)
	closeEnd int    // offset just after the closing "--boundary--"
}

func buildBody(parts []partSpec) built {
	var b bytes.Buffer
	var out built
	for _, p := range parts {
		hs := b.Len()
		b.WriteString("--" + boundary + "\r\n")
		if p.isFile {
			fmt.Fprintf(&b, "Content-Disposition: form-data; name=\"%s\"; filename=\"%s\"\r\nContent-Type: application/octet-stream\r\n\r\n", p.field, p.filename)
		} else {
			fmt.Fprintf(&b, "Content-Disposition: form-data; name=\"%s\"\r\n\r\n", p.field)
		}
		cs := b.Len()
		b.WriteString(p.content)
		ce := b.Len()
		b.WriteString("\r\n")
		out.parts = append(out.parts, span{p.fileIdx, hs, cs, ce})
		if p.fileIdx >= 0 {
			out.files = append(out.files, span{p.fileIdx, hs, cs, ce})
		}
	}
	b.WriteString("--" + boundary + "--")
	out.closeEnd = b.Len()
	b.WriteString("\r\n")
	out.body = b.Bytes()
	return out
}

// uploadParts lists the parts of a fault-free upload.
func uploadParts(u Upload, tag string) []partSpec {
	var ps []partSpec
	for i, f := range u.Files {
		ps = append(ps, partSpec{"file", true, f.Name, f.content(tag, len(f.Rows)), i})
	}
	if u.Commit {
		ps = append(ps, partSpec{field: "commit", content: "1", fileIdx: -1})
	}
	return ps
}

// hotOffsets returns the truncation offsets within 3 bytes of a part
// boundary, a header end or a line end of body.
func hotOffsets(bd built) []int {
	n := len(bd.body)
	mark := make([]bool, n)
	hit := func(p int) {
		for d := -3; d <= 3; d++ {
			if q := p + d; q >= 0 && q < n {
				mark[q] = true
			}
		}
	}
	for i, c := range bd.body {
		if c == '\n' {
			hit(i)
			hit(i + 1)
		}
	}
	for _, s := range bd.files {
		hit(s.hdrStart)
		hit(s.contentStart)
		hit(s.contentEnd)
		hit(s.contentEnd + len(delim))
	}
	hit(bd.closeEnd)
	var out []int
	for i, m := range mark {
		if m {
			out = append(out, i)
		}
	}
	return out
}

// ---------------------------------------------------------------------------
// the fault-injecting, recording file store

var errInjected = errors.New("c20: injected file store fault")

type writerLog struct {
	name     string
	meta     map[string]string
	accepted []byte // bytes the store accepted
	state    string // "open", "stored", "discarded", "closefailed", "createfailed"
	failed   bool   // a fault struck this writer
}

type firedInfo struct {
	call    string // "NewWriter", "Write", "Close"
	writer  int    // index into the request's writers
	payload []byte // bytes of the failing Write
	before  []byte // bytes the writer had accepted before the failing call
}

type faultFS struct {
	under fs.FS
	mu    sync.Mutex
	// fault plan for the current request
	failAt  int // -1: none
	partial bool
	sticky  bool
	calls   int
	fired   *firedInfo
	writers []*writerLog // writers of the current request
	// mirror of what was stored (successful Close), over the whole case
	stored      map[string][]byte
	storedTimes map[string]int
	created     map[string]int // NewWriter calls per name, over the whole case
}

func (f *faultFS) begin(failAt int, partial, sticky bool) {
	f.mu.Lock()
	defer f.mu.Unlock()
	f.failAt, f.partial, f.sticky = failAt, partial, sticky
	f.calls, f.fired, f.writers = 0, nil, nil
}

// hit counts one faultable call and reports whether it must fail.
func (f *faultFS) hit() bool {
	k := f.calls
	f.calls++
	return k == f.failAt
}

func (f *faultFS) NewWriter(ctx context.Context, name string, metadata map[string]string) (fs.Writer, error) {
	f.mu.Lock()
	defer f.mu.Unlock()
	meta := map[string]string{}
	for k, v := range metadata {
		meta[k] = v
	}
	wl := &writerLog{name: name, meta: meta, state: "open"}
	f.writers = append(f.writers, wl)
	f.created[name]++
	if f.hit() {
		wl.state, wl.failed = "createfailed", true
		f.fired = &firedInfo{call: "NewWriter", writer: len(f.writers) - 1}
		return nil, errInjected
	}
	w, err := f.under.NewWriter(ctx, name, metadata)
	if err != nil {
		panic(fmt.Sprintf("underlying store failed to create %q: %v", name, err))
	}
	return &faultWriter{f: f, wl: wl, idx: len(f.writers) - 1, w: w}, nil
}

type faultWriter struct {
	f   *faultFS
	wl  *writerLog
	idx int
	w   fs.Writer
}

func (w *faultWriter) Write(p []byte) (int, error) {
	w.f.mu.Lock()
	defer w.f.mu.Unlock()
	if w.wl.state != "open" {
		return 0, errors.New("c20: write after close")
	}
	strike := w.f.hit()
	if strike {
		w.f.fired = &firedInfo{call: "Write", writer: w.idx, payload: append([]byte(nil), p...), before: append([]byte(nil), w.wl.accepted...)}
		w.wl.failed = true
	} else if w.wl.failed && w.f.sticky {
		return 0, errInjected
	} else {
		n, err := w.w.Write(p)
		w.wl.accepted = append(w.wl.accepted, p[:n]...)
		if err != nil {
			panic(fmt.Sprintf("underlying store write failed: %v", err))
		}
		return n, nil
	}
	n := 0
	if w.f.partial {
		n = len(p) / 2
		if n > 0 {
			if _, err := w.w.Write(p[:n]); err != nil {
				panic(fmt.Sprintf("underlying store write failed: %v", err))
			}
			w.wl.accepted = append(w.wl.accepted, p[:n]...)
		}
	}
	return n, errInjected
}

func (w *faultWriter) Close() error {
	w.f.mu.Lock()
	defer w.f.mu.Unlock()
	if w.wl.state != "open" {
		return errors.New("c20: already closed")
	}
	strike := w.f.hit()
	if strike {
		w.f.fired = &firedInfo{call: "Close", writer: w.idx, before: append([]byte(nil), w.wl.accepted...)}
		w.wl.failed = true
	}
	if strike || (w.wl.failed && w.f.sticky) {
		// A failed Close stores nothing.
		w.w.CloseWithError(errInjected)
		w.wl.state = "closefailed"
		return errInjected
	}
	if err := w.w.Close(); err != nil {
		panic(fmt.Sprintf("underlying store close failed: %v", err))
	}
	w.wl.state = "stored"
	w.f.stored[w.wl.name] = append([]byte(nil), w.wl.accepted...)
	w.f.storedTimes[w.wl.name]++
	return nil
}

func (w *faultWriter) CloseWithError(err error) error {
	w.f.mu.Lock()
	defer w.f.mu.Unlock()
	if w.wl.state != "open" {
		return errors.New("c20: already closed")
	}
	w.wl.state = "discarded"
	return w.w.CloseWithError(err)
}

// ---------------------------------------------------------------------------
// the server under test

type server struct {
	dir   string
	db    *db.DB
	mem   *fs.MemFS
	local string // root of the local store, "" for mem
	ffs   *faultFS
	mux   *http.ServeMux
	ts    *httptest.Server // started lazily
}

func newServer(c Case) (*server, func()) {
	dir, rm := vcase.ScratchDir("c20-")
	s := &server{dir: dir}
	d, err := db.OpenSQL("sqlite3", "file:"+filepath.Join(dir, "c20.sqlite")+"?_sync=0")
	if err != nil {
		rm()
		panic(fmt.Sprintf("cannot open database: %v", err))
	}
	s.db = d
	var under fs.FS
	if c.Store == "local" {
		s.local = filepath.Join(dir, "store")
		under = local.NewFS(s.local)
	} else {
		s.mem = fs.NewMemFS()
		under = s.mem
	}
	s.ffs = &faultFS{under: under, failAt: -1, stored: map[string][]byte{}, storedTimes: map[string]int{}, created: map[string]int{}}
	user := c.User
	a := &app.App{DB: d, FS: s.ffs, Auth: func(http.ResponseWriter, *http.Request) (string, error) { return user, nil }}
	s.mux = http.NewServeMux()
	a.RegisterOnMux(s.mux)
	return s, func() {
		if s.ts != nil {
			s.ts.Close()
		}
		s.db.Close()
		rm()
	}
}

func (s *server) tcp() *httptest.Server {
	if s.ts == nil {
		s.ts = httptest.NewServer(s.mux)
	}
	return s.ts
}

// dropTCP shuts the loopback server down, waiting for outstanding handlers.
func (s *server) dropTCP() {
	if s.ts != nil {
		s.ts.Close()
		s.ts = nil
	}
}

// errReader delivers data and then fails with err.
type errReader struct {
	data []byte
	err  error
}

func (r *errReader) Read(p []byte) (int, error) {
	if len(r.data) == 0 {
		return 0, r.err
	}
	n := copy(p, r.data)
	r.data = r.data[n:]
	return n, nil
}

const contentType = "multipart/form-data; boundary=" + boundary

// post delivers body[:off] of a request whose full body is body. status 0
// means the client saw no response at all.
func (s *server) post(body []byte, off int, cut string) (status int, resp []byte) {
	switch cut {
	case "", "eof":
		req := httptest.NewRequest("POST", "/upload", bytes.NewReader(body[:off]))
		req.Header.Set("Content-Type", contentType)
		rec := httptest.NewRecorder()
		s.mux.ServeHTTP(rec, req)
		return rec.Code, rec.Body.Bytes()
	case "uerr":
		req := httptest.NewRequest("POST", "/upload", &errReader{append([]byte(nil), body[:off]...), io.ErrUnexpectedEOF})
		req.ContentLength = int64(len(body))
		req.Header.Set("Content-Type", contentType)
		rec := httptest.NewRecorder()
		s.mux.ServeHTTP(rec, req)
		return rec.Code, rec.Body.Bytes()
	case "tcp-half", "tcp-close":
		ts := s.tcp()
		conn, err := net.Dial("tcp", ts.Listener.Addr().String())
		if err != nil {
			panic(fmt.Sprintf("cannot dial loopback server: %v", err))
		}
		hdr := fmt.Sprintf("POST /upload HTTP/1.1\r\nHost: c20\r\nContent-Type: %s\r\nContent-Length: %d\r\nConnection: close\r\n\r\n", contentType, len(body))
		_, werr := conn.Write(append([]byte(hdr), body[:off]...))
		if cut == "tcp-close" {
			conn.Close()
			s.dropTCP() // waits until the handler has returned
			return 0, nil
		}
		if werr == nil {
			conn.(*net.TCPConn).CloseWrite()
		}
		raw, _ := io.ReadAll(conn)
		conn.Close()
		s.dropTCP()
		r, err := http.ReadResponse(bufioReader(raw), nil)
		if err != nil {
			return 0, nil
		}
		b, _ := io.ReadAll(r.Body)
		r.Body.Close()
		return r.StatusCode, b
	}
	panic("bad cut mode " + cut)
}

type uploadStatus struct {
	UploadID string   `json:"uploadid"`
	FileIDs  []string `json:"fileids"`
}

// ---------------------------------------------------------------------------
// model

type okFile struct {
	id      string // file id reported by the server
	name    string
	content string
	recs    []rec
	runs    int
}

type okUpload struct {
	id    string
	tag   string
	files []okFile
}

type checker struct {
	c     Case
	s     *server
	v     *vcase.Verdict
	model []okUpload
	ids   []string // every upload ID observed, in creation order
	stop  bool     // a known finding was matched; the rest of the scenario is not evaluated
	// complete earlier files of failed uploads that the property lets stay in the store
	tolerated map[string]bool
	deadInfo
	checkingFailure bool // the left-over files of the failed upload are examined by the caller
}

var idRE = regexp.MustCompile(`^(\d{8})\.([1-9]\d*)$`)

func (k *checker) noteID(id, how string) {
	for _, x := range k.ids {
		if x == id {
			k.v.Failf("upload ID %s handed out twice (%s); IDs so far %v", id, how, k.ids)
			return
		}
	}
	m := idRE.FindStringSubmatch(id)
	if m == nil {
		k.v.Failf("upload ID %q (%s) does not have the form YYYYMMDD.N", id, how)
		return
	}
	if len(k.ids) > 0 {
		p := idRE.FindStringSubmatch(k.ids[len(k.ids)-1])
		if p != nil && p[1] == m[1] {
			a, _ := strconv.ParseUint(p[2], 10, 64)
			b, _ := strconv.ParseUint(m[2], 10, 64)
			if b <= a {
				k.v.Failf("upload ID %s created after %s on the same day but its number is not larger", id, k.ids[len(k.ids)-1])
			}
		}
	}
	k.ids = append(k.ids, id)
}

// requestIDs returns the distinct upload IDs the server used towards the file
// store during the current request.
func (k *checker) requestIDs() []string {
	var out []string
	for _, w := range k.s.ffs.writers {
		id := w.meta["upload"]
		dup := false
		for _, x := range out {
			dup = dup || x == id
		}
		if !dup {
			out = append(out, id)
		}
	}
	return out
}

// storeFiles returns name -> content of everything in the file store.
func (k *checker) storeFiles() map[string]string {
	out := map[string]string{}
	if k.s.local != "" {
		filepath.Walk(k.s.local, func(p string, info os.FileInfo, err error) error {
			if err != nil || info.IsDir() {
				return nil
			}
			rel, _ := filepath.Rel(k.s.local, p)
			b, err := os.ReadFile(p)
			if err != nil {
				panic(err)
			}
			out[filepath.ToSlash(rel)] = string(b)
			return nil
		})
		return out
	}
	for _, n := range k.s.mem.Files() {
		b, ok := k.s.ffs.stored[n]
		if !ok {
			panic("file " + n + " is in the store but was never closed successfully through the wrapper")
		}
		out[n] = string(b)
	}
	return out
}

// checkStored verifies one stored file: sorted server metadata block, blank
// line, then exactly the uploaded content. uploadTime is filled in / compared.
func (k *checker) checkStored(name, got string, uploadID, fileID, fname, content string, uploadTime *string) {
	i := strings.Index(got, "\n\n")
	if i < 0 {
		k.v.Failf("stored file %s has no blank line after the metadata header: %q", name, got)
		return
	}
	hdr, rest := got[:i+1], got[i+2:]
	want := map[string]string{"upload": uploadID, "upload-part": fileID}
	if fname != "" {
		want["upload-file"] = fname
	}
	if k.c.User != "" {
		want["by"] = k.c.User
	}
	prev := ""
	seen := 0
	for _, ln := range strings.Split(strings.TrimSuffix(hdr, "\n"), "\n") {
		j := strings.Index(ln, ": ")
		if j <= 0 {
			k.v.Failf("stored file %s: bad metadata line %q", name, ln)
			return
		}
		key, val := ln[:j], ln[j+2:]
		if key <= prev {
			k.v.Failf("stored file %s: metadata keys not sorted/unique (%q after %q)", name, key, prev)
			return
		}
		prev = key
		if key == "upload-time" {
			if _, err := time.Parse(time.RFC3339, val); err != nil {
				k.v.Failf("stored file %s: upload-time %q is not RFC 3339", name, val)
			}
			if *uploadTime == "" {
				*uploadTime = val
			} else if *uploadTime != val {
				k.v.Failf("stored file %s: upload-time %q differs from %q of the same upload", name, val, *uploadTime)
			}
			seen++
			continue
		}
		w, ok := want[key]
		if !ok || w != val {
			k.v.Failf("stored file %s: metadata %q = %q, want %q (expected keys %v)", name, key, val, w, want)
			return
		}
		seen++
	}
	if seen != len(want)+1 {
		k.v.Failf("stored file %s: metadata header %q lacks some of %v / upload-time", name, hdr, want)
	}
	if rest != content {
		k.v.Failf("stored file %s: content after the header is %q, uploaded %q", name, rest, content)
	}
}

// canonResult renders a query result; upload-time is checked and blanked.
func (k *checker) canonResult(labels map[string]string, content string, times map[string]string) string {
	l := map[string]string{}
	for kk, vv := range labels {
		l[kk] = vv
	}
	if t, ok := l["upload-time"]; ok {
		if _, err := time.Parse(time.RFC3339, t); err != nil {
			k.v.Failf("record has upload-time %q, not RFC 3339", t)
		}
		up := l["upload"]
		if old, ok := times[up]; ok && old != t {
			k.v.Failf("records of upload %s carry different upload-times %q and %q", up, old, t)
		}
		times[up] = t
		l["upload-time"] = "*"
	}
	return canonLabels(l) + " | " + content
}

func (k *checker) query(q string, times map[string]string) []string {
	qq := k.s.db.Query(q)
	defer qq.Close()
	var out []string
	for qq.Next() {
		r := qq.Result()
		out = append(out, k.canonResult(r.Labels, r.Content, times))
		k.v.Sub++
	}
	if err := qq.Err(); err != nil {
		k.v.Failf("query %q failed: %v", q, err)
	}
	sort.Strings(out)
	return out
}

func (k *checker) expectRecs(u okUpload, only int) []string {
	var out []string
	for i, f := range u.files {
		if only >= 0 && i != only {
			continue
		}
		for _, r := range f.recs {
			l := map[string]string{"upload": u.id, "upload-part": f.id, "upload-time": "*"}
			for kk, vv := range r.labels {
				l[kk] = vv
			}
			if f.name != "" {
				l["upload-file"] = f.name
			}
			if k.c.User != "" {
				l["by"] = k.c.User
			}
			out = append(out, canonLabels(l)+" | "+r.line)
		}
	}
	sort.Strings(out)
	return out
}

func diff(got, want []string) string {
	if len(got) == len(want) {
		same := true
		for i := range got {
			same = same && got[i] == want[i]
		}
		if same {
			return ""
		}
	}
	return fmt.Sprintf("got %d results %q, want %d results %q", len(got), got, len(want), want)
}

func (k *checker) httpGet(path string) (int, string) {
	req := httptest.NewRequest("GET", path, nil)
	rec := httptest.NewRecorder()
	k.s.mux.ServeHTTP(rec, req)
	return rec.Code, rec.Body.String()
}

// verifyState compares everything observable with the model. dead lists the
// IDs and tags of failed uploads, which must not be visible anywhere.
func (k *checker) verifyState(when string, deadIDs []string, deadTags []string) {
	if k.v.Violation != "" {
		return
	}
	times := map[string]string{}
	// all records
	var wantAll []string
	for _, u := range k.model {
		wantAll = append(wantAll, k.expectRecs(u, -1)...)
	}
	sort.Strings(wantAll)
	for _, q := range []string{"upload>", ""} {
		if d := diff(k.query(q, times), wantAll); d != "" {
			k.v.Failf("%s: query %q: %s", when, q, d)
			return
		}
	}
	// per upload, per file, per tag
	for _, u := range k.model {
		if d := diff(k.query("upload:"+u.id, times), k.expectRecs(u, -1)); d != "" {
			k.v.Failf("%s: query upload:%s: %s", when, u.id, d)
			return
		}
		if d := diff(k.query("tag:"+u.tag, times), k.expectRecs(u, -1)); d != "" {
			k.v.Failf("%s: query tag:%s: %s", when, u.tag, d)
			return
		}
		for i, f := range u.files {
			if d := diff(k.query("upload-part:"+f.id, times), k.expectRecs(u, i)); d != "" {
				k.v.Failf("%s: query upload-part:%s: %s", when, f.id, d)
				return
			}
		}
	}
	// per label: every record of a successful upload is found through each of its labels
	// (the index has one row per record and label, written in batches)
	for _, u := range k.model {
		byLabel := map[[2]string][]string{}
		for i, f := range u.files {
			for _, r := range f.recs {
				l := map[string]string{"upload": u.id, "upload-part": f.id, "upload-time": "*"}
				for kk, vv := range r.labels {
					l[kk] = vv
				}
				if f.name != "" {
					l["upload-file"] = f.name
				}
				if k.c.User != "" {
					l["by"] = k.c.User
				}
				line := canonLabels(l) + " | " + r.line
				for kk, vv := range l {
					if kk == "upload-time" || kk == "upload" || vv == "" || strings.ContainsAny(vv, "\"\\") {
						continue
					}
					byLabel[[2]string{kk, vv}] = append(byLabel[[2]string{kk, vv}], line)
				}
				// labels derived from the benchmark name (not printed with the record, but indexed):
				// name, gomaxprocs from a trailing -N, key=value and positional sub-parts
				if fs := strings.Fields(r.line); len(fs) > 0 && strings.HasPrefix(fs[0], "Benchmark") {
					for kk, vv := range nameLabels(strings.TrimPrefix(fs[0], "Benchmark")) {
						if _, clash := l[kk]; clash || vv == "" || strings.ContainsAny(vv, "\"\\") {
							continue
						}
						byLabel[[2]string{kk, vv}] = append(byLabel[[2]string{kk, vv}], line)
					}
				}
			}
			_ = i
		}
		var lks [][2]string
		for lk := range byLabel {
			lks = append(lks, lk)
		}
		sort.Slice(lks, func(a, b int) bool { return lks[a][0]+"\x00"+lks[a][1] < lks[b][0]+"\x00"+lks[b][1] })
		for _, lk := range lks {
			want := byLabel[lk]
			sort.Strings(want)
			term := lk[0] + ":" + lk[1]
			if strings.ContainsAny(term, " \t") {
				term = "\"" + term + "\""
			}
			if d := diff(k.query("upload:"+u.id+" "+term, times), want); d != "" {
				k.v.Failf("%s: query upload:%s %s: %s", when, u.id, term, d)
				return
			}
		}
		if len(lks) > 40 {
			k.v.Label("queried_by_more_than_40_labels")
		}
	}
	for _, id := range deadIDs {
		if got := k.query("upload:"+id, times); len(got) != 0 {
			k.v.Failf("%s: failed upload %s still has %d queryable records: %q", when, id, len(got), got)
			return
		}
		if got := k.query("upload-part>"+id+"/ upload-part<"+id+"0", times); len(got) != 0 {
			k.v.Failf("%s: failed upload %s still has %d records queryable by upload-part: %q", when, id, len(got), got)
			return
		}
	}
	for _, tg := range deadTags {
		if tg == "" {
			continue
		}
		if got := k.query("tag:"+tg, times); len(got) != 0 {
			k.v.Failf("%s: failed upload (tag %s) still has %d queryable records: %q", when, tg, len(got), got)
			return
		}
	}
	// listings: most recent first, successful uploads only
	type row struct {
		id    string
		count int
	}
	lists := map[string][]row{}
	for _, q := range []string{"", "upload>", "tag>"} {
		ul := k.s.db.ListUploads(q, []string{"tag"}, 0)
		var rows []row
		for ul.Next() {
			in := ul.Info()
			rows = append(rows, row{in.UploadID, in.Count})
			for _, u := range k.model {
				if u.id == in.UploadID && in.LabelValues["tag"] != u.tag {
					k.v.Failf("%s: ListUploads(%q): upload %s reports tag %q, want %q", when, q, u.id, in.LabelValues["tag"], u.tag)
				}
			}
		}
		if err := ul.Err(); err != nil {
			k.v.Failf("%s: ListUploads(%q) failed: %v", when, q, err)
		}
		ul.Close()
		lists[q] = rows
		if len(rows) != len(k.model) {
			k.v.Failf("%s: ListUploads(%q) lists %v, want exactly the successful uploads %v (most recent first)", when, q, rows, k.modelIDs())
			return
		}
		for i, r := range rows {
			u := k.model[len(k.model)-1-i]
			if r.id != u.id {
				k.v.Failf("%s: ListUploads(%q) lists %v, want exactly the successful uploads %v most recent first", when, q, rows, k.modelIDs())
				return
			}
			lines, runs := 0, 0
			for _, f := range u.files {
				lines += len(f.recs)
				runs += f.runs
			}
			// The count is "the number of matching records"; consecutive lines
			// with identical labels may be stored as one record.
			if r.count < runs || r.count > lines {
				k.v.Failf("%s: ListUploads(%q) counts %d records for upload %s, which has %d benchmark lines in %d label runs", when, q, r.count, u.id, lines, runs)
				return
			}
		}
	}
	// limited listings: the newest successful uploads, failed ones take no slot
	for _, lim := range []int{1, 2} {
		ul := k.s.db.ListUploads("", nil, lim)
		var ids []string
		for ul.Next() {
			ids = append(ids, ul.Info().UploadID)
		}
		err := ul.Err()
		ul.Close()
		if err != nil {
			k.v.Failf("%s: ListUploads(\"\", nil, %d) failed: %v", when, lim, err)
			return
		}
		var want []string
		for i := len(k.model) - 1; i >= 0 && len(want) < lim; i-- {
			want = append(want, k.model[i].id)
		}
		if fmt.Sprint(ids) != fmt.Sprint(want) {
			k.v.Failf("%s: ListUploads(\"\", nil, %d) lists %v, want the %d newest successful uploads %v", when, lim, ids, lim, want)
			return
		}
	}
	// the same through HTTP
	code, body := k.httpGet("/uploads")
	if code != 200 {
		k.v.Failf("%s: GET /uploads answered %d: %s", when, code, body)
		return
	}
	dec := json.NewDecoder(strings.NewReader(body))
	var hrows []row
	for {
		var ui storage.UploadInfo
		if err := dec.Decode(&ui); err != nil {
			if err != io.EOF {
				k.v.Failf("%s: GET /uploads: bad JSON: %v in %q", when, err, body)
			}
			break
		}
		hrows = append(hrows, row{ui.UploadID, ui.Count})
	}
	if fmt.Sprint(hrows) != fmt.Sprint(lists[""]) {
		k.v.Failf("%s: GET /uploads gives %v, ListUploads gives %v", when, hrows, lists[""])
		return
	}
	code, body = k.httpGet("/search?q=" + url.QueryEscape("upload>"))
	if code != 200 {
		k.v.Failf("%s: GET /search answered %d: %s", when, code, body)
		return
	}
	nb := 0
	for _, ln := range strings.Split(body, "\n") {
		if strings.HasPrefix(ln, "Benchmark") {
			nb++
		}
	}
	if nb != len(wantAll) {
		k.v.Failf("%s: GET /search?q=upload> returns %d benchmark lines, want %d:\n%s", when, nb, len(wantAll), body)
		return
	}
	// file store: every file of every successful upload exactly once, intact
	files := k.storeFiles()
	for _, u := range k.model {
		ut := times[u.id]
		for _, f := range u.files {
			name := "uploads/" + f.id + ".txt"
			got, ok := files[name]
			if !ok {
				k.v.Failf("%s: file %s of successful upload %s is not in the store (store has %v)", when, name, u.id, keys(files))
				return
			}
			if n := k.s.ffs.storedTimes[name]; n != 1 || k.s.ffs.created[name] != 1 {
				k.v.Failf("%s: file %s was created %d times and stored %d times, want once", when, name, k.s.ffs.created[name], n)
				return
			}
			k.checkStored(name, got, u.id, f.id, f.name, f.content, &ut)
			delete(files, name)
		}
	}
	for _, name := range keys(files) {
		if !k.tolerated[name] && !k.checkingFailure {
			k.v.Failf("%s: the store holds %s (%q), which belongs to no successful upload", when, name, files[name])
			return
		}
	}
}

func keys(m map[string]string) []string {
	var out []string
	for k := range m {
		out = append(out, k)
	}
	sort.Strings(out)
	return out
}

func (k *checker) modelIDs() []string {
	var out []string
	for _, u := range k.model {
		out = append(out, u.id)
	}
	return out
}

// accept books a 2xx answer: parses the status, checks IDs and adds the
// upload to the model. files lists, per delivered file, its name, content,
// records and runs in request order.
func (k *checker) accept(what string, resp []byte, tag string, files []okFile) bool {
	var st uploadStatus
	if err := json.Unmarshal(resp, &st); err != nil {
		k.v.Failf("%s: 2xx answer is not the documented JSON: %v in %q", what, err, resp)
		return false
	}
	k.noteID(st.UploadID, what)
	if len(st.FileIDs) != len(files) {
		k.v.Failf("%s: %d files uploaded, server reports file ids %v", what, len(files), st.FileIDs)
		return false
	}
	seen := map[string]bool{}
	for i, fid := range st.FileIDs {
		if !strings.HasPrefix(fid, st.UploadID+"/") || seen[fid] {
			k.v.Failf("%s: file ids %v are not distinct ids under upload %s", what, st.FileIDs, st.UploadID)
			return false
		}
		seen[fid] = true
		files[i].id = fid
	}
	for _, id := range k.requestIDs() {
		if id != st.UploadID {
			k.v.Failf("%s: server answered upload id %s but wrote files under upload id %s", what, st.UploadID, id)
			return false
		}
	}
	k.model = append(k.model, okUpload{id: st.UploadID, tag: tag, files: files})
	return true
}

func fullFiles(u Upload, tag string) []okFile {
	var out []okFile
	for _, f := range u.Files {
		recs, runs := f.records(tag, len(f.Rows))
		out = append(out, okFile{name: f.Name, content: f.content(tag, len(f.Rows)), recs: recs, runs: runs})
	}
	return out
}

// good performs a fault-free upload, which must succeed.
func (k *checker) good(what string, u Upload, tag string) {
	if k.v.Violation != "" {
		return
	}
	k.s.ffs.begin(-1, false, false)
	if u.Via == "client" {
		ts := k.s.tcp()
		cl := &storage.Client{BaseURL: ts.URL, HTTPClient: ts.Client()}
		up := cl.NewUpload(context.Background())
		for _, f := range u.Files {
			w, err := up.CreateFile(f.Name)
			if err != nil {
				up.Abort()
				k.v.Failf("%s: client CreateFile failed: %v", what, err)
				return
			}
			io.WriteString(w, f.content(tag, len(f.Rows)))
		}
		st, err := up.Commit()
		if err != nil {
			k.v.Failf("%s: fault-free upload through storage.Client failed: %v", what, err)
			return
		}
		b, _ := json.Marshal(uploadStatus{st.UploadID, st.FileIDs})
		k.accept(what, b, tag, fullFiles(u, tag))
		return
	}
	bd := buildBody(uploadParts(u, tag))
	code, resp := k.s.post(bd.body, len(bd.body), "eof")
	if code/100 != 2 {
		k.v.Failf("%s: fault-free upload answered %d: %s", what, code, resp)
		return
	}
	k.accept(what, resp, tag, fullFiles(u, tag))
}

// Check runs one scenario.
func Check(c Case) (v vcase.Verdict) {
	if !wellFormed(c) {
		v.Failf("malformed case")
		return
	}
	s, closeAll := newServer(c)
	defer closeAll()
	k := &checker{c: c, s: s, v: &v, tolerated: map[string]bool{}}
	v.Label("kind=" + c.Fault.Kind)
	v.Label("store=" + c.Store)
	v.Label(fmt.Sprintf("history=%d", len(c.History)))
	v.Label(fmt.Sprintf("files=%d", len(c.Target.Files)))

	for i, h := range c.History {
		k.good(fmt.Sprintf("history upload %d", i), h, fmt.Sprintf("h%d", i))
	}
	k.verifyState("after the history", nil, nil)
	if v.Violation != "" {
		return
	}

	k.faulty()
	if v.Violation != "" || k.stop {
		return
	}

	k.good("follow-up upload", c.Follow, "f")
	if v.Violation != "" {
		v.Violation = "after the faulty attempt: " + v.Violation
		return
	}
	k.verifyState("after the follow-up upload", k.deadIDs, []string{k.deadTag})
	return
}
