package c20

import (
	"encoding/json"
	"fmt"
	"os"
	"testing"
)

func TestDbg(t *testing.T) {
	b, _ := os.ReadFile(os.Getenv("DBG_CASE"))
	var c Case
	if err := json.Unmarshal(b, &c); err != nil {
		t.Fatal(err)
	}
	bd := buildBody(uploadParts(c.Target, "t"))
	fmt.Printf("len=%d closeEnd=%d spans=%+v\n", len(bd.body), bd.closeEnd, bd.files)
	fmt.Printf("delivered tail: %q\n", bd.body[max(0, c.Fault.Off-80):c.Fault.Off])
	fmt.Printf("rest: %q\n", bd.body[c.Fault.Off:min(len(bd.body), c.Fault.Off+60)])
	v := Check(c)
	fmt.Printf("verdict: %+v\n", v)
}
