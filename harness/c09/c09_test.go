// Package c09: keys sort by the documented per-field orders, totally and
// reproducibly.
package c09

import (
	"fmt"
	"math"
	"math/big"
	"regexp"
	"strconv"
	"strings"
	"testing"

	"golang.org/x/perf/benchfmt"
	"golang.org/x/perf/benchproc"
	"pgregory.net/rapid"
	"verif/harness/lib/refbench"
	"verif/harness/lib/vcase"
)

type Cfg struct{ K, V string }

type Res struct {
	Name string
	Cfg  []Cfg // file configuration
	// with a unit projection (Case.WithUnit): the units of the result's measurements, and whether
	// the result is projected as a whole (Project: .unit stays empty) or per measurement
	Units []string `json:",omitempty"`
	Whole bool     `json:",omitempty"`
}

type FieldSpec struct {
	Key   string
	Order string   // "", "alpha", "num", "fixed"
	Fixed []string `json:",omitempty"`
}

type Case struct {
	Fields []FieldSpec
	Stream []Res
	Perms  [][]int // permutations (as index lists, applied modulo the number of distinct keys)
	// WithUnit: the expression is parsed with ParseWithUnit; a .unit field (first-observation
	// order) follows the written fields
	WithUnit bool `json:",omitempty"`
}

func exprText(fs []FieldSpec) string {
	var parts []string
	for _, f := range fs {
		s := strconv.Quote(f.Key)
		switch f.Order {
		case "alpha", "num":
			s += "@" + f.Order
		case "fixed":
			var ws []string
			for _, w := range f.Fixed {
				ws = append(ws, strconv.Quote(w))
			}
			s += "@(" + strings.Join(ws, " ") + ")"
		}
		parts = append(parts, s)
	}
	return strings.Join(parts, " ")
}

func mkResult(r Res) *benchfmt.Result {
	res := &benchfmt.Result{Name: benchfmt.Name(r.Name), Iters: 1, Values: []benchfmt.Value{{Value: 1, Unit: "u"}}}
	seen := map[string]bool{}
	for _, c := range r.Cfg {
		if seen[c.K] || c.K == "" || c.V == "" {
			continue
		}
		seen[c.K] = true
		res.Config = append(res.Config, benchfmt.Config{Key: c.K, Value: []byte(c.V), File: true})
	}
	return res
}

// ---------------------------------------------------------------------------
// reference numeric reading of values (only for unambiguous spellings)

// a number, an optional metric or IEC prefix, and an optional unit word (letters and '/': "10Mbit",
// "2Gbit/s", "3KiB"); the prefix is IEC exactly when an 'i' follows it directly
var sufRe = regexp.MustCompile(`^[+]?([0-9]+(?:\.[0-9]*)?|\.[0-9]+)([kKMGTPEZY]i?)?[bB]?(?:[A-Za-z/]*)$`)

// a text without any digit is not a number (the spellings of infinity and NaN are recognised before)
var wordRe = regexp.MustCompile(`^[^0-9]+$`)

// numClass: 1 = number (val set; nan for NaN), 2 = non-number, 0 = ambiguous
func numClass(s string) (class int, val *big.Rat, nan bool, inf int) {
	if f, err := strconv.ParseFloat(s, 64); err == nil {
		switch {
		case math.IsNaN(f):
			return 1, nil, true, 0
		case math.IsInf(f, 1):
			return 1, nil, false, 1
		case math.IsInf(f, -1):
			return 1, nil, false, -1
		}
		r, _ := new(big.Rat).SetString(strings.TrimPrefix(s, "+"))
		if r == nil {
			r = new(big.Rat).SetFloat64(f)
		}
		return 1, r, false, 0
	}
	if m := sufRe.FindStringSubmatch(s); m != nil {
		r, ok := new(big.Rat).SetString(m[1])
		if !ok {
			return 0, nil, false, 0
		}
		if m[2] != "" {
			exp := 1 + strings.IndexByte("KMGTPEZY", strings.ToUpper(m[2][:1])[0])
			base := int64(1000)
			if strings.HasSuffix(m[2], "i") {
				base = 1024
			}
			r.Mul(r, new(big.Rat).SetInt(new(big.Int).Exp(big.NewInt(base), big.NewInt(int64(exp)), nil)))
		}
		return 1, r, false, 0
	}
	if wordRe.MatchString(s) && s != "" {
		return 2, nil, false, 0
	}
	return 0, nil, false, 0
}

// refNum returns -1/+1 when the documented numeric order strictly orders a
// before/after b, 0 when it imposes nothing (tie, ambiguity, or a margin
// below 1e-9 relative, where float arithmetic may legitimately differ).
func refNum(a, b string) int {
	ca, va, nana, infa := numClass(a)
	cb, vb, nanb, infb := numClass(b)
	if ca == 0 || cb == 0 {
		return 0
	}
	if ca != cb {
		if ca == 1 {
			return -1 // numbers before non-numbers
		}
		return 1
	}
	if ca == 2 {
		return 0
	}
	switch {
	case nana && nanb:
		return 0
	case nana:
		return 1 // NaN after other numbers
	case nanb:
		return -1
	}
	if infa != 0 || infb != 0 {
		switch {
		case infa == infb:
			return 0
		case infa < infb:
			return -1
		default:
			return 1
		}
	}
	d := new(big.Rat).Sub(va, vb)
	mag := new(big.Rat).Abs(va)
	if m2 := new(big.Rat).Abs(vb); m2.Cmp(mag) > 0 {
		mag = m2
	}
	tol := new(big.Rat).Mul(mag, big.NewRat(1, 1000000000))
	if new(big.Rat).Abs(d).Cmp(tol) <= 0 {
		return 0
	}
	return d.Sign()
}

// ---------------------------------------------------------------------------

type flatField struct {
	name    string
	spec    FieldSpec
	inGroup bool           // a .config sub-key
	rank    map[string]int // first-observation ranks
}

// unesc turns the four-character sequences \xHH of a case's texts into the byte they name
// (cases are stored as JSON, which cannot hold bytes that are not UTF-8).
var escRe = regexp.MustCompile(`\\x[0-9a-f]{2}`)

func unesc(s string) string {
	if !strings.Contains(s, `\x`) {
		return s
	}
	return escRe.ReplaceAllStringFunc(s, func(m string) string {
		b, _ := strconv.ParseUint(m[2:], 16, 8)
		return string([]byte{byte(b)})
	})
}

func Check(c Case) (v vcase.Verdict) {
	if len(c.Fields) == 0 || len(c.Stream) == 0 {
		return
	}
	{
		st := make([]Res, len(c.Stream))
		for i, r := range c.Stream {
			r.Name = unesc(r.Name)
			cf := make([]Cfg, len(r.Cfg))
			for j, kv := range r.Cfg {
				cf[j] = Cfg{kv.K, unesc(kv.V)}
			}
			r.Cfg = cf
			st[i] = r
		}
		c.Stream = st
	}
	text := exprText(c.Fields)
	var pp benchproc.ProjectionParser
	flt, _ := benchproc.NewFilter("*")
	var proj *benchproc.Projection
	var err error
	if c.WithUnit {
		proj, _, err = pp.ParseWithUnit(text, flt)
		v.Label("unit_projection")
	} else {
		proj, err = pp.Parse(text, flt)
	}
	if err != nil {
		v.Failf("Parse(%q): %v", text, err)
		return
	}
	// project the stream (through the filter implied by fixed lists)
	var keys []benchproc.Key
	seenKey := map[benchproc.Key]bool{}
	var kept []Res        // one entry per projected tuple, in the order of projection
	var keptUnit []string // its .unit value (unit projections only)
	note := func(k benchproc.Key, r Res, unit string) {
		kept, keptUnit = append(kept, r), append(keptUnit, unit)
		if !seenKey[k] {
			seenKey[k] = true
			keys = append(keys, k)
		}
	}
	for _, r := range c.Stream {
		res := mkResult(r)
		if c.WithUnit && len(r.Units) > 0 {
			res.Values = res.Values[:0]
			for i, u := range r.Units {
				res.Values = append(res.Values, benchfmt.Value{Value: float64(i + 1), Unit: u})
			}
		}
		if ok, _ := flt.Apply(res); !ok {
			continue
		}
		if c.WithUnit && !r.Whole {
			ks := proj.ProjectValues(res)
			if len(ks) != len(res.Values) {
				v.Failf("ProjectValues returned %d keys for %d measurements", len(ks), len(res.Values))
				return
			}
			for i, k := range ks {
				note(k, r, res.Values[i].Unit)
			}
			continue
		}
		note(proj.Project(res), r, "")
	}
	// reference: flattened fields and first-observation ranks
	specOf := map[string]FieldSpec{}
	for _, f := range c.Fields {
		specOf[f.Key] = f
	}
	var flat []*flatField
	byName := map[string]*flatField{}
	specific := map[string]bool{}
	for _, f := range c.Fields {
		if f.Key != ".config" && !strings.HasPrefix(f.Key, "/") && !strings.HasPrefix(f.Key, ".") {
			specific[f.Key] = true
		}
	}
	implFlat := proj.FlattenedFields()
	for _, f := range implFlat {
		ff := &flatField{name: f.Name, rank: map[string]int{}}
		if s, ok := specOf[f.Name]; ok && f.Name != ".config" {
			ff.spec = s
		} else if c.WithUnit && f.Name == ".unit" {
			ff.spec = FieldSpec{Key: ".unit"}
		} else {
			ff.spec = specOf[".config"]
			ff.inGroup = true
			if _, has := specOf[".config"]; !has || specific[f.Name] {
				v.Failf("unexpected flattened field %q for expression %q", f.Name, text)
				return
			}
		}
		flat = append(flat, ff)
		byName[f.Name] = ff
	}
	valueOf := func(r Res, ff *flatField) string {
		if ff.inGroup {
			for _, cf := range r.Cfg {
				if cf.K == ff.name {
					return cf.V
				}
			}
			return ""
		}
		switch {
		case ff.name == ".name":
			b, _ := refbench.SplitName(r.Name)
			return b
		case ff.name == ".fullname":
			return r.Name // no sub-name key is projected together with .fullname by the generator
		case strings.HasPrefix(ff.name, "/"):
			return refbench.NameKey(r.Name, ff.name[1:])
		}
		for _, cf := range r.Cfg {
			if cf.K == ff.name {
				return cf.V
			}
		}
		return ""
	}
	for ki, r := range kept {
		for _, ff := range flat {
			val := valueOf(r, ff)
			if c.WithUnit && ff.name == ".unit" && !ff.inGroup {
				val = keptUnit[ki]
			}
			if ff.inGroup && val == "" {
				continue // a missing .config sub-key is not an observation of that key
			}
			if _, ok := ff.rank[val]; !ok {
				ff.rank[val] = len(ff.rank)
			}
		}
	}
	// per-key values as the implementation reports them must be the reference values
	type tup []string
	tuples := make([]tup, len(keys))
	for i, k := range keys {
		for j, f := range implFlat {
			tuples[i] = append(tuples[i], k.Get(f))
			_ = j
		}
	}

	// refCmp: -1/+1 strict documented order, 0 nothing imposed
	refCmp := func(a, b tup) int {
		for j, ff := range flat {
			x, y := a[j], b[j]
			if x == y {
				continue
			}
			switch ff.spec.Order {
			case "alpha":
				return strings.Compare(x, y)
			case "num":
				return refNum(x, y)
			case "fixed":
				px, py, nx, ny := -1, -1, 0, 0
				for i, w := range ff.spec.Fixed {
					if w == x {
						px = i
						nx++
					}
					if w == y {
						py = i
						ny++
					}
				}
				if nx != 1 || ny != 1 {
					return 0 // value listed twice (or not at all): nothing imposed
				}
				if px < py {
					return -1
				}
				return 1
			default: // first observation
				rx, okx := ff.rank[x]
				ry, oky := ff.rank[y]
				if !okx || !oky {
					return 0 // missing value of a .config sub-key
				}
				if rx < ry {
					return -1
				}
				return 1
			}
		}
		return 0
	}

	n := len(keys)
	lessM := make([][]bool, n)
	for i := range keys {
		lessM[i] = make([]bool, n)
		for j := range keys {
			lessM[i][j] = keys[i].Less(keys[j])
		}
	}
	defined := 0
	laterField := false
	for i := 0; i < n; i++ {
		if lessM[i][i] {
			v.Failf("expression %q: key %q is less than itself", text, keys[i])
			return
		}
		for j := i + 1; j < n; j++ {
			v.Sub++
			if lessM[i][j] == lessM[j][i] {
				v.Failf("expression %q: keys %q and %q: a<b=%v and b<a=%v (not a strict total order)", text, keys[i], keys[j], lessM[i][j], lessM[j][i])
				return
			}
			rcmp := refCmp(tuples[i], tuples[j])
			if rcmp != 0 {
				defined++
				if (rcmp < 0) != lessM[i][j] {
					v.Failf("expression %q: key {%s} sorts %s key {%s}, documented order says the opposite (fields %v; first-observation ranks %v)",
						text, strings.Join(tuples[i], "|"), map[bool]string{true: "before", false: "after"}[lessM[i][j]], strings.Join(tuples[j], "|"), names(flat), ranks(flat))
					return
				}
			}
			if len(tuples[i]) > 1 && tuples[i][0] == tuples[j][0] {
				laterField = true
			}
		}
	}
	// transitivity
	for i := 0; i < n; i++ {
		for j := 0; j < n; j++ {
			if !lessM[i][j] {
				continue
			}
			for k := 0; k < n; k++ {
				if lessM[j][k] && !lessM[i][k] {
					v.Failf("expression %q: not transitive: %q < %q < %q but not %q < %q", text, keys[i], keys[j], keys[k], keys[i], keys[k])
					return
				}
			}
		}
	}
	// read-only queries on groups of keys (which fields distinguish them?) must leave
	// every comparison as it was
	if n >= 2 {
		benchproc.NonSingularFields(keys)
		for i := 0; i+1 < n; i++ {
			benchproc.NonSingularFields([]benchproc.Key{keys[i], keys[i+1]})
			benchproc.NonSingularFields([]benchproc.Key{keys[0], keys[i+1]})
		}
		for i := 0; i < n; i++ {
			for j := 0; j < n; j++ {
				if keys[i].Less(keys[j]) != lessM[i][j] {
					v.Failf("expression %q: %q < %q was %v and is %v after NonSingularFields was asked about groups of these keys", text, keys[i], keys[j], lessM[i][j], !lessM[i][j])
					return
				}
			}
		}
	}
	// SortKeys: sorted permutation, same for every arrangement
	var first []benchproc.Key
	arrangements := append([][]int{nil}, c.Perms...)
	for ai, perm := range arrangements {
		arr := make([]benchproc.Key, n)
		copy(arr, keys)
		if perm != nil && n > 1 {
			// Fisher-Yates driven by the generated indices
			for i := n - 1; i > 0; i-- {
				j := perm[i%len(perm)] % (i + 1)
				arr[i], arr[j] = arr[j], arr[i]
			}
		}
		in := map[benchproc.Key]int{}
		for _, k := range arr {
			in[k]++
		}
		benchproc.SortKeys(arr)
		for _, k := range arr {
			in[k]--
		}
		for _, cnt := range in {
			if cnt != 0 {
				v.Failf("SortKeys result is not a permutation of its input")
				return
			}
		}
		if len(arr) != n {
			v.Failf("SortKeys changed the slice length")
			return
		}
		for i := 0; i+1 < n; i++ {
			if arr[i+1].Less(arr[i]) {
				v.Failf("SortKeys output not sorted at %d: %q > %q", i, arr[i], arr[i+1])
				return
			}
		}
		if ai == 0 {
			first = arr
		} else {
			for i := range arr {
				if arr[i] != first[i] {
					v.Failf("SortKeys depends on the initial arrangement: position %d is %q or %q", i, first[i], arr[i])
					return
				}
			}
		}
	}
	// labels
	kinds := map[string]bool{}
	for _, ff := range flat {
		kinds[ff.spec.Order] = true
		if ff.inGroup && ff.spec.Order == "" {
			v.Label("first_in_config")
		}
	}
	for _, t := range tuples {
		for j, x := range t {
			if flat[j].spec.Order == "num" {
				if cl, _, nan, _ := numClass(x); cl == 1 && nan {
					v.Label("nan")
				} else if cl == 0 {
					v.Label("num_ambiguous")
				}
			}
			if x == "" {
				v.Label("missing_value")
			}
		}
	}
	if defined > 0 {
		v.Label("order_defined_pairs")
	}
	v.NonTrivial = n >= 4 && len(kinds) >= 2 && laterField
	return
}

func names(fs []*flatField) []string {
	var ns []string
	for _, f := range fs {
		ns = append(ns, f.name+"@"+f.spec.Order)
	}
	return ns
}

func ranks(fs []*flatField) string {
	var sb strings.Builder
	for _, f := range fs {
		if f.spec.Order == "" {
			fmt.Fprintf(&sb, "%s:%v ", f.name, f.rank)
		}
	}
	return sb.String()
}

// ---------------------------------------------------------------------------

var numUnamb = []string{"12", "1.5", "2k", "1Mi", "3GiB", "1e3", "NaN", "inf", "abc", "xyz", "100", "0.5", "1K", "2048", "1Ki", "-3", "10", "9", "1000", "1kB", "5B", "big",
	"2G", "3T", "1P", "2E", "1Z", "2Y", "1Ti", "2Pi", "1Ei", "2EiB", "1Zi", "2ZiB", "1Yi", "3YiB", "1.5Gi", "999Zi", "1e30", "1e21", ".5k", ".25Mi", "5.k", ".5", "0.5k", "400", "200Ki", "5000",
	// plain numbers that need more than 24 bits, or more than float32's range, to tell apart
	"010", "016", "0100", "070", "15", "70", "08", "0x10", "1_000",
	"99999999", "100000001", "16777217", "16777216", "1e39", "2e38", "9007199254740993", "123456789.5", "33554433",
	// no digit at all: not numbers, whatever dots and signs they contain
	"...", "N.A.", ".", "-.", "..", "a.b", "-", "+", "e", ".k", "kB", "Ki",
	// prefixed numbers followed by a unit word
	"+5K", "+2Ki", "+7", "+3kB", "10Mbit", "10300k", "2Gbit/s", "1500Mbit/s", "5kitems", "3Kibit", "2Mibit", "1Gbps", "9Mbit", "9437184bit", "1200kbit"}
var numArb = []string{"x1", "1k2", "..", "1m", "v2.0", "1.2.3", "k", "0x10", "1_0", "٣"}
// (\xHH stands for that byte: values that are not UTF-8 sort by their bytes like any other)
var wordVals = []string{"linux", "darwin", "b", "a", "c", "Z", "é", "aa", "B", `caf\xe9`, `caf\xc3\xa9`, `\x80`, `caf\xff`, "café", `\xf0\x9f\x98\x80`, `z\xc3`}

func genVal(t *rapid.T, order string) string {
	switch order {
	case "num":
		if vcase.OneIn(t, 5, "arb") {
			return rapid.SampledFrom(numArb).Draw(t, "numarb")
		}
		return rapid.SampledFrom(numUnamb).Draw(t, "numunamb")
	default:
		return rapid.SampledFrom(wordVals).Draw(t, "word")
	}
}

func Gen(t *rapid.T) Case {
	var c Case
	pool := []string{"/size", "/kind", "goos", "pkg", ".config", "note"}
	nf := rapid.IntRange(1, 4).Draw(t, "nfields")
	used := map[string]bool{}
	for i := 0; i < nf; i++ {
		k := rapid.SampledFrom(pool).Draw(t, "key")
		if used[k] {
			continue
		}
		used[k] = true
		f := FieldSpec{Key: k}
		switch rapid.IntRange(0, 4).Draw(t, "order") {
		case 0, 1:
		case 2:
			f.Order = "alpha"
		case 3:
			f.Order = "num"
		case 4:
			if k != ".config" {
				f.Order = "fixed"
				m := rapid.IntRange(1, 5).Draw(t, "nfixed")
				for j := 0; j < m; j++ {
					f.Fixed = append(f.Fixed, rapid.SampledFrom(append(append([]string{}, wordVals[:5]...), numUnamb[:4]...)).Draw(t, "fixedv"))
				}
			}
		}
		c.Fields = append(c.Fields, f)
	}
	orderOf := map[string]string{}
	for _, f := range c.Fields {
		orderOf[f.Key] = f.Order
	}
	cfgOrder := orderOf[".config"]
	ns := rapid.IntRange(5, 40).Draw(t, "nstream")
	extraCfg := []string{"cpu", "commit", "extra"}
	for i := 0; i < ns; i++ {
		var r Res
		name := rapid.SampledFrom([]string{"A", "B"}).Draw(t, "base")
		if used["/size"] && !vcase.OneIn(t, 6, "nosize") {
			v := genVal(t, orderOf["/size"])
			if orderOf["/size"] == "fixed" {
				v = rapid.SampledFrom(orderFixed(c.Fields, "/size")).Draw(t, "fsz")
			}
			name += "/size=" + v
		}
		if used["/kind"] && !vcase.OneIn(t, 6, "nokind") {
			v := genVal(t, orderOf["/kind"])
			if orderOf["/kind"] == "fixed" {
				v = rapid.SampledFrom(orderFixed(c.Fields, "/kind")).Draw(t, "fkd")
			}
			name += "/kind=" + v
		}
		r.Name = name
		for _, k := range []string{"goos", "pkg", "note"} {
			if used[k] && !vcase.OneIn(t, 6, "missing") {
				v := genVal(t, orderOf[k])
				if orderOf[k] == "fixed" {
					v = rapid.SampledFrom(orderFixed(c.Fields, k)).Draw(t, "ffx")
				}
				r.Cfg = append(r.Cfg, Cfg{k, v})
			}
		}
		if used[".config"] {
			for _, k := range extraCfg {
				// keys appear only after a while, so that values are first seen after other keys exist
				if i >= rapid.IntRange(0, 6).Draw(t, "appear") && rapid.Bool().Draw(t, "has") {
					r.Cfg = append(r.Cfg, Cfg{k, genVal(t, cfgOrder)})
				}
			}
		}
		c.Stream = append(c.Stream, r)
	}
	if vcase.OneIn(t, 5, "withunit") {
		c.WithUnit = true
		for i := range c.Stream {
			for n := rapid.IntRange(1, 3).Draw(t, "nunits"); n > 0; n-- {
				c.Stream[i].Units = append(c.Stream[i].Units, rapid.SampledFrom([]string{"sec/op", "B/op", "allocs/op", "widgets"}).Draw(t, "unit"))
			}
			c.Stream[i].Whole = rapid.IntRange(0, 3).Draw(t, "whole") == 0
		}
	}
	np := rapid.IntRange(1, 3).Draw(t, "nperms")
	for i := 0; i < np; i++ {
		c.Perms = append(c.Perms, rapid.SliceOfN(rapid.IntRange(0, 1000), 8, 8).Draw(t, "perm"))
	}
	return c
}

func orderFixed(fs []FieldSpec, key string) []string {
	for _, f := range fs {
		if f.Key == key {
			// mostly listed values, sometimes one that is filtered out
			return append(append([]string{}, f.Fixed...), f.Fixed...)
		}
	}
	return []string{"x"}
}

func TestC09Rapid(t *testing.T) { vcase.Run(t, "C09", "rapid", Gen, Check) }
