// Package c13: summaries and comparisons honour their statistical contracts.
package c13

import (
	"fmt"
	"math"
	"math/big"
	"regexp"
	"sort"
	"strconv"
	"strings"
	"testing"

	"golang.org/x/perf/benchmath"
	"pgregory.net/rapid"
	"verif/harness/lib/refbench"
	"verif/harness/lib/refstat"
	"verif/harness/lib/vcase"
)

type Case struct {
	X1, X2     []float64 // finite values, any order
	Confidence float64
	// Confidence2, if non-zero, is a second level within ~1e-7 of Confidence for which the
	// summaries are computed right afterwards: a summary is a function of (sample, level).
	Confidence2 float64
	Alpha       float64
	Assume      string // "nothing" | "exact" | "normal"
	Shuffle     []int  // drives a reordering of the samples
	ScaleExp    int    // common rescaling by 2^ScaleExp
	// Range, if it has three elements, holds the bit patterns of lo <= centre <= hi of a summary
	// whose rendered range is compared with the documented rule (any magnitude, ends may be infinite)
	Range []uint64
}

func assumption(name string) benchmath.Assumption {
	switch name {
	case "exact":
		return benchmath.AssumeExact
	case "normal":
		return benchmath.AssumeNormal
	}
	return benchmath.AssumeNothing
}

func sorted(xs []float64) []float64 {
	ys := append([]float64(nil), xs...)
	sort.Float64s(ys)
	return ys
}

func distinct(xs []float64) bool {
	ys := sorted(xs)
	for i := 1; i < len(ys); i++ {
		if ys[i] == ys[i-1] {
			return false
		}
	}
	return true
}

func shuffle(xs []float64, drv []int) []float64 {
	ys := append([]float64(nil), xs...)
	if len(drv) == 0 {
		return ys
	}
	for i := len(ys) - 1; i > 0; i-- {
		j := drv[i%len(drv)] % (i + 1)
		ys[i], ys[j] = ys[j], ys[i]
	}
	return ys
}

// binomCoverage = sum_{k=l}^{h-1} C(n,k) / 2^n as an exact rational.
func binomCoverage(n, l, h int) float64 {
	sum := new(big.Int)
	for k := l; k <= h-1; k++ {
		if k < 0 || k > n {
			continue
		}
		sum.Add(sum, new(big.Int).Binomial(int64(n), int64(k)))
	}
	r := new(big.Rat).SetFrac(sum, new(big.Int).Lsh(big.NewInt(1), uint(n)))
	f, _ := r.Float64()
	return f
}

var needRe = regexp.MustCompile(`^need (>=|>) (\d+) samples for confidence interval at level (.*)$`)

func maxAbs(xs []float64) float64 {
	m := 0.0
	for _, x := range xs {
		m = math.Max(m, math.Abs(x))
	}
	return m
}

func checkSummary(v *vcase.Verdict, c Case, xs []float64) {
	a := assumption(c.Assume)
	s := benchmath.NewSample(append([]float64(nil), xs...), &benchmath.Thresholds{CompareAlpha: c.Alpha})
	sum := a.Summary(s, c.Confidence)
	srt := sorted(xs)
	n := len(srt)
	slack := maxAbs(xs) * 0x1p-50 // (written so that it cannot overflow)
	inSample := func(x float64) bool {
		for _, y := range srt {
			if x == y {
				return true
			}
		}
		return false
	}
	switch c.Assume {
	case "nothing":
		var med float64
		if n%2 == 1 {
			med = srt[n/2]
		} else {
			med = srt[n/2-1]/2 + srt[n/2]/2
		}
		if math.Abs(sum.Center-med) > slack {
			v.Failf("AssumeNothing.Summary(%v): center %v, sample median %v", xs, sum.Center, med)
			return
		}
		for _, e := range []float64{sum.Lo, sum.Hi} {
			if !math.IsInf(e, 0) && !inSample(e) {
				v.Failf("AssumeNothing.Summary(%v, %v): interval end %v is not a sample value", xs, c.Confidence, e)
				return
			}
		}
		if math.IsInf(sum.Lo, 1) || math.IsInf(sum.Hi, -1) || sum.Lo > sum.Center+slack || sum.Hi < sum.Center-slack {
			v.Failf("AssumeNothing.Summary(%v, %v): interval [%v, %v] does not bracket the center %v", xs, c.Confidence, sum.Lo, sum.Hi, sum.Center)
			return
		}
		if sum.Confidence < c.Confidence-1e-9 || sum.Confidence > 1+1e-12 {
			v.Failf("AssumeNothing.Summary(n=%d, %v): reported confidence %v below the requested level", n, c.Confidence, sum.Confidence)
			return
		}
		if n <= 30 && distinct(xs) {
			l, h := 0, n+1
			if !math.IsInf(sum.Lo, 0) {
				l = sort.SearchFloat64s(srt, sum.Lo) + 1
			}
			if !math.IsInf(sum.Hi, 0) {
				h = sort.SearchFloat64s(srt, sum.Hi) + 1
			}
			if want := binomCoverage(n, l, h); math.Abs(want-sum.Confidence) > 1e-12 {
				v.Failf("AssumeNothing.Summary(n=%d, %v): interval = order statistics [%d,%d], reported confidence %v, exact binomial coverage %v", n, c.Confidence, l, h, sum.Confidence, want)
				return
			}
			v.Label("exact_coverage_checked")
		}
		infinite := math.IsInf(sum.Lo, 0) || math.IsInf(sum.Hi, 0)
		if infinite {
			v.Label("inf_interval")
		}
		if infinite != (len(sum.Warnings) == 1) || len(sum.Warnings) > 1 {
			v.Failf("AssumeNothing.Summary(n=%d, %v): interval [%v,%v] but %d warnings %v", n, c.Confidence, sum.Lo, sum.Hi, len(sum.Warnings), sum.Warnings)
			return
		}
		if infinite {
			m := needRe.FindStringSubmatch(sum.Warnings[0].Error())
			if m == nil {
				v.Failf("warning %q is not of the documented form", sum.Warnings[0])
				return
			}
			got, _ := strconv.Atoi(m[2])
			if lvl, err := strconv.ParseFloat(m[3], 64); err != nil || lvl != c.Confidence {
				v.Failf("warning %q does not name the confidence level %v", sum.Warnings[0], c.Confidence)
				return
			}
			// The warning must agree with what Summary itself does at that level (this
			// holds at any level, also where rounding in the binomial tail makes the
			// implementation need more samples than the ideal count below): with
			// "need >= k" a sample of k values has a finite interval and one of k-1
			// values has not; with "need > k" a sample of k values has not.
			probe := func(k int) (finite bool) {
				ys := make([]float64, k)
				for i := range ys {
					ys[i] = float64(i + 1)
				}
				ps := a.Summary(benchmath.NewSample(ys, &benchmath.DefaultThresholds), c.Confidence)
				return !math.IsInf(ps.Lo, 0) && !math.IsInf(ps.Hi, 0)
			}
			switch {
			case m[1] == ">=" && got >= 1 && got <= 1000:
				if !probe(got) {
					v.Failf("warning %q, but a sample of %d values still has an infinite interval at that level", sum.Warnings[0], got)
					return
				}
				if got > 2 && probe(got-1) {
					v.Failf("warning %q, but a sample of %d values already has a finite interval at that level", sum.Warnings[0], got-1)
					return
				}
			case m[1] == ">" && got >= 1 && got <= 1000:
				v.Label("need_more_than_limit")
				if probe(got) {
					v.Failf("warning %q, but a sample of %d values has a finite interval at that level", sum.Warnings[0], got)
					return
				}
			}
			if c.Confidence > 1-1e-9 {
				v.Label("extreme_confidence_warning")
			}
			// smallest n with 1 - 2^(1-n) >= confidence
			if c.Confidence <= 1-0x1p-27 {
				need := 2
				for 1-math.Ldexp(1, 1-need) < c.Confidence {
					need++
				}
				near := math.Abs(1-math.Ldexp(1, 1-need)-c.Confidence) < 1e-9 || (need > 2 && math.Abs(1-math.Ldexp(1, 2-need)-c.Confidence) < 1e-9)
				if m[1] != ">=" || (got != need && !(near && (got == need-1 || got == need+1))) {
					v.Failf("warning %q: the smallest sample count with a finite interval at level %v is %d", sum.Warnings[0], c.Confidence, need)
					return
				}
			}
			// The warning must not contradict the sample at hand: "need >= k" on a
			// sample that has k or more values.
			if m[1] == ">=" && n >= got {
				// Finding C13-c: go-moremath's QuantileCI switches to a normal
				// approximation above 30 samples, which at levels beyond about
				// 1-7e-8 is more conservative than the exact binomial interval that
				// k <= 30 samples get.
				if n > 30 && got <= 30 && vcase.KnownListed("C13-c") {
					v.KnownHit("C13-c")
				} else {
					v.Failf("AssumeNothing.Summary(n=%d, %v): infinite interval with warning %q although the sample has %d values", n, c.Confidence, sum.Warnings[0], n)
					return
				}
			}
		}
	case "exact":
		// centre has maximal multiplicity
		cnt := map[float64]int{}
		best := 0
		for _, x := range srt {
			cnt[x]++
			if cnt[x] > best {
				best = cnt[x]
			}
		}
		if cnt[sum.Center] != best {
			v.Failf("AssumeExact.Summary(%v): center %v occurs %d times, the most frequent value occurs %d times", xs, sum.Center, cnt[sum.Center], best)
			return
		}
		if sum.Lo != srt[0] || sum.Hi != srt[n-1] {
			v.Failf("AssumeExact.Summary(%v): range [%v,%v]", xs, sum.Lo, sum.Hi)
			return
		}
		differ := srt[0] != srt[n-1]
		if differ != (len(sum.Warnings) == 1) || len(sum.Warnings) > 1 {
			v.Failf("AssumeExact.Summary(%v): values differ=%v but warnings %v", xs, differ, sum.Warnings)
			return
		}
		if differ {
			v.Label("exact_with_differing_values")
		}
	case "normal":
		mean := refstat.F64(refstat.MeanRat(xs))
		if math.Abs(sum.Center-mean) > 4*float64(n)*maxAbs(xs)*0x1p-52 {
			v.Failf("AssumeNormal.Summary(%v): center %v, mean %v", xs, sum.Center, mean)
			return
		}
		if sum.Confidence != c.Confidence {
			v.Failf("AssumeNormal.Summary: confidence %v, requested %v", sum.Confidence, c.Confidence)
			return
		}
		if n == 1 {
			// one value says nothing about the spread: the t interval with 0 degrees of freedom is the whole line
			if !math.IsInf(sum.Lo, -1) || !math.IsInf(sum.Hi, 1) {
				v.Failf("AssumeNormal.Summary(%v): interval [%v,%v] from a single value, want an unbounded one", xs, sum.Lo, sum.Hi)
				return
			}
			v.Label("normal_single_value")
		}
		if n >= 2 {
			sd := math.Sqrt(refstat.F64(refstat.VarianceRat(xs)))
			if sd > 1e-6*maxAbs(xs) { // away from catastrophic cancellation in the library's running variance
				half := (sum.Hi - sum.Lo) / 2
				if math.Abs((sum.Hi+sum.Lo)/2-mean) > 1e-9*math.Max(math.Abs(mean), half) {
					v.Failf("AssumeNormal.Summary(%v): interval [%v,%v] not centred on the mean %v", xs, sum.Lo, sum.Hi, mean)
					return
				}
				tq := half * math.Sqrt(float64(n)) / sd
				p, ok := refstat.TCDF(float64(n-1), tq)
				if ok && math.Abs(p-(1+c.Confidence)/2) > 1e-6 {
					v.Failf("AssumeNormal.Summary(%v, %v): half width %v = %v standard errors, whose t(%d) coverage is %v", xs, c.Confidence, half, tq, n-1, 2*p-1)
					return
				}
				v.Label("t_interval_checked")
			}
		}
	}
	// rendered range
	want := refRange(sum.Center, sum.Lo, sum.Hi)
	if got := sum.PctRangeString(); got != want {
		v.Failf("PctRangeString for center %v [%v,%v] = %q, documented rule gives %q", sum.Center, sum.Lo, sum.Hi, got, want)
	}
}

func sign(x float64) int {
	switch {
	case x > 0:
		return 1
	case x < 0:
		return -1
	}
	return 0
}

func refRange(center, lo, hi float64) string {
	if math.IsInf(lo, 0) || math.IsInf(hi, 0) {
		return "∞"
	}
	if sign(center) != sign(lo) || sign(center) != sign(hi) {
		return "?"
	}
	if center == 0 {
		return "0%"
	}
	dev := math.Max(hi/center-1, 1-lo/center)
	return fmt.Sprintf("%.0f%%", 100*dev)
}

func refDelta(p, alpha, old, new float64) string {
	switch {
	case p > alpha:
		return "~"
	case old == new:
		return "0.00%"
	case old == 0:
		return "?"
	}
	return fmt.Sprintf("%+.2f%%", (new/old-1)*100)
}

// knownTwoSided is the model of known finding C13-b (go-moremath's exact
// two-sided p with ties): 1 if U1 == U2, else 2·F(min(U1,U2)) with F the true
// distribution function of U1 — except that with exactly two distinct values
// the dependency's F just below the attainable minimum is C(t0,n1)/C(N,n1).
func knownTwoSided(x1, x2 []float64) float64 {
	t := refstat.TieGroups(x1, x2)
	n1, n2 := len(x1), len(x2)
	twoU := refstat.TwoU(x1, x2)
	small := twoU
	if o := 2*n1*n2 - twoU; o < small {
		small = o
	}
	if small == n1*n2 {
		return 1
	}
	var d refstat.Dist
	if n1+n2 <= 13 {
		d = refstat.EnumDist(t, n1)
	} else {
		d = refstat.DPDist(t, n1)
	}
	f := d.PLE(small)
	if len(t) == 2 {
		num := small - n1*(t[0]-n1)
		if num < 0 && num > -(t[0]+t[1]) && n1 <= t[0] {
			b := new(big.Rat).SetFrac(new(big.Int).Binomial(int64(t[0]), int64(n1)), new(big.Int).Binomial(int64(n1+n2), int64(n1)))
			f, _ = b.Float64()
		}
	}
	return 2 * f
}

func Check(c Case) (v vcase.Verdict) {
	if len(c.X1) == 0 || len(c.X2) == 0 {
		return
	}
	v.Label("assume=" + c.Assume)
	if len(c.Range) == 3 {
		lo, ce, hi := math.Float64frombits(c.Range[0]), math.Float64frombits(c.Range[1]), math.Float64frombits(c.Range[2])
		if lo <= ce && ce <= hi && !math.IsInf(ce, 0) {
			sum := benchmath.Summary{Center: ce, Lo: lo, Hi: hi, Confidence: c.Confidence}
			want := refRange(ce, lo, hi)
			if got := sum.PctRangeString(); got != want {
				v.Failf("PctRangeString for center %v [%v,%v] = %q, documented rule gives %q", ce, lo, hi, got, want)
				return
			}
			v.Label("range_of_given_summary=" + map[bool]string{true: "percent", false: want}[strings.HasSuffix(want, "%") && want != "0%"])
		}
	}
	a := assumption(c.Assume)
	th := &benchmath.Thresholds{CompareAlpha: c.Alpha}
	checkSummary(&v, c, c.X1)
	if v.Violation != "" {
		return
	}
	checkSummary(&v, c, c.X2)
	if v.Violation != "" {
		return
	}
	if c.Confidence2 > 0 && c.Confidence2 < 1 {
		c2 := c
		c2.Confidence = c.Confidence2
		checkSummary(&v, c2, c.X1)
		if v.Violation != "" {
			v.Violation = "(second, nearby confidence level) " + v.Violation
			return
		}
		v.Label("nearby_confidence_pair")
	}
	mk := func(xs []float64) *benchmath.Sample { return benchmath.NewSample(append([]float64(nil), xs...), th) }
	cmp := a.Compare(mk(c.X1), mk(c.X2))
	n1, n2 := len(c.X1), len(c.X2)
	if cmp.N1 != n1 || cmp.N2 != n2 {
		v.Failf("Compare sizes %d,%d want %d,%d", cmp.N1, cmp.N2, n1, n2)
		return
	}
	// a warning that more samples are needed "to detect a difference" must be true: with these
	// sample sizes even two completely separated samples would not reach the threshold (the
	// smallest two-sided permutation p-value of n1 and n2 values is 2/C(n1+n2, n1))
	for _, w := range cmp.Warnings {
		if msg := w.Error(); strings.HasPrefix(msg, "need ") && strings.Contains(msg, "to detect a difference") {
			minP := 2.0
			for i := 1; i <= n1; i++ {
				minP *= float64(i) / float64(n2+i)
			}
			if minP <= c.Alpha*(1-1e-12) {
				v.Failf("%s.Compare on %d and %d values warns %q, but samples of these sizes can reach p = %g <= %v", c.Assume, n1, n2, msg, minP, c.Alpha)
				return
			}
			v.Label("too_few_samples_warning")
		}
	}
	tg := refstat.TieGroups(c.X1, c.X2)
	ties := len(tg) < n1+n2
	if ties {
		v.Label("ties")
	}
	if n1 < 6 || n2 < 6 {
		v.Label("n<6")
	}
	v.NonTrivial = n1 >= 2 && n2 >= 2 && fmt.Sprint(sorted(c.X1)) != fmt.Sprint(sorted(c.X2))
	known := false
	exactPath := (!ties && n1 <= 50 && n2 <= 50) || (ties && n1 <= 25 && n2 <= 25)
	if cmp.P < 0 || cmp.P > 1+1e-12 || math.IsNaN(cmp.P) { // 1e-12: rounding of 2·(sum of probabilities)
		if c.Assume == "nothing" && ties && exactPath && vcase.KnownListed("C13-b") && math.Abs(cmp.P-knownTwoSided(c.X1, c.X2)) <= 1e-9*math.Max(1, cmp.P) {
			v.KnownHit("C13-b")
			known = true
		} else {
			v.Failf("%s.Compare(%v, %v): P = %v outside [0,1]", c.Assume, c.X1, c.X2, cmp.P)
			return
		}
	}
	// symmetric
	sw := a.Compare(mk(c.X2), mk(c.X1))
	if math.Abs(sw.P-cmp.P) > 1e-12 {
		if c.Assume == "nothing" && ties && exactPath && vcase.KnownListed("C13-b") &&
			math.Abs(cmp.P-knownTwoSided(c.X1, c.X2)) <= 1e-9*math.Max(1, cmp.P) && math.Abs(sw.P-knownTwoSided(c.X2, c.X1)) <= 1e-9*math.Max(1, sw.P) {
			v.KnownHit("C13-b")
			known = true
		} else {
			v.Failf("%s.Compare: P changes when the samples are swapped: %v vs %v (%v, %v)", c.Assume, cmp.P, sw.P, c.X1, c.X2)
			return
		}
	}
	// invariant under reordering each sample
	sh := a.Compare(mk(shuffle(c.X1, c.Shuffle)), mk(shuffle(c.X2, c.Shuffle)))
	if sh.P != cmp.P || sh.N1 != cmp.N1 {
		v.Failf("%s.Compare: P changes when the samples are reordered: %v vs %v", c.Assume, cmp.P, sh.P)
		return
	}
	// invariant under a common rescaling by a power of two (exact, no overflow)
	if c.ScaleExp != 0 {
		f := math.Ldexp(1, c.ScaleExp)
		ok := true
		sc := func(xs []float64) []float64 {
			ys := make([]float64, len(xs))
			for i, x := range xs {
				ys[i] = x * f
				if x != 0 && (math.IsInf(ys[i], 0) || math.Abs(ys[i]) < 0x1p-1000 || ys[i]/f != x) {
					ok = false
				}
			}
			return ys
		}
		y1, y2 := sc(c.X1), sc(c.X2)
		if ok {
			r := a.Compare(mk(y1), mk(y2))
			tol := 0.0
			if c.Assume == "normal" {
				tol = 1e-9 // the t statistic is scale free but the incremental moments round differently
			}
			if math.Abs(r.P-cmp.P) > tol {
				v.Failf("%s.Compare: P changes under rescaling by 2^%d: %v vs %v", c.Assume, c.ScaleExp, cmp.P, r.P)
				return
			}
			v.Label("rescaled")
		}
	}
	switch c.Assume {
	case "nothing":
		if cmp.Alpha != c.Alpha {
			v.Failf("AssumeNothing.Compare: Alpha = %v, the samples were created with threshold %v", cmp.Alpha, c.Alpha)
			return
		}
		// exact permutation p-value for small samples
		if len(tg) == 1 {
			if cmp.P != 1 {
				v.Failf("all values equal: P = %v, want 1 (no detectable difference)", cmp.P)
				return
			}
		} else if exactPath && n1+n2 <= 16 {
			var d refstat.Dist
			if n1+n2 <= 13 {
				d = refstat.EnumDist(tg, n1)
			} else {
				d = refstat.DPDist(tg, n1)
			}
			want := d.TwoSided(refstat.TwoU(c.X1, c.X2))
			if math.Abs(cmp.P-want) > 1e-9 {
				if ties && vcase.KnownListed("C13-b") && math.Abs(cmp.P-knownTwoSided(c.X1, c.X2)) <= 1e-9*math.Max(1, cmp.P) {
					v.KnownHit("C13-b")
					known = true
				} else {
					v.Failf("AssumeNothing.Compare(%v, %v): P = %v, exact permutation p-value %v (ties=%v)", c.X1, c.X2, cmp.P, want, ties)
					return
				}
			} else if !ties {
				v.Label("exact_permutation_p_checked")
			}
		}
	case "normal":
		if cmp.Alpha != c.Alpha {
			v.Failf("AssumeNormal.Compare: Alpha = %v, the samples were created with threshold %v", cmp.Alpha, c.Alpha)
			return
		}
		// When the test cannot be carried out (a sample too small, no variance at all) the
		// comparison says so and reports no significant difference: p = 1.
		if len(cmp.Warnings) > 0 {
			v.Label("normal_test_not_possible")
			if cmp.P != 1 {
				v.Failf("AssumeNormal.Compare(%v, %v): the test failed (%v) but P = %v instead of 1 (no significant difference)", c.X1, c.X2, cmp.Warnings, cmp.P)
				return
			}
		} else if n1 < 2 || n2 < 2 {
			v.Failf("AssumeNormal.Compare(%v, %v): P = %v without a warning although a sample has fewer than two values", c.X1, c.X2, cmp.P)
			return
		}
		if n1 >= 2 && n2 >= 2 {
			ts := refstat.Welch(c.X1, c.X2)
			sd1 := math.Sqrt(refstat.F64(ts.V1))
			sd2 := math.Sqrt(refstat.F64(ts.V2))
			wellCond := sd1 > 1e-6*maxAbs(c.X1) && sd2 > 1e-6*maxAbs(c.X2)
			if ts.T != nil && wellCond {
				tt := refstat.BF64(ts.T)
				nu := refstat.BF64(ts.DoF)
				if tail, ok := refstat.TCDF(nu, -math.Abs(tt)); ok && math.Abs(cmp.P-2*tail) > 1e-6 {
					v.Failf("AssumeNormal.Compare(%v, %v): P = %v, Welch t=%v dof=%v gives %v", c.X1, c.X2, cmp.P, tt, nu, 2*tail)
					return
				}
				v.Label("welch_p_checked")
			}
		}
	case "exact":
		if cmp.P != 0 {
			v.Failf("AssumeExact.Compare: P = %v, want 0", cmp.P)
			return
		}
	}
	// rendering: a percentage exactly when p does not exceed the threshold
	old, new := a.Summary(mk(c.X1), c.Confidence).Center, a.Summary(mk(c.X2), c.Confidence).Center
	gotD := cmp.FormatDelta(old, new)
	thr := c.Alpha
	if c.Assume == "exact" {
		thr = 0 // no test is performed; P is 0
	}
	if want := refDelta(cmp.P, thr, old, new); gotD != want && !known {
		v.Failf("%s: FormatDelta(%v, %v) with P=%v threshold=%v is %q, documented rule gives %q", c.Assume, old, new, cmp.P, thr, gotD, want)
		return
	}
	if cmp.P == c.Alpha {
		v.Label("alpha_edge(P==alpha)")
	}
	if cmp.P <= thr {
		v.Label("significant")
	}
	wantS := ""
	if cmp.P != 0 {
		wantS = fmt.Sprintf("p=%0.3f ", cmp.P)
	}
	if n1 == n2 {
		wantS += fmt.Sprintf("n=%d", n1)
	} else {
		wantS += fmt.Sprintf("n=%d+%d", n1, n2)
	}
	if cmp.String() != wantS {
		v.Failf("Comparison.String() = %q, want %q", cmp.String(), wantS)
	}
	_ = refbench.UlpDiff
	return
}

// ---------------------------------------------------------------------------

func genSample(t *rapid.T, label string) []float64 {
	n := rapid.IntRange(1, 12).Draw(t, label+"_n")
	if vcase.OneIn(t, 5, label+"_big") {
		n = rapid.IntRange(13, 70).Draw(t, label+"_nbig")
	}
	xs := make([]float64, n)
	kind := rapid.IntRange(0, 5).Draw(t, label+"_kind")
	scale := math.Pow(10, float64(rapid.IntRange(-9, 12).Draw(t, label+"_mag")))
	for i := range xs {
		switch kind {
		case 0: // few distinct values: ties
			xs[i] = float64(rapid.IntRange(1, 4).Draw(t, label+"_v")) * scale
		case 1: // integers incl. zero and negatives
			xs[i] = float64(rapid.IntRange(-5, 20).Draw(t, label+"_i"))
		case 5: // many zeros: a center or an interval end that is exactly zero
			xs[i] = 0
			if rapid.IntRange(0, 2).Draw(t, label+"_nz") == 0 {
				xs[i] = float64(rapid.IntRange(-3, 6).Draw(t, label+"_zi"))
			}
		case 2: // constant with occasional deviation
			xs[i] = 7 * scale
			if vcase.OneIn(t, 6, label+"_dev") {
				xs[i] = 8 * scale
			}
		default:
			xs[i] = rapid.Float64Range(0.5, 2).Draw(t, label+"_f") * scale
		}
	}
	return xs
}

func Gen(t *rapid.T) Case {
	var c Case
	c.X1, c.X2 = genSample(t, "x1"), genSample(t, "x2")
	if rapid.Bool().Draw(t, "shift") { // make a real difference likely
		for i := range c.X2 {
			c.X2[i] *= 1.5
		}
	}
	huge := vcase.OneIn(t, 12, "huge")
	if huge {
		// values near the top of the float range (the sum of two of them is not a float64);
		// used with the models that only look at order statistics
		for _, xs := range [][]float64{c.X1, c.X2} {
			for i := range xs {
				xs[i] = rapid.SampledFrom([]float64{1.0e308, 1.1e308, 1.2e308, 1.3e308, 1.5e308, 9.5e307, 1.7e308, math.MaxFloat64}).Draw(t, "hugev")
			}
		}
	}
	switch rapid.IntRange(0, 4).Draw(t, "confk") {
	case 4:
		// levels so close to 1 that up to (and beyond) 50 samples are needed for a finite interval
		if rapid.Bool().Draw(t, "extremeform") {
			c.Confidence = 1 - rapid.Float64Range(0.5, 30).Draw(t, "extreme_u")*1e-12
		} else {
			c.Confidence = 1 - math.Pow(10, -rapid.Float64Range(7, 13.5).Draw(t, "extreme_e"))
		}
	case 0:
		c.Confidence = rapid.SampledFrom([]float64{0.5, 0.8, 0.9, 0.95, 0.99, 0.999}).Draw(t, "conf")
	case 1:
		n := rapid.IntRange(2, 12).Draw(t, "dy")
		c.Confidence = 1 - math.Ldexp(1, 1-n) + rapid.SampledFrom([]float64{-1e-3, -1e-6, 0, 1e-6, 1e-3}).Draw(t, "dyd")
	default:
		c.Confidence = rapid.Float64Range(0.001, 0.9999).Draw(t, "confu")
	}
	if c.Confidence <= 0 || c.Confidence >= 1 {
		c.Confidence = 0.95
	}
	if vcase.OneIn(t, 3, "conf2") {
		// two levels a few 1e-8 apart on either side of a coverage step of the sample size at hand
		n := len(c.X1)
		if n >= 2 && n <= 30 {
			step := 1 - math.Ldexp(1, 1-n)
			if rapid.Bool().Draw(t, "innerstep") && n >= 4 {
				// coverage of the order statistics [2, n-1]: 1 - 2(n+1)/2^n
				step = 1 - float64(2*(n+1))/math.Ldexp(1, n)
			}
			d := rapid.SampledFrom([]float64{2e-8, 1e-7, 5e-9}).Draw(t, "confdelta")
			c.Confidence, c.Confidence2 = step-d, step+d
			if rapid.Bool().Draw(t, "conforder") {
				c.Confidence, c.Confidence2 = c.Confidence2, c.Confidence
			}
			if c.Confidence <= 0 || c.Confidence >= 1 || c.Confidence2 <= 0 || c.Confidence2 >= 1 {
				c.Confidence, c.Confidence2 = 0.95, 0
			}
		}
	}
	c.Alpha = rapid.SampledFrom([]float64{0, 0.001, 0.01, 0.05, 0.1, 0.5, 1, 1.0 / 3, 0.02857142857142857}).Draw(t, "alpha")
	c.Assume = rapid.SampledFrom([]string{"nothing", "nothing", "exact", "normal"}).Draw(t, "assume")
	c.Shuffle = rapid.SliceOfN(rapid.IntRange(0, 1000), 6, 6).Draw(t, "shuffle")
	c.ScaleExp = rapid.SampledFrom([]int{0, 1, -3, 10, -20, 40}).Draw(t, "scale")
	if huge {
		c.ScaleExp = rapid.SampledFrom([]int{0, -3, -20}).Draw(t, "hugescale")
		if c.Assume == "normal" {
			c.Assume = "nothing"
		}
	}
	if vcase.OneIn(t, 3, "range") {
		pool := []float64{0, 1, -1, 1.5e308, -1.5e308, 1e308, -1e308, 9e307, -9e307, math.MaxFloat64, -math.MaxFloat64, 5e-324, -5e-324, 1e-310, -1e-310, 2.5, 100, -100, math.Inf(1), math.Inf(-1), 1e-300, -1e-300}
		var xs []float64
		for i := 0; i < 3; i++ {
			if rapid.Bool().Draw(t, "rangepool") {
				xs = append(xs, rapid.SampledFrom(pool).Draw(t, "rangev"))
			} else {
				xs = append(xs, math.Float64frombits(rapid.Uint64().Draw(t, "rangebits")))
			}
		}
		ok := true
		for _, x := range xs {
			ok = ok && x == x
		}
		if ok {
			sort.Float64s(xs)
			c.Range = []uint64{math.Float64bits(xs[0]), math.Float64bits(xs[1]), math.Float64bits(xs[2])}
		}
	}
	return c
}

func TestC13Rapid(t *testing.T) { vcase.Run(t, "C13", "rapid", Gen, Check) }
