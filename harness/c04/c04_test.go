// Package c04: measurements are normalised to base units for every value,
// the original is kept, metadata and filters apply under both names.
package c04

import (
	"fmt"
	"math"
	"math/big"
	"regexp"
	"strconv"
	"strings"
	"testing"
	"unicode"
	"unicode/utf8"

	"golang.org/x/perf/benchfmt"
	"golang.org/x/perf/benchmath"
	"golang.org/x/perf/benchproc"
	"golang.org/x/perf/benchunit"
	"pgregory.net/rapid"
	"verif/harness/lib/refbench"
	"verif/harness/lib/vcase"
)

type Case struct {
	Unit    string   // written unit
	Bits    []uint64 // float64 bit patterns of the values (1 or 2 results with the same unit)
	Other   string   // a second, unrelated unit on the same line ("" = none)
	DupMeta bool     // the unit metadata is declared a second time under the base unit's name
	Form    int      // how the values are written: 0 shortest 'g', 1 plain decimal digits ('f'), 2 'e' with 17 digits
	Pad     int      // number of further, unrelated measurements on each line
	Pos     []int    // per value: how many of the Pad measurements come before the one under test
}

// spell writes f in the form the case asks for; every form reads back as exactly f.
func (c Case) spell(f float64) string {
	if math.IsNaN(f) || math.IsInf(f, 0) {
		return fmtFloat(f)
	}
	switch c.Form {
	case 1:
		if a := math.Abs(f); a == 0 || (a >= 1e-5 && a < 1e22) {
			if f == math.Trunc(f) {
				return strconv.FormatFloat(f, 'f', 0, 64) // every digit of an integer, e.g. 9223372036854775808
			}
			return strconv.FormatFloat(f, 'f', -1, 64)
		}
	case 2:
		return strconv.FormatFloat(f, 'e', 16, 64)
	case 3:
		// the exact decimal expansion of the midpoint between f and its neighbour away from
		// zero: a text that is no float64 itself and lies exactly between two (what it reads
		// as is strconv's business: see written())
		if a := math.Abs(f); a >= 1e-3 && a < 1e18 {
			g := math.Nextafter(f, math.Copysign(math.Inf(1), f))
			mid := new(big.Float).SetPrec(200).SetFloat64(f)
			mid.Add(mid, new(big.Float).SetPrec(200).SetFloat64(g))
			mid.Quo(mid, big.NewFloat(2))
			return mid.Text('f', 80)
		}
	}
	return fmtFloat(f)
}

// written is the float64 the spelt text denotes (for forms 0-2 that is f itself).
func (c Case) written(f float64) float64 {
	if w, err := strconv.ParseFloat(c.spell(f), 64); err == nil {
		return w
	}
	return f
}

func (c Case) pos(i int) int {
	if i < len(c.Pos) && c.Pos[i] >= 0 && c.Pos[i] <= c.Pad {
		return c.Pos[i]
	}
	return 0
}

func hasSpace(s string) bool {
	for _, r := range s {
		if unicode.IsSpace(r) {
			return true
		}
	}
	return false
}

func fmtFloat(f float64) string { return strconv.FormatFloat(f, 'g', -1, 64) }

func sameBits(a, b float64) bool {
	return math.Float64bits(a) == math.Float64bits(b) || (math.IsNaN(a) && math.IsNaN(b))
}

func Check(c Case) (v vcase.Verdict) {
	unit := c.Unit
	if unit == "" || len(c.Bits) == 0 {
		return
	}
	base, exp10, n := refbench.TidyUnit(unit)
	tol := uint64(n + 2)
	toks := refbench.UnitTokens(unit)
	sub := false
	for _, t := range toks {
		if (strings.Contains(t.Tok, "ns") && t.Tok != "ns") || (strings.Contains(t.Tok, "MB") && t.Tok != "MB") {
			sub = true
		}
		if t.Tok == "ns" || t.Tok == "MB" {
			if t.Denom {
				v.Label("denominator_ns_MB")
			} else {
				v.Label("numerator_ns_MB")
			}
		}
	}
	if sub {
		v.Label("substring_only")
	}
	if n > 1 {
		v.Label("multi_factor")
	}
	v.NonTrivial = strings.Contains(unit, "ns") || strings.Contains(unit, "MB")

	// (ii) Tidy directly, for every value, incl. units with spaces.
	for _, b := range c.Bits {
		f := math.Float64frombits(b)
		switch {
		case f == 0:
			v.Label("zero_value")
		case math.IsInf(f, 0):
			v.Label("inf_value")
		case math.IsNaN(f):
			v.Label("nan_value")
		}
		tv, tu := benchunit.Tidy(f, unit)
		if tu != base {
			v.Failf("Tidy(%v, %q) unit = %q, reference base unit %q", f, unit, tu, base)
			return
		}
		want := refbench.ScaleExact(f, exp10)
		if d := refbench.UlpDiff(tv, want); d > tol {
			v.Failf("Tidy(%v, %q) value = %v, want %v·10^%d = %v (off by %d ulp, tolerance %d)", f, unit, tv, f, exp10, want, d, tol)
			return
		}
		if n == 0 && !sameBits(tv, f) {
			v.Failf("Tidy(%v, %q): nothing to normalise but value changed to %v", f, unit, tv)
			return
		}
		// idempotence
		tv2, tu2 := benchunit.Tidy(tv, tu)
		if tu2 != tu || !sameBits(tv2, tv) {
			v.Failf("Tidy not idempotent: Tidy(%v,%q) = (%v,%q), again = (%v,%q)", f, unit, tv, tu, tv2, tu2)
			return
		}
	}
	if hasSpace(unit) {
		v.Label("unit_with_space(Tidy only)")
		return
	}

	// (i) through the reader: one line per value, same written unit.
	var sb strings.Builder
	other := ""
	if ob, _, _ := refbench.TidyUnit(c.Other); c.Other != "" && !hasSpace(c.Other) && ob != base && c.Other != unit {
		other = c.Other
	}
	if c.Pad > 0 {
		v.Label(fmt.Sprintf("line_with_%d_measurements", c.Pad+1))
	}
	nvals := 1 + c.Pad
	if other != "" {
		nvals++
	}
	for i, b := range c.Bits {
		sb.WriteString("BenchmarkX 1")
		for k := 0; k < c.pos(i); k++ {
			sb.WriteString(" " + strconv.Itoa(k) + " pad" + strconv.Itoa(k))
		}
		sb.WriteString(" " + c.spell(math.Float64frombits(b)) + " " + unit)
		if other != "" {
			sb.WriteString(" 7 " + other)
		}
		for k := c.pos(i); k < c.Pad; k++ {
			sb.WriteString(" " + strconv.Itoa(k) + " pad" + strconv.Itoa(k))
		}
		sb.WriteString("\n")
	}
	sb.WriteString("Unit " + unit + " assume=exact better=higher\n")
	if c.DupMeta && base != unit {
		// the same metadata again under the other spelling of the unit: one metric, already
		// known, so neither a new record nor a conflict
		sb.WriteString("Unit " + base + " better=higher assume=exact\n")
		v.Label("metadata_repeated_under_base_unit")
	}
	r := benchfmt.NewReader(strings.NewReader(sb.String()), "f")
	var results []*benchfmt.Result
	nmeta := 0
	for r.Scan() {
		switch rec := r.Result().(type) {
		case *benchfmt.Result:
			results = append(results, rec.Clone())
		case *benchfmt.SyntaxError:
			v.Failf("unexpected syntax error %v for input %q", rec, sb.String())
			return
		case *benchfmt.UnitMetadata:
			nmeta++
			if rec.OrigUnit != unit || rec.Unit != base {
				v.Failf("unit metadata record: Unit %q OrigUnit %q, want %q / %q", rec.Unit, rec.OrigUnit, base, unit)
			}
		}
	}
	if r.Err() != nil || len(results) != len(c.Bits) || nmeta != 2 {
		v.Failf("reader: err %v, %d results (want %d), %d metadata records (want 2)", r.Err(), len(results), len(c.Bits), nmeta)
		return
	}
	var units []string
	for i, res := range results {
		f := c.written(math.Float64frombits(c.Bits[i]))
		if len(res.Values) != nvals {
			v.Failf("line %d has %d measurements, read as %d", i, nvals, len(res.Values))
			return
		}
		got := res.Values[c.pos(i)]
		want := refbench.MakeValue(f, unit)
		units = append(units, got.Unit)
		if got.Unit != want.Unit {
			v.Failf("value %v %s read as unit %q, want base unit %q (measurement not normalised)", f, unit, got.Unit, want.Unit)
			return
		}
		if d := refbench.UlpDiff(got.Value, want.Value); d > tol {
			v.Failf("value %v %s read as %v %s, want %v (off by %d ulp)", f, unit, got.Value, got.Unit, want.Value, d)
			return
		}
		if n > 0 {
			if got.OrigUnit != unit || !sameBits(got.OrigValue, f) {
				v.Failf("value %v %s: original not kept: OrigValue %v OrigUnit %q", f, unit, got.OrigValue, got.OrigUnit)
				return
			}
		} else {
			if got.OrigUnit != "" || !sameBits(got.Value, f) || got.Unit != unit {
				v.Failf("value %v %s has nothing to normalise but was read as {%v %q orig %v %q}", f, unit, got.Value, got.Unit, got.OrigValue, got.OrigUnit)
				return
			}
		}
		// (iv) unit filters under both names keep the measurement; another name does not.
		for _, name := range []string{unit, base} {
			flt, err := benchproc.NewFilter(".unit:" + strconv.Quote(name))
			if err != nil {
				v.Failf("NewFilter(.unit:%s): %v", strconv.Quote(name), err)
				return
			}
			cl := res.Clone()
			keep, _ := flt.Apply(cl)
			if !keep || len(cl.Values) != 1 || cl.Values[0].Unit != got.Unit {
				v.Failf("filter .unit:%q on %v %s kept=%v values=%v", name, f, unit, keep, cl.Values)
				return
			}
		}
		// regular-expression form, anchored on the written and on the base unit
		// (a regular expression is UTF-8 text: a unit with invalid bytes cannot be spelt in one)
		if !strings.ContainsAny(unit, "/") && utf8.ValidString(unit) {
			for _, name := range []string{unit, base} {
				flt, err := benchproc.NewFilter(".unit:/^" + regexp.QuoteMeta(name) + "$/")
				if err != nil {
					v.Failf("NewFilter(.unit:/^%s$/): %v", regexp.QuoteMeta(name), err)
					return
				}
				cl := res.Clone()
				if keep, _ := flt.Apply(cl); !keep || len(cl.Values) != 1 {
					v.Failf("filter .unit:/^%s$/ on %v %s kept=%v values=%v", regexp.QuoteMeta(name), f, unit, keep, cl.Values)
					return
				}
			}
		}
		flt, _ := benchproc.NewFilter(".unit:" + strconv.Quote(unit+"~"))
		cl := res.Clone()
		if keep, _ := flt.Apply(cl); keep {
			v.Failf("filter on a different unit kept %v", cl.Values)
			return
		}
		// both names at once select the measurement once; the empty name selects nothing
		both, _ := benchproc.NewFilter(".unit:(" + strconv.Quote(unit) + " OR " + strconv.Quote(base) + ")")
		cl = res.Clone()
		if keep, _ := both.Apply(cl); !keep || len(cl.Values) != 1 || cl.Values[0].Unit != got.Unit {
			v.Failf("filter .unit:(%q OR %q) on %v %s kept=%v values=%v", unit, base, f, unit, keep, cl.Values)
			return
		}
		for _, q := range []string{`.unit:""`, `.unit:/^$/`, `.unit:("" OR "zz~")`} {
			empty, _ := benchproc.NewFilter(q)
			cl = res.Clone()
			if keep, _ := empty.Apply(cl); keep {
				v.Failf("filter %s on a line with units %q kept %v", q, units, cl.Values)
				return
			}
		}
	}
	// matches taken for all results first and used afterwards: a Match describes its own result
	for _, name := range []string{unit, base} {
		flt, err := benchproc.NewFilter(".unit:" + strconv.Quote(name))
		if err != nil {
			v.Failf("NewFilter(.unit:%s): %v", strconv.Quote(name), err)
			return
		}
		var ms []benchproc.Match
		for _, res := range results {
			m, err := flt.Match(res)
			if err != nil {
				v.Failf("Match: %v", err)
				return
			}
			ms = append(ms, m)
		}
		for i, res := range results {
			m := ms[i]
			for j := range res.Values {
				if m.Test(j) != (j == c.pos(i)) {
					v.Failf("filter .unit:%q, result %d of %d (matched before use): Test(%d) = %v, the unit is at index %d of %d", name, i, len(results), j, m.Test(j), c.pos(i), len(res.Values))
					return
				}
			}
			if m.All() != (nvals == 1) || !m.Any() {
				v.Failf("filter .unit:%q, result %d with %d measurements, one of them in that unit: All() = %v, Any() = %v", name, i, nvals, m.All(), m.Any())
				return
			}
			cl := res.Clone()
			if keep := m.Apply(cl); !keep || len(cl.Values) != 1 || cl.Values[0].Unit != base {
				v.Failf("filter .unit:%q, result %d (matched before use): Apply kept=%v values=%v", name, i, keep, cl.Values)
				return
			}
		}
	}
	for _, u := range units {
		if u != units[0] {
			v.Failf("one written unit %q split between unit names %q", unit, units)
			return
		}
	}
	// (iii) metadata lookups by written and by base unit.
	um := r.Units()
	for _, name := range []string{unit, base} {
		for _, key := range []string{"assume", "better"} {
			m := um.Get(name, key)
			if m == nil || m.OrigUnit != unit || m.Unit != base {
				v.Failf("Units().Get(%q,%q) = %+v", name, key, m)
				return
			}
		}
		if um.GetAssumption(name) != benchmath.AssumeExact {
			v.Failf("GetAssumption(%q) is not AssumeExact", name)
			return
		}
		if um.GetBetter(name) != 1 {
			v.Failf("GetBetter(%q) = %d, want 1", name, um.GetBetter(name))
			return
		}
	}
	return
}

var comps = []string{"ns", "MB", "B", "bytes", "sec", "s", "op", "GC", "allocs", "nsec", "ans", "MBs", "xMB", "KB", "nsns", "MBMB", "n", "M", "é", "ns·", "widgets", "\xe0", "ns\xff"}

func genUnit(t *rapid.T, allowSpace bool) string {
	if rapid.IntRange(0, 9).Draw(t, "lit") == 0 {
		return rapid.SampledFrom([]string{"ns/op", "MB/s", "B/op", "allocs/op", "ns", "MB", "ns/MB", "MB/ns", "ns-MB", "ns*ns", "MB*MB*MB", "sec/op", "B/s",
			// words that merely end in (or contain) the letters of a scaled component
			"tokens/op", "conns/op", "txns/op", "iterations/op", "MBs/op", "nsec/op", "gc-ns/op", "turns", "xMB/s"}).Draw(t, "literal")
	}
	seps := []string{"/", "*", "-"}
	if allowSpace {
		seps = append(seps, " ", "\t", " ")
	}
	n := rapid.IntRange(1, 6).Draw(t, "ncomp")
	var sb strings.Builder
	if rapid.IntRange(0, 7).Draw(t, "leadsep") == 0 {
		sb.WriteString(rapid.SampledFrom(seps).Draw(t, "ls"))
	}
	for i := 0; i < n; i++ {
		if i > 0 {
			sb.WriteString(rapid.SampledFrom(seps).Draw(t, "sep"))
			if rapid.IntRange(0, 7).Draw(t, "dbl") == 0 {
				sb.WriteString(rapid.SampledFrom(seps).Draw(t, "sep2"))
			}
		}
		if rapid.IntRange(0, 11).Draw(t, "rnd") == 0 {
			sb.WriteString(rapid.StringMatching(`[a-zA-Z%µ]{1,4}`).Draw(t, "word"))
		} else {
			// bias towards ns / MB
			if rapid.Bool().Draw(t, "hot") {
				sb.WriteString(rapid.SampledFrom([]string{"ns", "MB"}).Draw(t, "hotc"))
			} else {
				sb.WriteString(rapid.SampledFrom(comps).Draw(t, "comp"))
			}
		}
	}
	if rapid.IntRange(0, 7).Draw(t, "trailsep") == 0 {
		sb.WriteString(rapid.SampledFrom(seps).Draw(t, "ts"))
	}
	u := sb.String()
	if strings.Trim(u, "/*- \t ") == "" {
		u += "x"
	}
	return u
}

func genBits(t *rapid.T) uint64 {
	switch rapid.IntRange(0, 12).Draw(t, "vk") {
	case 10:
		// a short decimal mantissa times a power of ten just beyond the exactly representable
		// ones (10^23 .. 10^37), or a value in the upper half of the subnormal range
		if rapid.Bool().Draw(t, "subn") {
			return rapid.Uint64Range(1<<51, 1<<52+4).Draw(t, "subnbits")
		}
		m := rapid.Int64Range(1, 999999999999999).Draw(t, "mant")
		f, _ := strconv.ParseFloat(strconv.FormatInt(m, 10)+"e"+strconv.Itoa(rapid.IntRange(15, 45).Draw(t, "exp10")), 64)
		if rapid.Bool().Draw(t, "negm") {
			f = -f
		}
		return math.Float64bits(f)
	case 0:
		return 0
	case 1:
		return math.Float64bits(math.Copysign(0, -1))
	case 2:
		return math.Float64bits(math.Inf(1))
	case 3:
		return math.Float64bits(math.Inf(-1))
	case 4:
		return math.Float64bits(math.NaN())
	case 5:
		return 1 // min subnormal
	case 6:
		return math.Float64bits(math.MaxFloat64)
	case 7:
		return math.Float64bits(1)
	case 8:
		return rapid.Uint64().Draw(t, "bits")
	case 9:
		// integers around the limits of the 64-bit integer types
		f := math.Ldexp(1, rapid.SampledFrom([]int{53, 62, 63, 64}).Draw(t, "pow2"))
		switch rapid.IntRange(0, 2).Draw(t, "edge") {
		case 1:
			f = math.Nextafter(f, 0)
		case 2:
			f = math.Nextafter(f, math.Inf(1))
		}
		if rapid.Bool().Draw(t, "negedge") {
			f = -f
		}
		return math.Float64bits(f)
	default:
		return math.Float64bits(rapid.Float64Range(-1e12, 1e12).Draw(t, "ord"))
	}
}

func Gen(t *rapid.T) Case {
	c := Case{Unit: genUnit(t, rapid.IntRange(0, 4).Draw(t, "space") == 0)}
	nb := rapid.IntRange(1, 3).Draw(t, "nvals")
	for i := 0; i < nb; i++ {
		c.Bits = append(c.Bits, genBits(t))
	}
	c.DupMeta = rapid.Bool().Draw(t, "dupmeta")
	c.Form = rapid.IntRange(0, 3).Draw(t, "form")
	if vcase.OneIn(t, 6, "padded") {
		// long lines: the per-measurement bookkeeping works in words of 32 and 64
		c.Pad = rapid.SampledFrom([]int{1, 5, 29, 30, 31, 32, 33, 61, 62, 63, 64, 65, 100}).Draw(t, "pad")
		for i := 0; i < nb; i++ {
			c.Pos = append(c.Pos, rapid.SampledFrom([]int{0, c.Pad, c.Pad / 2, c.Pad - 1, 1}).Draw(t, "pos"))
		}
	}
	if rapid.Bool().Draw(t, "other") {
		c.Other = genUnit(t, false)
		ob, _, _ := refbench.TidyUnit(c.Other)
		ub, _, _ := refbench.TidyUnit(c.Unit)
		if c.Other == c.Unit || ob == ub || c.Other == ub || ob == c.Unit {
			c.Other = "" // the second measurement must be a different metric
		}
	}
	return c
}

func TestC04Rapid(t *testing.T) { vcase.Run(t, "C04", "rapid", Gen, Check) }

// TestC04Grid enumerates all units of up to 3 components over a small
// component/separator alphabet, each with the seven special values.
func TestC04Grid(t *testing.T) {
	cs := []string{"ns", "MB", "B", "op", "nsx", "xMB"}
	ss := []string{"/", "*", "-"}
	vals := []uint64{0, math.Float64bits(math.Copysign(0, -1)), math.Float64bits(math.Inf(1)), math.Float64bits(math.Inf(-1)), math.Float64bits(math.NaN()), 1, math.Float64bits(1.5), math.Float64bits(-3e300)}
	vcase.Enum(t, "C04", "grid", true, func(yield func(Case) bool) {
		var units []string
		for _, a := range cs {
			units = append(units, a)
			for _, s1 := range ss {
				for _, b := range cs {
					units = append(units, a+s1+b)
					for _, s2 := range ss {
						for _, c := range cs {
							units = append(units, a+s1+b+s2+c)
						}
					}
				}
			}
		}
		// every numerator product of up to 6 ns/MB components (factors that cancel: 3 MB x 2 ns)
		var rec func(prefix string, n int)
		rec = func(prefix string, n int) {
			if n > 0 {
				units = append(units, prefix, prefix+"/op", "x-"+prefix)
			}
			if n == 6 {
				return
			}
			for _, c := range []string{"ns", "MB"} {
				for _, sep := range []string{"*", "-"} {
					if n == 0 {
						rec(c, 1)
						break
					}
					rec(prefix+sep+c, n+1)
				}
			}
		}
		rec("", 0)
		for _, u := range units {
			if !yield(Case{Unit: u, Bits: vals}) {
				return
			}
		}
	}, Check)
}
