package c04

// Unit "history": several inputs through ONE reused Reader (Reset, as
// benchfmt.Files does per file), lines with several measurements — the same
// metric possibly written twice, once in a scaled and once in the base unit —
// and the result trimmed in place by a .unit filter between Scans (as
// benchstat -filter and benchfilter do). Every reported measurement must be
// the normalised form of what its own line says (original kept exactly when
// something was normalised, absent otherwise), whatever an earlier line or
// input left in the reader's reused storage, and a literal .unit term selects
// every measurement written or normalised under that name.

import (
	"fmt"
	"math"
	"strconv"
	"strings"
	"testing"

	"golang.org/x/perf/benchfmt"
	"golang.org/x/perf/benchproc"
	"pgregory.net/rapid"
	"verif/harness/lib/refbench"
	"verif/harness/lib/vcase"
)

type HMeas struct {
	Bits uint64
	Unit string
}

type HLine struct {
	Meas []HMeas
}

type HCase struct {
	Inputs     [][]HLine // one Reader, Reset between inputs
	FilterUnit string    // "" = no trimming; else .unit term applied in place to r.Result() between Scans
	FilterNeg  bool
	FilterRe   bool // term written as anchored regexp
	// Crowd > 0: before the first input the same Reader reads an input with that many distinct
	// units and keys (its table of shared strings holds 1024)
	Crowd int
}

var hUnits = []string{"ns/op", "sec/op", "MB/s", "B/s", "B/op", "allocs/op", "ns", "MB", "widgets", "ns/MB", "sec/MB", "MB*ns/op", "nsec/op", "B"}

func hGen(t *rapid.T) HCase {
	var c HCase
	nin := rapid.IntRange(1, 3).Draw(t, "ninputs")
	for i := 0; i < nin; i++ {
		var in []HLine
		nl := rapid.IntRange(1, 4).Draw(t, "nlines")
		for j := 0; j < nl; j++ {
			var l HLine
			nm := rapid.IntRange(1, 4).Draw(t, "nmeas")
			for k := 0; k < nm; k++ {
				l.Meas = append(l.Meas, HMeas{Bits: genBits(t), Unit: rapid.SampledFrom(hUnits).Draw(t, "unit")})
			}
			in = append(in, l)
		}
		c.Inputs = append(c.Inputs, in)
	}
	if vcase.OneIn(t, 12, "crowd") {
		c.Crowd = rapid.SampledFrom([]int{1000, 1020, 1023, 1024, 1025, 1030, 1100, 2100}).Draw(t, "ncrowd")
	}
	if rapid.IntRange(0, 2).Draw(t, "filter") > 0 {
		c.FilterUnit = rapid.SampledFrom(hUnits).Draw(t, "funit")
		c.FilterNeg = rapid.IntRange(0, 3).Draw(t, "fneg") == 0
		c.FilterRe = rapid.IntRange(0, 3).Draw(t, "fre") == 0 && !strings.Contains(c.FilterUnit, "/")
	}
	return c
}

func hCheck(c HCase) (v vcase.Verdict) {
	if len(c.Inputs) == 0 {
		return
	}
	var flt *benchproc.Filter
	if c.FilterUnit != "" {
		q := ".unit:" + strconv.Quote(c.FilterUnit)
		if c.FilterRe {
			q = ".unit:/^" + strings.NewReplacer("*", `\*`).Replace(c.FilterUnit) + "$/"
			v.Label("regexp_term")
		}
		if c.FilterNeg {
			q = "-" + q
			v.Label("negated_term")
		}
		var err error
		if flt, err = benchproc.NewFilter(q); err != nil {
			v.Failf("NewFilter(%s): %v", q, err)
			return
		}
		v.Label("trim_in_place")
	}
	if len(c.Inputs) > 1 {
		v.Label("reset_between_inputs")
	}
	var r *benchfmt.Reader
	if c.Crowd > 0 && c.Crowd <= 5000 {
		var sb strings.Builder
		for i := 0; i < c.Crowd; i++ {
			if i%2 == 0 {
				fmt.Fprintf(&sb, "BenchmarkCrowd 1 %d crowdunit%d\n", i, i)
			} else {
				fmt.Fprintf(&sb, "crowdkey%d: v\n", i)
			}
		}
		r = benchfmt.NewReader(strings.NewReader(sb.String()), "crowd")
		for r.Scan() {
		}
		if err := r.Err(); err != nil {
			v.Failf("crowd input: %v", err)
			return
		}
		v.Label("after_1024+_distinct_strings")
	}
	prevLonger, sawDup := false, false
	prevN := 0
	for ii, in := range c.Inputs {
		var sb strings.Builder
		for _, l := range in {
			sb.WriteString("BenchmarkX 1")
			for _, m := range l.Meas {
				sb.WriteString(" " + fmtFloat(math.Float64frombits(m.Bits)) + " " + m.Unit)
			}
			sb.WriteString("\n")
		}
		if r == nil {
			r = benchfmt.NewReader(strings.NewReader(sb.String()), "in0")
		} else {
			r.Reset(strings.NewReader(sb.String()), fmt.Sprintf("in%d", ii))
		}
		li := 0
		for r.Scan() {
			res, ok := r.Result().(*benchfmt.Result)
			if !ok {
				v.Failf("input %d: unexpected record %T (%v) for %q", ii, r.Result(), r.Result(), sb.String())
				return
			}
			if li >= len(in) {
				v.Failf("input %d: more results than lines", ii)
				return
			}
			l := in[li]
			li++
			if len(res.Values) != len(l.Meas) {
				v.Failf("input %d line %d: %d measurements read, %d written", ii, li, len(res.Values), len(l.Meas))
				return
			}
			if len(l.Meas) < prevN {
				prevLonger = true
			}
			var wantKeep []refbench.Value
			seen := map[string]int{}
			for k, m := range l.Meas {
				f := math.Float64frombits(m.Bits)
				want := refbench.MakeValue(f, m.Unit)
				got := res.Values[k]
				_, _, n := refbench.TidyUnit(m.Unit)
				seen[want.Unit]++
				if got.Unit != want.Unit || refbench.UlpDiff(got.Value, want.Value) > uint64(n+2) {
					v.Failf("input %d line %d measurement %d (%v %s): read as %v %q, want %v %q", ii, li, k, f, m.Unit, got.Value, got.Unit, want.Value, want.Unit)
					return
				}
				if n > 0 {
					if got.OrigUnit != m.Unit || !sameBits(got.OrigValue, f) {
						v.Failf("input %d line %d measurement %d (%v %s): original not kept: OrigValue %v OrigUnit %q", ii, li, k, f, m.Unit, got.OrigValue, got.OrigUnit)
						return
					}
				} else if got.OrigUnit != "" || got.OrigValue != 0 || !sameBits(got.Value, f) {
					v.Failf("input %d line %d measurement %d (%v %s) has nothing to normalise but was read as {%v %q orig %v %q} (history: %d inputs, filter %q)", ii, li, k, f, m.Unit, got.Value, got.Unit, got.OrigValue, got.OrigUnit, len(c.Inputs), c.FilterUnit)
					return
				}
				match := want.Unit == c.FilterUnit || m.Unit == c.FilterUnit
				if match != c.FilterNeg {
					wantKeep = append(wantKeep, want)
				}
			}
			for _, cnt := range seen {
				if cnt > 1 {
					sawDup = true
					v.Label("one_metric_twice_on_a_line")
				}
			}
			prevN = len(l.Meas)
			if flt != nil {
				// in place, on the reader's own result (benchstat, benchfilter)
				keep, _ := flt.Apply(res)
				if keep != (len(wantKeep) > 0) {
					v.Failf("input %d line %d: filter %q (neg=%v) kept=%v, %d measurements should remain", ii, li, c.FilterUnit, c.FilterNeg, keep, len(wantKeep))
					return
				}
				if keep {
					if len(res.Values) != len(wantKeep) {
						v.Failf("input %d line %d: filter %q (neg=%v re=%v) leaves %d measurements %v, want %d", ii, li, c.FilterUnit, c.FilterNeg, c.FilterRe, len(res.Values), res.Values, len(wantKeep))
						return
					}
					for k := range wantKeep {
						if res.Values[k].Unit != wantKeep[k].Unit || res.Values[k].OrigUnit != wantKeep[k].OrigUnit {
							v.Failf("input %d line %d: filter %q leaves measurement %d = %v, want unit %q (written %q)", ii, li, c.FilterUnit, k, res.Values[k], wantKeep[k].Unit, wantKeep[k].OrigUnit)
							return
						}
					}
					prevN = len(res.Values)
				}
			}
		}
		if err := r.Err(); err != nil {
			v.Failf("input %d: %v", ii, err)
			return
		}
		if li != len(in) {
			v.Failf("input %d: %d results for %d lines", ii, li, len(in))
			return
		}
	}
	if prevLonger {
		v.Label("shorter_line_after_longer")
	}
	v.NonTrivial = len(c.Inputs) > 1 || flt != nil || sawDup
	return
}

func TestC04History(t *testing.T) { vcase.Run(t, "C04", "history", hGen, hCheck) }
