package c04

import "testing"

// FuzzC04 (thorough tier): coverage-guided search over (unit, value bits).
func FuzzC04(f *testing.F) {
	for _, u := range []string{"ns/op", "MB/s", "ns/MB", "MB*ns-ns/ns", "x-ns", "nsns", "µs/op", "B/op", "ns op", "/ns", "ns/", "*MB*"} {
		f.Add(u, uint64(0))
		f.Add(u, uint64(0x3ff8000000000000))
		f.Add(u, uint64(0x7ff0000000000000))
	}
	f.Fuzz(func(t *testing.T, unit string, bits uint64) {
		if unit == "" || len(unit) > 200 {
			return
		}
		for i := 0; i < len(unit); i++ {
			if unit[i] == '\n' || unit[i] == '"' || unit[i] == '\\' || unit[i] < 0x20 {
				return // quoting in .unit filters is C07's business; control bytes are not units
			}
		}
		if v := Check(Case{Unit: unit, Bits: []uint64{bits, 0x3ff0000000000000}}); v.Violation != "" {
			t.Fatalf("VERIF-VIOLATION C04: %s", v.Violation)
		}
	})
}

// Regression inputs found by the fuzzer that turned out to be mistakes of the
// check itself (kept so that they stay fixed).
func TestC04FuzzRegressions(t *testing.T) {
	for _, c := range []Case{
		{Unit: "\xe0", Bits: []uint64{9218868437227405315, 0x3ff0000000000000}}, // invalid UTF-8 cannot be written as a regexp
	} {
		if v := Check(c); v.Violation != "" {
			t.Errorf("%q: %s", c.Unit, v.Violation)
		}
	}
}
