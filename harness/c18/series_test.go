package c18

import (
	"fmt"
	"math"
	"os"
	"path/filepath"
	"reflect"
	"runtime"
	"runtime/debug"
	"sort"
	"strconv"
	"strings"
	"testing"

	"golang.org/x/perf/benchfmt"
	"golang.org/x/perf/benchseries"
	"pgregory.net/rapid"
	"verif/harness/lib/vcase"
)

// ---------------------------------------------------------------------------
// case

// Roles of a result line.
const (
	roleNum   = 0 // compare key = numerator value
	roleDen   = 1 // compare key = denominator value
	roleOther = 2 // compare key = some third value
	roleNone  = 3 // compare key absent
)

// Line is one benchmark result line.
type Line struct {
	T     int       // table index (into Tabs)
	B     int       // benchmark index
	E     int       // experiment index
	S     int       // series whose keys (stamp, hashes) the line carries; -1 = phantom series (role other only)
	SForm int       // which textual form of that series' stamp
	Role  int       // roleNum … roleNone
	U     []int     // unit indices, in line order
	V     []float64 // values, parallel to U (finite)
	Noise int       // bit 0: residue key "cpu", bit 1: ignored key "suite", bit 2: key "pkg"
	// Pad further measurements in units "pad<i>" that the builder's filter rejects (only when the
	// case filters by unit); PadBefore of them stand before the measurements in U
	Pad, PadBefore int
}

// ExpT is one experiment (one value of the experiment key).
type ExpT struct {
	Text string // the stamp as written
	At   Inst   // the instant it denotes
	Sers []int  // series measured in this experiment (all share one denominator hash)
}

// SerT is one series point (one numerator hash).
type SerT struct {
	Texts []string // textual forms of the series stamp (all denote At)
	At    Inst
	Num   string // numerator hash
	Den   string // denominator hash
}

// Order is one way of adding the same multiset of lines.
type Order struct {
	Perm []int // permutation of line indices
	Cuts []int // file boundaries: positions in Perm where a new "file" starts (text mode)
	Text bool  // true: write benchmark-format files and parse them with benchfmt.Reader
	// ViaFiles (text mode): the files are written to disk and added with Builder.AddFiles;
	// BadLine >= 0 then inserts a malformed benchmark line (a non-fatal syntax error that
	// must only be skipped) before the BadLine-th result line of the first file.
	ViaFiles bool
	BadLine  int
	// Early > 0 (direct mode): after Early results have been added the series are built once
	// (and thrown away), then the remaining results are added to the same builder.
	Early int
}

type Case struct {
	Units      []string
	TabKeys    []string
	Tabs       [][]string // values of TabKeys per table
	Benches    []string
	Exps       []ExpT
	Sers       []SerT
	Lines      []Line
	Orders     []Order
	Policy     int // benchseries.DUPE_REPLACE or DUPE_COMBINE
	FilterUnit int // -1: all units; else only this unit passes the builder's filter
	Intent     []string
}

const (
	keyRole  = "toolchain"
	keyExp   = "runstamp"
	keySer   = "numerator_stamp"
	keyNum   = "numerator_hash"
	keyDen   = "denominator_hash"
	valNum   = "Tip"
	valDen   = "Base"
	valOther = "Other"
)

var phantom = SerT{Texts: []string{"2001-02-03T04:05:06Z"}, Num: "feedface", Den: "deadbeef"}

// config returns the ordered key/value pairs of line l ("" = key absent).
func (c *Case) config(l Line) [][2]string {
	ser := phantom
	if l.S >= 0 {
		ser = c.Sers[l.S]
	}
	var kv [][2]string
	role := ""
	switch l.Role {
	case roleNum:
		role = valNum
	case roleDen:
		role = valDen
	case roleOther:
		role = valOther
	}
	kv = append(kv, [2]string{keyRole, role})
	kv = append(kv, [2]string{keyExp, c.Exps[l.E].Text})
	kv = append(kv, [2]string{keySer, ser.Texts[l.SForm%len(ser.Texts)]})
	kv = append(kv, [2]string{keyNum, ser.Num})
	kv = append(kv, [2]string{keyDen, ser.Den})
	for i, k := range c.TabKeys {
		kv = append(kv, [2]string{k, c.Tabs[l.T][i]})
	}
	cpu, suite, pkg := "", "", ""
	if l.Noise&1 != 0 {
		cpu = "cpu" + strconv.Itoa(l.Noise>>3&1)
	}
	if l.Noise&2 != 0 {
		suite = "suite" + strconv.Itoa(l.Noise>>4&1)
	}
	if l.Noise&4 != 0 {
		pkg = "example.com/p" + strconv.Itoa(l.Noise>>5&1)
	}
	kv = append(kv, [2]string{"cpu", cpu}, [2]string{"suite", suite}, [2]string{"pkg", pkg})
	return kv
}

func (c *Case) options() *benchseries.BuilderOptions {
	f := ".unit:/.*/"
	if c.FilterUnit >= 0 {
		f = ".unit:" + strconv.Quote(c.Units[c.FilterUnit])
		// the same selection written as a conjunction of two per-measurement terms
		switch len(c.Lines) % 3 {
		case 1:
			f = ".unit:/./ " + f
		case 2:
			f = f + " AND -.unit:/^pad/ .unit:/./"
		}
	}
	return &benchseries.BuilderOptions{
		Filter: f, Series: keySer, Table: strings.Join(c.TabKeys, ","), Experiment: keyExp, Compare: keyRole,
		Numerator: valNum, Denominator: valDen, NumeratorHash: keyNum, DenominatorHash: keyDen, Ignore: "suite",
		Warn: func(string, ...interface{}) {},
	}
}

// pad measurements exist only where the filter rejects them.
func (l Line) pad(c *Case) int {
	if c.FilterUnit < 0 || l.Pad < 0 || l.Pad > 200 {
		return 0
	}
	return l.Pad
}

func (l Line) padBefore(c *Case) int {
	if n := l.pad(c); l.PadBefore >= 0 && l.PadBefore <= n {
		return l.PadBefore
	}
	return 0
}

// direct builds the *benchfmt.Result of a line.
func (c *Case) direct(l Line) *benchfmt.Result {
	r := &benchfmt.Result{Name: []byte(c.Benches[l.B]), Iters: 1}
	for _, kv := range c.config(l) {
		if kv[1] != "" {
			r.Config = append(r.Config, benchfmt.Config{Key: kv[0], Value: []byte(kv[1]), File: true})
		}
	}
	pb := l.padBefore(c)
	for k := 0; k < pb; k++ {
		r.Values = append(r.Values, benchfmt.Value{Value: float64(k + 1), Unit: "pad" + strconv.Itoa(k)})
	}
	for i, u := range l.U {
		r.Values = append(r.Values, benchfmt.Value{Value: l.V[i], Unit: c.Units[u]})
	}
	for k := pb; k < l.pad(c); k++ {
		r.Values = append(r.Values, benchfmt.Value{Value: float64(k + 1), Unit: "pad" + strconv.Itoa(k)})
	}
	return r
}

// spellValue writes a measurement as a tool would: integer values with all their digits
// (9223372036854775808, not 9.223372036854776e+18), everything else in shortest form.
func spellValue(f float64) string {
	if f == math.Trunc(f) && math.Abs(f) < 1e21 {
		return strconv.FormatFloat(f, 'f', 0, 64)
	}
	return strconv.FormatFloat(f, 'g', -1, 64)
}

// fileText writes lines as one benchmark-format file.
func (c *Case) fileText(idx []int) string {
	var sb strings.Builder
	state := map[string]string{}
	for _, i := range idx {
		l := c.Lines[i]
		for _, kv := range c.config(l) {
			if state[kv[0]] != kv[1] {
				if kv[1] == "" {
					sb.WriteString(kv[0] + ":\n")
				} else {
					sb.WriteString(kv[0] + ": " + kv[1] + "\n")
				}
				state[kv[0]] = kv[1]
			}
		}
		sb.WriteString("Benchmark" + c.Benches[l.B] + " 1")
		pb := l.padBefore(c)
		for k := 0; k < pb; k++ {
			sb.WriteString(" " + strconv.Itoa(k+1) + " pad" + strconv.Itoa(k))
		}
		for j, u := range l.U {
			sb.WriteString(" " + spellValue(l.V[j]) + " " + c.Units[u])
		}
		for k := pb; k < l.pad(c); k++ {
			sb.WriteString(" " + strconv.Itoa(k+1) + " pad" + strconv.Itoa(k))
		}
		sb.WriteString("\n")
	}
	return sb.String()
}

// ---------------------------------------------------------------------------
// reference model (written from the property text)

type refCand struct {
	exp      int // index into Exps
	num, den []float64
}

type refPoint struct {
	bench  string
	ser    int
	cands  []refCand // contributing experiments (those with a numerator measurement), in Exps order
	latest []int     // indices into cands of the experiments with the latest instant (ties possible)
}

type refTable struct {
	unit      string          // expected ComparisonSeries.Unit
	anyBench  map[string]bool // benchmarks of any result of this table
	points    map[string]*refPoint
	series    []int           // series with a point, chronological
	missDen   map[int]bool    // series having a contributing experiment without denominator measurements
	benchWith map[string]bool // benchmarks with at least one point
}

func pkey(bench string, ser int) string { return bench + "\x00" + strconv.Itoa(ser) }

type reference struct {
	tables map[string]*refTable // by expected Unit string
	names  []string             // sorted
}

func (c *Case) tableName(u, t int) string {
	s := c.Units[u]
	for _, v := range c.Tabs[t] {
		if v != "" { // (a result without the key: the label lists the values that exist)
			s += " " + v
		}
	}
	return s
}

func buildReference(c *Case) *reference {
	ref := &reference{tables: map[string]*refTable{}}
	// group measurements: key (unit, table, bench, experiment, series|-, role)
	type gk struct {
		u, t, b, e, s int
	}
	nums := map[gk][]float64{}
	dens := map[gk][]float64{}
	var numKeys []gk // deterministic order of first appearance
	for _, l := range c.Lines {
		for j, u := range l.U {
			if c.FilterUnit >= 0 && u != c.FilterUnit {
				continue
			}
			name := c.tableName(u, l.T)
			rt := ref.tables[name]
			if rt == nil {
				rt = &refTable{unit: name, anyBench: map[string]bool{}, points: map[string]*refPoint{}, missDen: map[int]bool{}, benchWith: map[string]bool{}}
				ref.tables[name] = rt
				ref.names = append(ref.names, name)
			}
			rt.anyBench[c.Benches[l.B]] = true
			switch l.Role {
			case roleNum:
				k := gk{u, l.T, l.B, l.E, l.S}
				if _, ok := nums[k]; !ok {
					numKeys = append(numKeys, k)
				}
				nums[k] = append(nums[k], l.V[j])
			case roleDen:
				k := gk{u, l.T, l.B, l.E, -1}
				dens[k] = append(dens[k], l.V[j])
			}
		}
	}
	sort.Strings(ref.names)
	sort.Slice(numKeys, func(i, j int) bool {
		a, b := numKeys[i], numKeys[j]
		if a.u != b.u {
			return a.u < b.u
		}
		if a.t != b.t {
			return a.t < b.t
		}
		if a.b != b.b {
			return a.b < b.b
		}
		if a.s != b.s {
			return a.s < b.s
		}
		return a.e < b.e
	})
	for _, k := range numKeys {
		rt := ref.tables[c.tableName(k.u, k.t)]
		pk := pkey(c.Benches[k.b], k.s)
		p := rt.points[pk]
		if p == nil {
			p = &refPoint{bench: c.Benches[k.b], ser: k.s}
			rt.points[pk] = p
			rt.benchWith[p.bench] = true
		}
		d := dens[gk{k.u, k.t, k.b, k.e, -1}]
		p.cands = append(p.cands, refCand{exp: k.e, num: nums[k], den: d})
		if len(d) == 0 {
			rt.missDen[k.s] = true
		}
	}
	for _, rt := range ref.tables {
		seen := map[int]bool{}
		for _, p := range rt.points {
			if !seen[p.ser] {
				seen[p.ser] = true
				rt.series = append(rt.series, p.ser)
			}
			best := p.cands[0].exp
			for _, cd := range p.cands {
				if c.Exps[cd.exp].At.Cmp(c.Exps[best].At) > 0 {
					best = cd.exp
				}
			}
			for i, cd := range p.cands {
				if c.Exps[cd.exp].At.Cmp(c.Exps[best].At) == 0 {
					p.latest = append(p.latest, i)
				}
			}
		}
		sort.Slice(rt.series, func(i, j int) bool { return c.Sers[rt.series[i]].At.Cmp(c.Sers[rt.series[j]].At) < 0 })
	}
	return ref
}

// ---------------------------------------------------------------------------
// running the library

type gotPoint struct {
	ok                bool
	num, den          []float64
	hasDen            bool
	date              string
	sumOK             bool
	present           bool
	low, centre, high float64
	sumDate           string
}

type gotTable struct {
	benchmarks []string
	series     []string
	hashPairs  map[string]benchseries.ComparisonHashes
	points     map[string]gotPoint // by bench \x00 label
}

type gotOutput struct {
	units  []string
	tables map[string]*gotTable
	dup    string
	matrix string // "" or what is wrong with an exported Summaries matrix
}

type libPanic struct {
	val   interface{}
	stack string
}

func (c *Case) run(o Order) (out *gotOutput, err error, pan *libPanic) {
	b, err := benchseries.NewBuilder(c.options())
	if err != nil {
		return nil, fmt.Errorf("NewBuilder: %v", err), nil
	}
	if !o.Text {
		for n, i := range o.Perm {
			if o.Early > 0 && n == o.Early {
				// an intermediate build must leave no trace in what is built at the end
				func() {
					defer func() { recover() }() // (a panic here shows up again at the final build or is a separate finding)
					b.AllComparisonSeries(nil, c.Policy)
				}()
			}
			b.Add(c.direct(c.Lines[i]))
		}
	} else {
		cuts := append(append([]int{0}, o.Cuts...), len(o.Perm))
		if o.ViaFiles {
			dir, cleanup := vcase.ScratchDir("c18-")
			defer cleanup()
			var paths []string
			for f := 0; f+1 < len(cuts); f++ {
				if cuts[f] >= cuts[f+1] {
					continue
				}
				txt := c.fileText(o.Perm[cuts[f]:cuts[f+1]])
				if len(paths) == 0 && o.BadLine >= 0 {
					// insert the malformed line before the BadLine-th benchmark line
					lines := strings.SplitAfter(txt, "\n")
					seen := 0
					for li, l := range lines {
						if strings.HasPrefix(l, "Benchmark") {
							if seen == o.BadLine {
								lines = append(lines[:li], append([]string{"BenchmarkInterleaved 12 notanumber ns/op\n"}, lines[li:]...)...)
								break
							}
							seen++
						}
					}
					txt = strings.Join(lines, "")
				}
				p := filepath.Join(dir, "f"+strconv.Itoa(f)+".txt")
				if err := os.WriteFile(p, []byte(txt), 0o644); err != nil {
					return nil, fmt.Errorf("harness error: %v", err), nil
				}
				paths = append(paths, p)
			}
			if err := b.AddFiles(benchfmt.Files{Paths: paths}); err != nil {
				return nil, fmt.Errorf("AddFiles: %v", err), nil
			}
			cuts = nil
		}
		for f := 0; f+1 < len(cuts); f++ {
			if cuts[f] >= cuts[f+1] {
				continue
			}
			txt := c.fileText(o.Perm[cuts[f]:cuts[f+1]])
			r := benchfmt.NewReader(strings.NewReader(txt), "file"+strconv.Itoa(f))
			n := 0
			for r.Scan() {
				switch rec := r.Result().(type) {
				case *benchfmt.Result:
					b.Add(rec)
					n++
				case *benchfmt.SyntaxError:
					return nil, fmt.Errorf("harness error: generated text does not parse: %v", rec), nil
				}
			}
			if r.Err() != nil {
				return nil, fmt.Errorf("harness error: reader: %v", r.Err()), nil
			}
			if n != cuts[f+1]-cuts[f] {
				return nil, fmt.Errorf("harness error: %d lines written, %d results read", cuts[f+1]-cuts[f], n), nil
			}
		}
	}
	var css []*benchseries.ComparisonSeries
	func() {
		defer func() {
			if e := recover(); e != nil {
				pan = &libPanic{val: e, stack: string(debug.Stack())}
			}
		}()
		css, err = b.AllComparisonSeries(nil, c.Policy)
	}()
	if pan != nil {
		return nil, nil, pan
	}
	if err != nil {
		return nil, fmt.Errorf("AllComparisonSeries: %v", err), nil
	}
	out = collectSeries(css)
	// the series depend on the result set only: building them again from the same
	// builder gives the same thing
	var css2 []*benchseries.ComparisonSeries
	func() {
		defer func() {
			if e := recover(); e != nil {
				pan = &libPanic{val: e, stack: string(debug.Stack())}
			}
		}()
		css2, err = b.AllComparisonSeries(nil, c.Policy)
	}()
	if pan != nil {
		return nil, nil, pan
	}
	if err != nil {
		return nil, fmt.Errorf("second AllComparisonSeries: %v", err), nil
	}
	// (with REPLACE, experiments stamped with the same instant have no defined winner:
	// known finding C18-b; the comparison is then not made)
	sameInstant := false
	for i := range c.Exps {
		for j := i + 1; j < len(c.Exps); j++ {
			if c.Exps[i].At == c.Exps[j].At {
				sameInstant = true
			}
		}
	}
	if out2 := collectSeries(css2); !(sameInstant && c.Policy == benchseries.DUPE_REPLACE) && !reflect.DeepEqual(stripSummaries(out), stripSummaries(out2)) {
		a, b2 := stripSummaries(out), stripSummaries(collectSeries(css2))
		detail := ""
		for u, pts := range a {
			for k, p := range pts {
				if !reflect.DeepEqual(p, b2[u][k]) {
					detail = fmt.Sprintf("table %q point %q: first num %v den %v, second num %v den %v", u, k, p[0], p[1], b2[u][k][0], b2[u][k][1])
				}
			}
		}
		return nil, fmt.Errorf("a second AllComparisonSeries call on the same builder gives different series: %s", detail), nil
	}
	return out, nil, nil
}

// stripSummaries returns the part of an output that is a pure function of the
// result set (bootstrap summaries of order-dependent REPLACE ties aside).
func stripSummaries(o *gotOutput) map[string]map[string][2][]float64 {
	m := map[string]map[string][2][]float64{}
	for u, t := range o.tables {
		m[u] = map[string][2][]float64{}
		for k, p := range t.points {
			num, den := append([]float64{}, p.num...), append([]float64{}, p.den...)
			sort.Float64s(num) // samples are multisets: COMBINE concatenates experiments in map order
			sort.Float64s(den)
			m[u][k] = [2][]float64{num, den}
		}
	}
	return m
}

func collectSeries(css []*benchseries.ComparisonSeries) (out *gotOutput) {
	out = &gotOutput{tables: map[string]*gotTable{}}
	for _, cs := range css {
		out.units = append(out.units, cs.Unit)
		if _, dup := out.tables[cs.Unit]; dup {
			out.dup = cs.Unit
		}
		cs.AddSummaries(sumConf, sumN)
		// The exported matrix is indexed by (Series, Benchmarks): Summaries[i][j] is the
		// summary of Benchmarks[j] at Series[i], a placeholder that is not Present where
		// the point was never measured.
		if len(cs.Summaries) != len(cs.Series) && out.matrix == "" {
			out.matrix = fmt.Sprintf("table %q: Summaries has %d rows for %d series points", cs.Unit, len(cs.Summaries), len(cs.Series))
		}
		for i, row := range cs.Summaries {
			if out.matrix != "" || i >= len(cs.Series) {
				break
			}
			if len(row) != len(cs.Benchmarks) {
				out.matrix = fmt.Sprintf("table %q: Summaries[%d] (series %q) has %d entries for %d benchmarks %q", cs.Unit, i, cs.Series[i], len(row), len(cs.Benchmarks), cs.Benchmarks)
				break
			}
			for j, cell := range row {
				at, ok := cs.SummaryAt(cs.Benchmarks[j], cs.Series[i])
				switch {
				case cell == nil:
					out.matrix = fmt.Sprintf("table %q: Summaries[%d][%d] is nil", cs.Unit, i, j)
				case ok && at != cell:
					out.matrix = fmt.Sprintf("table %q: Summaries[%d][%d] is not the summary of (%q, %q): %+v vs %+v", cs.Unit, i, j, cs.Benchmarks[j], cs.Series[i], *cell, at)
				case !ok && cell.Present:
					out.matrix = fmt.Sprintf("table %q: Summaries[%d][%d] = %+v is Present although (%q, %q) was never measured", cs.Unit, i, j, *cell, cs.Benchmarks[j], cs.Series[i])
				}
			}
		}
		gt := &gotTable{benchmarks: append([]string{}, cs.Benchmarks...), series: append([]string{}, cs.Series...),
			hashPairs: map[string]benchseries.ComparisonHashes{}, points: map[string]gotPoint{}}
		for k, v := range cs.HashPairs {
			gt.hashPairs[k] = v
		}
		for _, bn := range cs.Benchmarks {
			for _, sl := range cs.Series {
				cmp, ok := cs.ComparisonAt(bn, sl)
				gp := gotPoint{ok: ok}
				if ok && cmp != nil {
					if cmp.Numerator != nil {
						gp.num = append([]float64{}, cmp.Numerator.Values...)
					}
					if cmp.Denominator != nil {
						gp.den = append([]float64{}, cmp.Denominator.Values...)
						gp.hasDen = true
					}
					gp.date = cmp.Date
					if s, ok := cs.SummaryAt(bn, sl); ok && s != nil {
						gp.sumOK, gp.present, gp.low, gp.centre, gp.high, gp.sumDate = true, s.Present, s.Low, s.Center, s.High, s.Date
					}
				}
				gt.points[bn+"\x00"+sl] = gp
			}
		}
		out.tables[cs.Unit] = gt
	}
	return out
}

// settings of the cross-order summary comparison (any fixed values do)
const (
	sumConf = 0.8
	sumN    = 20
)

// ---------------------------------------------------------------------------
// check

func Check(c Case) (v vcase.Verdict) {
	for _, s := range c.Intent {
		v.Label("intent=" + s)
	}
	if c.Policy == benchseries.DUPE_REPLACE {
		v.Label("policy=replace")
	} else {
		v.Label("policy=combine")
	}
	ref := buildReference(&c)

	// labels of series: the library's own normalisation of the stamp text
	// (checked on its own by the dates unit); order: by instant.
	label := make([]string, len(c.Sers))
	for i, s := range c.Sers {
		for j, tx := range s.Texts {
			n, err := benchseries.NormalizeDateString(tx)
			if err != nil {
				v.Failf("NormalizeDateString(%q) (valid series stamp): %v", tx, err)
				return
			}
			if j == 0 {
				label[i] = n
			} else if n != label[i] {
				v.Failf("series stamp forms %q and %q denote the same instant but normalise to %q and %q", s.Texts[0], tx, label[i], n)
				return
			}
		}
	}
	expDate := make([]string, len(c.Exps))
	for i, e := range c.Exps {
		n, err := benchseries.NormalizeDateString(e.Text)
		if err != nil {
			v.Failf("NormalizeDateString(%q) (valid experiment stamp): %v", e.Text, err)
			return
		}
		expDate[i] = n
	}

	// classification / non-triviality
	multiExp, hasNum, hasDen, tie, missDen, combinePanic := false, false, false, false, false, false
	for _, rt := range ref.tables {
		for _, p := range rt.points {
			hasNum = true
			if len(p.cands) >= 2 {
				multiExp = true
			}
			if len(p.latest) >= 2 {
				tie = true
			}
			miss := false
			for _, cd := range p.cands {
				if len(cd.den) > 0 {
					hasDen = true
				} else {
					miss = true
				}
			}
			if miss {
				missDen = true
				if len(p.cands) >= 2 && c.Policy == benchseries.DUPE_COMBINE {
					combinePanic = true
				}
			}
		}
	}
	ordersDiffer := false
	for i := 1; i < len(c.Orders); i++ {
		if fmt.Sprint(c.Orders[i].Perm) != fmt.Sprint(c.Orders[0].Perm) {
			ordersDiffer = true
		}
	}
	v.NonTrivial = multiExp && ordersDiffer && hasNum && hasDen
	if multiExp {
		v.Label("multi_experiment_point")
	}
	if ordersDiffer {
		v.Label("orders_differ")
	}
	if hasNum && hasDen {
		v.Label("both_roles")
	}
	if tie {
		v.Label("same_instant")
	}
	if missDen {
		v.Label("missing_den")
	}
	if c.FilterUnit >= 0 {
		v.Label("unit_filter")
	}
	if len(c.Units) > 1 {
		v.Label("two_units")
	}
	if len(ref.names) > len(c.Units) {
		v.Label("several_tables")
	}
	for _, o := range c.Orders {
		if o.Text {
			v.Label("text_order")
			if len(o.Cuts) > 0 {
				v.Label("several_files")
			}
		} else {
			v.Label("direct_order")
		}
	}

	outs := make([]*gotOutput, 0, len(c.Orders))
	for oi, o := range c.Orders {
		out, err, pan := c.run(o)
		if pan != nil {
			re, isRuntime := pan.val.(runtime.Error)
			nilDeref := isRuntime && strings.Contains(re.Error(), "nil pointer dereference") &&
				strings.Contains(pan.stack, "benchseries.(*Builder).AllComparisonSeries")
			if combinePanic && nilDeref && vcase.KnownListed("C18-c") {
				// C18-c: COMBINE, a point with >= 2 contributing experiments of which
				// one has no denominator measurements: nil dereference while concatenating.
				v.KnownHit("C18-c")
				v.Label("combine_missing_den_panic")
				return
			}
			v.Failf("order %d: AllComparisonSeries panicked: %v\n%s", oi, pan.val, trunc(pan.stack, 1500))
			return
		}
		if err != nil {
			v.Failf("order %d: %v", oi, err)
			return
		}
		outs = append(outs, out)
	}

	// ---- every order against the reference
	for oi, out := range outs {
		if out.matrix != "" {
			v.Failf("order %d: %s", oi, out.matrix)
			return
		}
		if out.dup != "" {
			v.Failf("order %d: two comparison series named %q", oi, out.dup)
			return
		}
		for _, name := range out.units {
			if ref.tables[name] == nil {
				v.Failf("order %d: unexpected table %q (expected tables %q)", oi, name, ref.names)
				return
			}
		}
		for _, name := range ref.names {
			rt := ref.tables[name]
			gt := out.tables[name]
			if gt == nil {
				if len(rt.points) > 0 {
					v.Failf("order %d: table %q missing (got %q)", oi, name, out.units)
					return
				}
				continue
			}
			// Benchmarks: sorted, unique, every benchmark with a point, nothing foreign
			for i, bn := range gt.benchmarks {
				if i > 0 && !(gt.benchmarks[i-1] < bn) {
					v.Failf("order %d table %q: Benchmarks not strictly sorted: %q", oi, name, gt.benchmarks)
					return
				}
				if !rt.anyBench[bn] {
					v.Failf("order %d table %q: benchmark %q has no result in this table", oi, name, bn)
					return
				}
			}
			for bn := range rt.benchWith {
				if !contains(gt.benchmarks, bn) {
					v.Failf("order %d table %q: benchmark %q has measurements but is not in Benchmarks %q", oi, name, bn, gt.benchmarks)
					return
				}
			}
			// Series: exactly the series with a point, chronological
			var wantSeries []string
			for _, s := range rt.series {
				wantSeries = append(wantSeries, label[s])
			}
			if fmt.Sprintf("%q", wantSeries) != fmt.Sprintf("%q", gt.series) {
				v.Failf("order %d table %q: Series = %q, want (chronological) %q", oi, name, gt.series, wantSeries)
				return
			}
			// HashPairs
			if len(gt.hashPairs) != len(rt.series) {
				v.Failf("order %d table %q: HashPairs has %d entries %v, want %d", oi, name, len(gt.hashPairs), gt.hashPairs, len(rt.series))
				return
			}
			for _, s := range rt.series {
				hp, ok := gt.hashPairs[label[s]]
				want := benchseries.ComparisonHashes{NumHash: c.Sers[s].Num, DenHash: c.Sers[s].Den}
				if !ok || hp.NumHash != want.NumHash || (hp.DenHash != want.DenHash && !(rt.missDen[s] && hp.DenHash == "")) {
					// a series with an experiment lacking denominator results has no denominator
					// hash in that experiment; the library reports this as a mismatch on stderr and
					// keeps either (documented as arbitrary) – accepted only in that situation.
					v.Failf("order %d table %q: HashPairs[%q] = %+v (present %v), want %+v", oi, name, label[s], hp, ok, want)
					return
				}
			}
			// points
			for _, bn := range gt.benchmarks {
				for _, s := range rt.series {
					gp := gt.points[bn+"\x00"+label[s]]
					p := rt.points[pkey(bn, s)]
					v.Sub++
					if p == nil {
						if gp.ok {
							v.Failf("order %d table %q: point (%q, %q) exists but no numerator measurement matches it (num %s)", oi, name, bn, label[s], fmtVals(gp.num))
							return
						}
						continue
					}
					if !gp.ok {
						v.Failf("order %d table %q: point (%q, %q) missing; %d experiment(s) measured it", oi, name, bn, label[s], len(p.cands))
						return
					}
					if msg := c.checkPoint(p, gp, expDate); msg != "" {
						v.Failf("order %d table %q point (%q, %q) [%s]: %s", oi, name, bn, label[s], policyName(c.Policy), msg)
						return
					}
				}
			}
		}
	}

	// ---- metamorphic: all orders give identical output
	for oi := 1; oi < len(outs); oi++ {
		a, b := outs[0], outs[oi]
		if fmt.Sprintf("%q", a.units) != fmt.Sprintf("%q", b.units) {
			v.Failf("orders 0 and %d give different tables: %q vs %q", oi, a.units, b.units)
			return
		}
		for _, name := range a.units {
			ga, gb := a.tables[name], b.tables[name]
			rt := ref.tables[name]
			if fmt.Sprintf("%q", ga.benchmarks) != fmt.Sprintf("%q", gb.benchmarks) {
				v.Failf("orders 0 and %d table %q: Benchmarks differ: %q vs %q", oi, name, ga.benchmarks, gb.benchmarks)
				return
			}
			for k, pa := range ga.points {
				pb := gb.points[k]
				same := pa.ok == pb.ok && sameMultiset(pa.num, pb.num) && sameMultiset(pa.den, pb.den) && pa.hasDen == pb.hasDen && pa.date == pb.date
				sameSum := pa.sumOK == pb.sumOK && pa.present == pb.present && pa.low == pb.low && pa.centre == pb.centre && pa.high == pb.high && pa.sumDate == pb.sumDate
				if same && sameSum {
					continue
				}
				// which reference point is this?
				var p *refPoint
				for _, s := range rt.series {
					for bn := range rt.benchWith {
						if bn+"\x00"+label[s] == k {
							p = rt.points[pkey(bn, s)]
						}
					}
				}
				if !same && p != nil && c.Policy == benchseries.DUPE_REPLACE && len(p.latest) >= 2 {
					// C18-b: REPLACE with two experiments of the same instant for one point.
					// Both outputs already matched one of the tied experiments (checkPoint).
					if vcase.KnownListed("C18-b") {
						v.KnownHit("C18-b")
						v.Label("same_instant_orders_disagree")
						continue
					}
					v.Failf("orders 0 and %d table %q point %q: REPLACE winner among experiments of the same instant differs: num %s/den %s vs num %s/den %s",
						oi, name, strings.ReplaceAll(k, "\x00", ", "), fmtVals(pa.num), fmtVals(pa.den), fmtVals(pb.num), fmtVals(pb.den))
					return
				}
				if !same {
					v.Failf("orders 0 and %d table %q point %q: samples differ: num %s den %s date %q vs num %s den %s date %q", oi, name,
						strings.ReplaceAll(k, "\x00", ", "), fmtVals(pa.num), fmtVals(pa.den), pa.date, fmtVals(pb.num), fmtVals(pb.den), pb.date)
					return
				}
				v.Failf("orders 0 and %d table %q point %q: equal samples but different bootstrap summaries (conf %v, N %d): {%v %v %v present=%v %q} vs {%v %v %v present=%v %q}", oi, name,
					strings.ReplaceAll(k, "\x00", ", "), sumConf, sumN, pa.low, pa.centre, pa.high, pa.present, pa.sumDate, pb.low, pb.centre, pb.high, pb.present, pb.sumDate)
				return
			}
		}
	}
	return
}

func policyName(p int) string {
	if p == benchseries.DUPE_REPLACE {
		return "REPLACE"
	}
	return "COMBINE"
}

// checkPoint compares the library's point with the reference point.
func (c *Case) checkPoint(p *refPoint, gp gotPoint, expDate []string) string {
	latestDate := expDate[p.cands[p.latest[0]].exp]
	if c.Policy == benchseries.DUPE_COMBINE {
		var num, den []float64
		for _, cd := range p.cands {
			num = append(num, cd.num...)
			den = append(den, cd.den...)
		}
		if !sameMultiset(num, gp.num) {
			return fmt.Sprintf("numerator sample %s, want concatenation over %d experiment(s) %s", fmtVals(gp.num), len(p.cands), fmtVals(num))
		}
		if !sameMultiset(den, gp.den) {
			return fmt.Sprintf("denominator sample %s, want concatenation over %d experiment(s) %s", fmtVals(gp.den), len(p.cands), fmtVals(den))
		}
		if gp.date != latestDate {
			return fmt.Sprintf("Date %q, want the latest experiment's %q", gp.date, latestDate)
		}
		return ""
	}
	// REPLACE: the latest experiment; with several experiments of the same
	// latest instant any one of them (numerator and denominator of the same one).
	for _, li := range p.latest {
		cd := p.cands[li]
		if sameMultiset(cd.num, gp.num) && sameMultiset(cd.den, gp.den) && gp.date == expDate[cd.exp] {
			return ""
		}
	}
	cd := p.cands[p.latest[0]]
	others := ""
	for _, x := range p.cands {
		others += fmt.Sprintf(" {%s: num %s den %s}", c.Exps[x.exp].Text, fmtVals(x.num), fmtVals(x.den))
	}
	return fmt.Sprintf("got num %s den %s date %q; want the latest experiment %q (num %s den %s date %q; %d tied at that instant); experiments:%s",
		fmtVals(gp.num), fmtVals(gp.den), gp.date, c.Exps[cd.exp].Text, fmtVals(cd.num), fmtVals(cd.den), latestDate, len(p.latest), others)
}

func contains(a []string, s string) bool {
	for _, x := range a {
		if x == s {
			return true
		}
	}
	return false
}

func trunc(s string, n int) string {
	if len(s) > n {
		return s[:n] + "…"
	}
	return s
}

// ---------------------------------------------------------------------------
// generator

var unitPool = []string{"B/op", "allocs/op", "widgets", "x-score"}
var benchPool = []string{"Foo", "Foo-8", "Bar/n=1-8", "Bar/n=10-8", "Baz", "Qux/sub/k=v"}
var tabKeyPool = []string{"goarch", "goos"}

// (values of the two keys never coincide: the table label lists values only; "a"+"bc" and "ab"+"c"
// concatenate alike; "" = the result lacks the key)
var tabValPool = [][]string{{"amd64", "arm64", "riscv64", "a", "ab", ""}, {"linux", "darwin", "plan9", "bc", "c", ""}}

func genValue(t *rapid.T, kind int) float64 {
	switch kind {
	case 0: // small integers: many equal measurements
		return float64(rapid.IntRange(1, 9).Draw(t, "v"))
	case 1:
		return rapid.Float64Range(0.001, 1e6).Draw(t, "v")
	case 2: // realistic ns counts
		if rare(t, "int64edge", 6) {
			// totals around the limits of the 64-bit integers, written out in full in files
			return rapid.SampledFrom([]float64{9223372036854775808, 9223372036854775807, 18446744073709551616, 4611686018427387904, 9007199254740993}).Draw(t, "edgev")
		}
		return float64(rapid.IntRange(1000, 4000000000).Draw(t, "v"))
	default: // signed / zero (series unit only; no bounds are claimed there)
		return float64(rapid.IntRange(-3, 3).Draw(t, "v"))
	}
}

func distinctSample(t *rapid.T, pool []string, n int, label string) []string {
	p := rapid.Permutation(pool).Draw(t, label)
	return append([]string{}, p[:n]...)
}

func Gen(t *rapid.T) Case {
	var c Case
	c.Units = distinctSample(t, unitPool, rapid.IntRange(1, 2).Draw(t, "nunits"), "units")
	nk := rapid.IntRange(0, 2).Draw(t, "ntabkeys")
	c.TabKeys = append([]string{}, tabKeyPool[:nk]...)
	if nk == 1 && rapid.Bool().Draw(t, "tabkey_goos") {
		c.TabKeys = []string{"goos"}
	}
	ntab := 1
	if nk > 0 {
		ntab = rapid.IntRange(1, 3).Draw(t, "ntabs")
	}
	seenTab := map[string]bool{}
	for len(c.Tabs) < ntab {
		vals := make([]string, nk)
		for i, k := range c.TabKeys {
			pool := tabValPool[0]
			if k == "goos" {
				pool = tabValPool[1]
			}
			vals[i] = rapid.SampledFrom(pool).Draw(t, "tabval")
		}
		key := strings.Join(vals, " ")
		if seenTab[key] {
			if nk == 0 {
				break
			}
			// make distinct by construction: rotate the first value through its pool
			pool := tabValPool[0]
			if c.TabKeys[0] == "goos" {
				pool = tabValPool[1]
			}
			for _, alt := range pool {
				vals[0] = alt
				key = strings.Join(vals, " ")
				if !seenTab[key] {
					break
				}
			}
			if seenTab[key] {
				break
			}
		}
		seenTab[key] = true
		c.Tabs = append(c.Tabs, vals)
	}
	c.Benches = distinctSample(t, benchPool, rapid.IntRange(1, 4).Draw(t, "nbench"), "benches")
	c.Policy = rapid.SampledFrom([]int{benchseries.DUPE_REPLACE, benchseries.DUPE_COMBINE}).Draw(t, "policy")
	c.FilterUnit = -1
	if rapid.IntRange(0, 5).Draw(t, "filter") == 0 {
		c.FilterUnit = rapid.IntRange(0, len(c.Units)-1).Draw(t, "filterunit")
	}

	// series: distinct instants, one (numerator hash, denominator hash) each
	nser := rapid.IntRange(1, 3).Draw(t, "nser")
	base := int64(946684800) + int64(rapid.IntRange(0, 40*365*86400).Draw(t, "base"))
	at := base
	hashPerm := rapid.Permutation([]string{"a1b2c3", "0ff1ce", "c0ffee7", "9e9e9e"}).Draw(t, "numhashes")
	for i := 0; i < nser; i++ {
		at += int64(rapid.IntRange(1, 90000).Draw(t, "serstep"))
		in := Inst{Sec: at}
		if rapid.IntRange(0, 5).Draw(t, "serfrac") == 0 {
			in.Ns = rapid.SampledFrom([]int{1, 500000000, 999999999, 120000000, 1000}).Draw(t, "serns")
		}
		s := SerT{At: in, Num: hashPerm[i], Den: rapid.SampledFrom([]string{"ba5e00", "ba5e01"}).Draw(t, "denhash")}
		s.Texts = []string{render(in, genForm(t, in, "serform"))}
		if rapid.IntRange(0, 3).Draw(t, "seralt") == 0 {
			s.Texts = append(s.Texts, render(in, genForm(t, in, "serform2")))
		}
		c.Sers = append(c.Sers, s)
	}
	// present series in random index order (index order != chronological order)
	if nser > 1 {
		p := rapid.Permutation(c.Sers).Draw(t, "serperm")
		c.Sers = p
	}

	// experiments: distinct instants (close together, so that zone offsets reorder the texts)
	nexp := rapid.IntRange(1, 4).Draw(t, "nexp")
	sameInstant := nexp >= 2 && rare(t, "same_instant", 8)
	eat := at + int64(rapid.IntRange(1, 200000).Draw(t, "expbase"))
	var exps []ExpT
	for i := 0; i < nexp; i++ {
		eat += int64(rapid.IntRange(1, 50000).Draw(t, "expstep"))
		in := Inst{Sec: eat}
		if rapid.IntRange(0, 5).Draw(t, "expfrac") == 0 {
			in.Ns = rapid.SampledFrom([]int{1, 500000000, 999999999, 250000000, 1000000}).Draw(t, "expns")
		}
		e := ExpT{At: in}
		if sameInstant && i == nexp-1 {
			// same instant as the previous experiment, written differently
			prev := exps[i-1]
			fs := altForms(prev.At)
			pick := rapid.Permutation(fs).Draw(t, "tieforms")
			exps[i-1].Text = render(prev.At, pick[0])
			e.At = prev.At
			e.Text = render(prev.At, pick[1])
		} else {
			e.Text = render(in, genForm(t, in, "expform"))
		}
		exps = append(exps, e)
	}
	if sameInstant {
		c.Intent = append(c.Intent, "same_instant")
	}
	if nexp > 1 {
		exps = rapid.Permutation(exps).Draw(t, "expperm")
	}
	// each experiment measures a non-empty set of series sharing one denominator hash
	for i := range exps {
		lead := rapid.IntRange(0, nser-1).Draw(t, "explead")
		exps[i].Sers = []int{lead}
		for s := 0; s < nser; s++ {
			if s != lead && c.Sers[s].Den == c.Sers[lead].Den && rapid.IntRange(0, 9).Draw(t, "expser") < 6 {
				exps[i].Sers = append(exps[i].Sers, s)
			}
		}
		sort.Ints(exps[i].Sers)
	}
	if sameInstant {
		// the tied experiments measure the same series, otherwise no point is tied
		var a, b = -1, -1
		for i := range exps {
			for j := i + 1; j < len(exps); j++ {
				if exps[i].At == exps[j].At {
					a, b = i, j
				}
			}
		}
		if a >= 0 {
			exps[b].Sers = append([]int{}, exps[a].Sers...)
		}
	}
	c.Exps = exps

	allowMissingDen := rare(t, "allow_missing_den", 9)
	if allowMissingDen {
		c.Intent = append(c.Intent, "missing_den")
	}
	valKind := rapid.SampledFrom([]int{0, 0, 1, 1, 2, 3}).Draw(t, "valkind")
	maxMeas := rapid.SampledFrom([]int{2, 3, 6, 6}).Draw(t, "maxmeas")

	// long lines (only with a unit filter, which rejects the padding): the filter's per-line
	// bookkeeping works in words of 32 measurements
	padded := c.FilterUnit >= 0 && rapid.Bool().Draw(t, "padded")
	if padded {
		c.Intent = append(c.Intent, "long_lines")
	}
	addLines := func(tb, b, e, s, role, n int) {
		for k := 0; k < n; k++ {
			l := Line{T: tb, B: b, E: e, S: s, Role: role}
			if s >= 0 {
				l.SForm = rapid.IntRange(0, len(c.Sers[s].Texts)-1).Draw(t, "sform")
			}
			// the first line of a group carries every unit, so no unit loses a role by accident
			if k == 0 || len(c.Units) == 1 || rapid.IntRange(0, 2).Draw(t, "allunits") > 0 {
				for u := range c.Units {
					l.U = append(l.U, u)
				}
				if len(l.U) == 2 && rapid.Bool().Draw(t, "swapunits") {
					l.U[0], l.U[1] = l.U[1], l.U[0]
				}
			} else {
				l.U = []int{rapid.IntRange(0, len(c.Units)-1).Draw(t, "oneunit")}
			}
			if rapid.IntRange(0, 5).Draw(t, "repeatunit") == 0 {
				// one line may report a unit twice; both measurements count
				l.U = append(l.U, l.U[rapid.IntRange(0, len(l.U)-1).Draw(t, "repeatwhich")])
			}
			for range l.U {
				l.V = append(l.V, genValue(t, valKind))
			}
			if rapid.IntRange(0, 3).Draw(t, "noisy") == 0 {
				l.Noise = rapid.IntRange(0, 63).Draw(t, "noise")
			}
			if padded && rapid.Bool().Draw(t, "padline") {
				l.Pad = rapid.SampledFrom([]int{28, 29, 30, 31, 32, 38, 60, 61, 62, 63, 64, 70}).Draw(t, "npad")
				l.PadBefore = rapid.SampledFrom([]int{0, l.Pad, l.Pad / 2, 20, 31, 32}).Draw(t, "padbefore")
				if l.PadBefore > l.Pad {
					l.PadBefore = l.Pad
				}
			}
			c.Lines = append(c.Lines, l)
		}
	}
	for tb := range c.Tabs {
		for b := range c.Benches {
			for e := range c.Exps {
				if rapid.IntRange(0, 9).Draw(t, "bench_in_exp") == 0 {
					continue // this benchmark did not run in this experiment
				}
				for _, s := range c.Exps[e].Sers {
					if rapid.IntRange(0, 9).Draw(t, "num_present") > 0 {
						addLines(tb, b, e, s, roleNum, rapid.IntRange(1, maxMeas).Draw(t, "nnum"))
					}
				}
				if !(allowMissingDen && rapid.IntRange(0, 2).Draw(t, "drop_den") == 0) {
					s := c.Exps[e].Sers[rapid.IntRange(0, len(c.Exps[e].Sers)-1).Draw(t, "denser")]
					addLines(tb, b, e, s, roleDen, rapid.IntRange(1, maxMeas).Draw(t, "nden"))
				}
				if rapid.IntRange(0, 3).Draw(t, "others") == 0 {
					s := -1
					if rapid.Bool().Draw(t, "other_real_series") {
						s = c.Exps[e].Sers[0]
					}
					addLines(tb, b, e, s, rapid.SampledFrom([]int{roleOther, roleNone}).Draw(t, "otherrole"), rapid.IntRange(1, 2).Draw(t, "nother"))
				}
			}
		}
	}
	if len(c.Lines) == 0 {
		addLines(0, 0, 0, c.Exps[0].Sers[0], roleNum, 1)
		addLines(0, 0, 0, c.Exps[0].Sers[0], roleDen, 1)
	}

	// orders
	idx := make([]int, len(c.Lines))
	for i := range idx {
		idx[i] = i
	}
	nord := rapid.IntRange(2, 4).Draw(t, "norders")
	for o := 0; o < nord; o++ {
		var ord Order
		if o == 0 && rapid.Bool().Draw(t, "natural_first") {
			ord.Perm = append([]int{}, idx...)
		} else {
			ord.Perm = rapid.Permutation(idx).Draw(t, "perm")
		}
		ord.Text = rapid.IntRange(0, 2).Draw(t, "text") == 0
		if !ord.Text && len(idx) >= 2 && rapid.IntRange(0, 2).Draw(t, "early") == 0 {
			ord.Early = rapid.IntRange(1, len(idx)-1).Draw(t, "earlyat")
		}
		if ord.Text {
			ncut := rapid.IntRange(0, 3).Draw(t, "ncuts")
			for k := 0; k < ncut; k++ {
				ord.Cuts = append(ord.Cuts, rapid.IntRange(0, len(idx)).Draw(t, "cut"))
			}
			sort.Ints(ord.Cuts)
			ord.BadLine = -1
			if rapid.Bool().Draw(t, "viafiles") {
				ord.ViaFiles = true
				if rapid.Bool().Draw(t, "badline") {
					ord.BadLine = rapid.IntRange(0, 3).Draw(t, "badat")
				}
			}
		}
		c.Orders = append(c.Orders, ord)
	}
	return c
}

func TestC18Series(t *testing.T) {
	vcase.Run(t, "C18", "series", Gen, Check)
}
