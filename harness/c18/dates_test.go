package c18

import (
	"fmt"
	"testing"
	"time"

	"golang.org/x/perf/benchseries"
	"pgregory.net/rapid"
	"verif/harness/lib/vcase"
)

// DCase: two instants, each written in one of the accepted forms, and
// optionally a text that is not a date in either format.
type DCase struct {
	A, B   Inst
	TA, TB string // how A and B are written
	FA, FB string // form names (labels)
	Rel    string // how B was derived from A (label)
	Bad    string // if BadWhy != "": a text that denotes no date
	BadWhy string
}

func CheckDates(c DCase) (v vcase.Verdict) {
	v.Label("rel=" + c.Rel)
	v.Label("forms=" + c.FA + "/" + c.FB)
	na, err := benchseries.NormalizeDateString(c.TA)
	if err != nil {
		v.Failf("NormalizeDateString(%q) (valid, instant %+v): %v", c.TA, c.A, err)
		return
	}
	nb, err := benchseries.NormalizeDateString(c.TB)
	if err != nil {
		v.Failf("NormalizeDateString(%q) (valid, instant %+v): %v", c.TB, c.B, err)
		return
	}
	v.Sub = 2
	switch cmp := c.A.Cmp(c.B); {
	case cmp == 0:
		v.Label("equal_instants")
		if na != nb {
			v.Failf("%q and %q denote the same instant but normalise to %q and %q", c.TA, c.TB, na, nb)
			return
		}
	case cmp < 0:
		v.Label("different_instants")
		if !(na < nb) {
			v.Failf("%q is earlier than %q but the normalised strings do not sort that way: %q vs %q", c.TA, c.TB, na, nb)
			return
		}
	default:
		v.Label("different_instants")
		if !(na > nb) {
			v.Failf("%q is later than %q but the normalised strings do not sort that way: %q vs %q", c.TA, c.TB, na, nb)
			return
		}
	}
	// the normalised string is itself an RFC 3339 time stamp of the same instant,
	// so it has to normalise to itself
	if nn, err := benchseries.NormalizeDateString(na); err != nil || nn != na {
		v.Failf("normalised string %q (from %q) normalises to %q, %v", na, c.TA, nn, err)
		return
	}
	if c.BadWhy != "" {
		v.Label("invalid=" + c.BadWhy)
		v.Sub++
		if out, err := benchseries.NormalizeDateString(c.Bad); err == nil {
			v.Failf("NormalizeDateString(%q) (%s) = %q without error", c.Bad, c.BadWhy, out)
			return
		}
	}
	v.NonTrivial = c.TA != c.TB
	return
}

// instants whose UTC and local calendar years stay within 0001..9999
const (
	minSec = -62135596800 + 2*86400 // 0001-01-03T00:00:00Z
	maxSec = 253402300799 - 2*86400 // 9999-12-29T23:59:59Z
)

func genInst(t *rapid.T) Inst {
	var in Inst
	switch rapid.IntRange(0, 9).Draw(t, "era") {
	case 0:
		in.Sec = rapid.Int64Range(minSec, maxSec).Draw(t, "sec_wide")
	case 1: // around calendar boundaries
		y := rapid.IntRange(1999, 2030).Draw(t, "y")
		in.Sec = time.Date(y, time.Month(rapid.SampledFrom([]int{1, 3, 12}).Draw(t, "m")), 1, 0, 0, 0, 0, time.UTC).Unix() + int64(rapid.IntRange(-90000, 90000).Draw(t, "around"))
	default:
		in.Sec = rapid.Int64Range(946684800, 2208988800).Draw(t, "sec") // 2000 .. 2040
	}
	switch rapid.IntRange(0, 5).Draw(t, "nskind") {
	case 0:
		in.Ns = rapid.IntRange(0, 999999999).Draw(t, "ns")
	case 1:
		in.Ns = rapid.SampledFrom([]int{1, 10, 100, 999999999, 500000000, 100000000, 999999990, 123000000, 1000, 1000000}).Draw(t, "nsedge")
	}
	return in
}

func formName(f Form) string {
	if f.Compact {
		return "compact"
	}
	if f.OffMin == 0 {
		return "rfc3339_utc"
	}
	return "rfc3339_offset"
}

func addNs(in Inst, d int64) Inst {
	total := int64(in.Ns) + d
	sec := in.Sec + total/1000000000
	ns := total % 1000000000
	if ns < 0 {
		ns += 1000000000
		sec--
	}
	return Inst{Sec: sec, Ns: int(ns)}
}

func GenDates(t *rapid.T) DCase {
	var c DCase
	c.A = genInst(t)
	switch rapid.IntRange(0, 9).Draw(t, "rel") {
	case 0, 1, 2:
		c.B, c.Rel = c.A, "same"
	case 3:
		c.B, c.Rel = addNs(c.A, int64(rapid.SampledFrom([]int{1, -1, 10, -10, 1000, 100000000, -100000000, 999999999}).Draw(t, "dns"))), "sub_second"
	case 4:
		c.B, c.Rel = addNs(c.A, 1000000000*int64(rapid.SampledFrom([]int{1, -1, 59, 60, -60, 3600, -3600, 86400, -86400}).Draw(t, "dsec"))), "seconds"
	case 5, 6:
		c.B, c.Rel = addNs(c.A, 1000000000*int64(rapid.IntRange(-100000, 100000).Draw(t, "dnear"))), "within_a_day"
	default:
		c.B, c.Rel = genInst(t), "independent"
	}
	if c.B.Sec < minSec || c.B.Sec > maxSec {
		c.B, c.Rel = c.A, "same"
	}
	fa, fb := genForm(t, c.A, "fa"), genForm(t, c.B, "fb")
	c.TA, c.TB = render(c.A, fa), render(c.B, fb)
	c.FA, c.FB = formName(fa), formName(fb)

	if rapid.IntRange(0, 2).Draw(t, "bad") == 0 {
		c.Bad, c.BadWhy = genBad(t, c.A)
	}
	return c
}

// genBad builds a text that is a date in neither format, by construction.
func genBad(t *rapid.T, in Inst) (string, string) {
	tm := time.Unix(in.Sec, 0).UTC()
	y, mo, d, h, mi, s := tm.Year(), int(tm.Month()), tm.Day(), tm.Hour(), tm.Minute(), tm.Second()
	why := rapid.SampledFrom([]string{"month", "day", "hour", "minute", "second", "offset_hour", "no_zone", "no_seconds", "garbage", "empty",
		"compact_short", "compact_letters", "feb30", "trailing"}).Draw(t, "badkind")
	compact := rapid.Bool().Draw(t, "badcompact")
	zone := rapid.SampledFrom([]string{"Z", "+00:00", "+05:30", "-08:00"}).Draw(t, "badzone")
	switch why {
	case "month":
		mo = rapid.SampledFrom([]int{0, 13, 19, 99}).Draw(t, "badv")
	case "day":
		d = rapid.SampledFrom([]int{0, 32, 40, 99}).Draw(t, "badv")
	case "feb30":
		mo, d = 2, rapid.SampledFrom([]int{30, 31}).Draw(t, "badv")
	case "hour":
		h = rapid.IntRange(25, 99).Draw(t, "badv")
	case "minute":
		mi = rapid.IntRange(60, 99).Draw(t, "badv")
	case "second":
		s = rapid.IntRange(61, 99).Draw(t, "badv")
	case "offset_hour":
		compact = false
		zone = fmt.Sprintf("%c%02d:00", rapid.SampledFrom([]rune{'+', '-'}).Draw(t, "badsign"), rapid.IntRange(25, 99).Draw(t, "badv"))
	}
	var s0 string
	if compact {
		s0 = fmt.Sprintf("%04d%02d%02dT%02d%02d%02d", y, mo, d, h, mi, s)
	} else {
		s0 = fmt.Sprintf("%04d-%02d-%02dT%02d:%02d:%02d%s", y, mo, d, h, mi, s, zone)
	}
	switch why {
	case "no_zone":
		s0 = fmt.Sprintf("%04d-%02d-%02dT%02d:%02d:%02d", y, mo, d, h, mi, s)
	case "no_seconds":
		s0 = fmt.Sprintf("%04d-%02d-%02dT%02d:%02d%s", y, mo, d, h, mi, zone)
	case "garbage":
		s0 = rapid.SampledFrom([]string{"yesterday", "T", "2022", "2022-01-09", "21:32:14Z", "Tip", "0", "-", "1641763934", "Sun Jan  9 21:32:14 UTC 2022"}).Draw(t, "garbage")
	case "empty":
		s0 = ""
	case "compact_short":
		s0 = fmt.Sprintf("%04d%02d%02dT%02d%02d", y, mo, d, h, mi)
	case "compact_letters":
		s0 = fmt.Sprintf("%04d%02d%02dT%02d%02dxx", y, mo, d, h, mi)
	case "trailing":
		s0 += rapid.SampledFrom([]string{"x", " UTC", "Z", "+00:00", "!"}).Draw(t, "trail")
	}
	return s0, why
}

func TestC18Dates(t *testing.T) {
	vcase.Run(t, "C18", "dates", GenDates, CheckDates)
}
