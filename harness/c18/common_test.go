// Package c18: comparison series built by golang.org/x/perf/benchseries
// depend only on the set of results added; bootstrap summaries are sane;
// date normalisation is instant-preserving and order-preserving.
//
// Three units:
//
//	series    – reference grouping model + insertion-order metamorphic relation
//	bootstrap – reproducibility, low <= centre <= high, ratio bounds
//	dates     – NormalizeDateString on both accepted formats
package c18

import (
	"fmt"
	"math"
	"sort"
	"strings"
	"time"

	"pgregory.net/rapid"
)

// Inst is an instant: seconds since the Unix epoch (UTC) and nanoseconds.
type Inst struct {
	Sec int64
	Ns  int
}

func (a Inst) Cmp(b Inst) int {
	switch {
	case a.Sec < b.Sec:
		return -1
	case a.Sec > b.Sec:
		return 1
	case a.Ns < b.Ns:
		return -1
	case a.Ns > b.Ns:
		return 1
	}
	return 0
}

// Stamp form: how an instant is written.
type Form struct {
	Compact bool // 20060102T150405 (UTC, whole seconds only)
	OffMin  int  // zone offset in minutes (RFC 3339 form)
	Zulu    bool // write offset 0 as "Z"
	NegZero bool // write offset 0 as "-00:00"
	FracDig int  // number of fractional digits written (0 = none); must be able to hold Ns exactly
}

// minFracDigits is the least number of fractional digits that represents ns exactly.
func minFracDigits(ns int) int {
	if ns == 0 {
		return 0
	}
	d := 9
	for ns%10 == 0 {
		ns /= 10
		d--
	}
	return d
}

// render writes instant in under form f. It uses only calendar arithmetic of
// the standard library (time.Unix / Date fields), no layout strings.
func render(in Inst, f Form) string {
	if f.Compact {
		t := time.Unix(in.Sec, 0).UTC()
		return fmt.Sprintf("%04d%02d%02dT%02d%02d%02d", t.Year(), int(t.Month()), t.Day(), t.Hour(), t.Minute(), t.Second())
	}
	t := time.Unix(in.Sec+int64(f.OffMin)*60, 0).UTC() // local wall clock
	s := fmt.Sprintf("%04d-%02d-%02dT%02d:%02d:%02d", t.Year(), int(t.Month()), t.Day(), t.Hour(), t.Minute(), t.Second())
	if f.FracDig > 0 {
		all := fmt.Sprintf("%09d", in.Ns)
		s += "." + all[:f.FracDig]
	}
	switch {
	case f.OffMin == 0 && f.Zulu:
		s += "Z"
	case f.OffMin == 0 && f.NegZero:
		s += "-00:00"
	default:
		sign := '+'
		o := f.OffMin
		if o < 0 {
			sign = '-'
			o = -o
		}
		s += fmt.Sprintf("%c%02d:%02d", sign, o/60, o%60)
	}
	return s
}

var commonOffsets = []int{0, 0, 60, 120, -300, -480, 330, 345, 540, 765, 840, -720, -210, 1, -1, 1439, -1439}

// genForm draws a way of writing instant in.
func genForm(t *rapid.T, in Inst, label string) Form {
	if in.Ns == 0 && rapid.IntRange(0, 2).Draw(t, label+"_compact") == 0 {
		return Form{Compact: true}
	}
	f := Form{}
	if rapid.IntRange(0, 3).Draw(t, label+"_offkind") == 0 {
		f.OffMin = rapid.IntRange(-1439, 1439).Draw(t, label+"_off")
	} else {
		f.OffMin = rapid.SampledFrom(commonOffsets).Draw(t, label+"_offc")
	}
	if f.OffMin == 0 {
		switch rapid.IntRange(0, 3).Draw(t, label+"_zero") {
		case 0, 1:
			f.Zulu = true
		case 2:
			f.NegZero = true
		}
	}
	min := minFracDigits(in.Ns)
	switch rapid.IntRange(0, 3).Draw(t, label+"_frac") {
	case 0, 1:
		f.FracDig = min
	case 2:
		f.FracDig = 9
	default:
		f.FracDig = rapid.IntRange(min, 9).Draw(t, label+"_fracn")
	}
	if in.Ns == 0 && rapid.IntRange(0, 2).Draw(t, label+"_nofrac") > 0 {
		f.FracDig = 0
	}
	return f
}

// altForms returns renderings of the same instant that are pairwise distinct
// as text by construction.
func altForms(in Inst) []Form {
	min := minFracDigits(in.Ns)
	fs := []Form{
		{OffMin: 0, Zulu: true, FracDig: min},
		{OffMin: 0, FracDig: min},
		{OffMin: 60, FracDig: min},
		{OffMin: -330, FracDig: min},
		{OffMin: 840, FracDig: min},
	}
	if in.Ns == 0 {
		fs = append(fs, Form{Compact: true}, Form{OffMin: 0, Zulu: true, FracDig: 3})
	} else if min < 9 {
		fs = append(fs, Form{OffMin: 0, Zulu: true, FracDig: 9})
	}
	return fs
}

// rare draws true with probability of roughly 0.55% * k (k <= 30). rapid's
// integer generator favours the ends of a range heavily (0, 1 and the maximum
// of 0..99 come up 10%, 10% and 3% of the time), so low rates are taken from
// the flat middle of the range.
func rare(t *rapid.T, label string, k int) bool {
	x := rapid.IntRange(0, 99).Draw(t, label)
	return x >= 32 && x < 32+k
}

// ---------------------------------------------------------------------------
// float helpers

func ulp(x float64) float64 {
	x = math.Abs(x)
	if math.IsInf(x, 0) || math.IsNaN(x) {
		return math.NaN()
	}
	return math.Nextafter(x, math.Inf(1)) - x
}

// leqSlack reports a <= b up to k ulps of the larger magnitude.
func leqSlack(a, b float64, k float64) bool {
	if a <= b {
		return true
	}
	m := math.Max(math.Abs(a), math.Abs(b))
	return a-b <= k*ulp(m)
}

func sortedCopy(a []float64) []float64 {
	b := append([]float64{}, a...)
	sort.Float64s(b)
	return b
}

func sameMultiset(a, b []float64) bool {
	if len(a) != len(b) {
		return false
	}
	a, b = sortedCopy(a), sortedCopy(b)
	for i := range a {
		if math.Float64bits(a[i]) != math.Float64bits(b[i]) {
			return false
		}
	}
	return true
}

func fmtVals(a []float64) string {
	a = sortedCopy(a)
	parts := make([]string, len(a))
	for i, v := range a {
		parts[i] = fmt.Sprintf("%v", v)
	}
	return "[" + strings.Join(parts, " ") + "]"
}
