package c18

import (
	"fmt"
	"math"
	"testing"

	"golang.org/x/perf/benchfmt"
	"golang.org/x/perf/benchseries"
	"pgregory.net/rapid"
	"verif/harness/lib/vcase"
)

// BPoint is the pair of samples of one benchmark.
type BPoint struct {
	Num, Den []float64 // finite
}

// BCase: a few benchmarks measured in one experiment for one series point,
// summarised with confidence Conf and N bootstrap resamples.
type BCase struct {
	Points []BPoint
	Conf   float64 // in (0,1)
	N      int
	Perm   []int // second insertion order (permutation of all result lines)
	Kind   string
}

type bline struct {
	bench string
	role  string
	val   float64
}

func (c *BCase) lines() []bline {
	var ls []bline
	for i, p := range c.Points {
		name := fmt.Sprintf("P%d", i)
		for _, x := range p.Num {
			ls = append(ls, bline{name, valNum, x})
		}
		for _, x := range p.Den {
			ls = append(ls, bline{name, valDen, x})
		}
	}
	return ls
}

const bootExp, bootSer = "20220109T213214", "2022-01-09T18:43:51+00:00"

type bsum struct {
	low, centre, high float64
	present           bool
	date              string
}

// summarise builds the series from the lines in the given order and returns
// the summary of every benchmark.
func (c *BCase) summarise(order []int) (map[string]bsum, error) {
	b, err := benchseries.NewBuilder(&benchseries.BuilderOptions{
		Filter: ".unit:/.*/", Series: keySer, Table: "", Experiment: keyExp, Compare: keyRole,
		Numerator: valNum, Denominator: valDen, NumeratorHash: keyNum, DenominatorHash: keyDen, Ignore: "",
		Warn: func(string, ...interface{}) {},
	})
	if err != nil {
		return nil, err
	}
	ls := c.lines()
	for _, i := range order {
		l := ls[i]
		cf := func(k, v string) benchfmt.Config { return benchfmt.Config{Key: k, Value: []byte(v), File: true} }
		b.Add(&benchfmt.Result{
			Config: []benchfmt.Config{cf(keyRole, l.role), cf(keyExp, bootExp), cf(keySer, bootSer), cf(keyNum, "abc123"), cf(keyDen, "def456")},
			Name:   []byte(l.bench), Iters: 1, Values: []benchfmt.Value{{Value: l.val, Unit: "widgets"}},
		})
	}
	css, err := b.AllComparisonSeries(nil, benchseries.DUPE_REPLACE)
	if err != nil {
		return nil, err
	}
	if len(css) != 1 || len(css[0].Series) != 1 || len(css[0].Benchmarks) != len(c.Points) {
		return nil, fmt.Errorf("unexpected shape: %d tables", len(css))
	}
	cs := css[0]
	cs.AddSummaries(c.Conf, c.N)
	if len(cs.Summaries) != 1 || len(cs.Summaries[0]) != len(cs.Benchmarks) {
		return nil, fmt.Errorf("Summaries is not |Series| x |Benchmarks|: %d rows", len(cs.Summaries))
	}
	out := map[string]bsum{}
	for j, bn := range cs.Benchmarks {
		s := cs.Summaries[0][j]
		s2, ok := cs.SummaryAt(bn, cs.Series[0])
		if s == nil || !ok || s2 != s {
			return nil, fmt.Errorf("Summaries[0][%d] and SummaryAt(%q) disagree", j, bn)
		}
		out[bn] = bsum{s.Low, s.Center, s.High, s.Present, s.Date}
	}
	return out, nil
}

func minmax(a []float64) (lo, hi float64) {
	lo, hi = a[0], a[0]
	for _, x := range a {
		lo, hi = math.Min(lo, x), math.Max(hi, x)
	}
	return
}

// knownAPredicate is the precondition of finding C18-a, read off the code:
// ratio() takes low = percentile(ratios, p) with p = (1-confidence)/2, i.e. the
// interpolated order statistic at index f = N*p, but centre = median(ratios),
// the middle order statistic (odd N) or the mean of the two middle ones (even
// N). low can exceed centre only if f > (N-1)/2, i.e. confidence*N < 1; the
// 1e-12 covers the rounding of the library's own (1-confidence)/2*N for N <= 500.
func knownAPredicate(conf float64, n int) bool {
	return float64(n)*conf <= 1+1e-12
}

func CheckBoot(c BCase) (v vcase.Verdict) {
	v.Label("N=" + fmt.Sprint(c.N))
	v.Label("kind=" + c.Kind)
	pred := knownAPredicate(c.Conf, c.N)
	switch {
	case c.N == 1:
		v.Label("N1_single_replicate") // confidence*N < 1 always, but one replicate cannot be out of order
	case pred:
		v.Label("conf_lt_1_over_N")
	default:
		v.Label("conf_gt_1_over_N")
	}
	switch {
	case c.Conf < 1e-6:
		v.Label("conf_tiny")
	case c.Conf > 1-1e-6:
		v.Label("conf_near_one")
	}
	n := len(c.lines())
	ident := make([]int, n)
	for i := range ident {
		ident[i] = i
	}
	s1, err := c.summarise(ident)
	if err != nil {
		v.Failf("%v", err)
		return
	}
	s2, err := c.summarise(c.Perm)
	if err != nil {
		v.Failf("%v", err)
		return
	}
	s3, err := c.summarise(ident)
	if err != nil {
		v.Failf("%v", err)
		return
	}
	permDiffers := fmt.Sprint(ident) != fmt.Sprint(c.Perm)
	multi := false
	wantDate, _ := benchseries.NormalizeDateString(bootExp)
	for i, p := range c.Points {
		name := fmt.Sprintf("P%d", i)
		a, b, d := s1[name], s2[name], s3[name]
		v.Sub++
		if len(p.Num) > 1 || len(p.Den) > 1 {
			multi = true
		}
		eq := func(x, y bsum) bool {
			return math.Float64bits(x.low) == math.Float64bits(y.low) && math.Float64bits(x.centre) == math.Float64bits(y.centre) &&
				math.Float64bits(x.high) == math.Float64bits(y.high) && x.present == y.present && x.date == y.date
		}
		if !eq(a, d) {
			v.Failf("benchmark %s: AddSummaries(%v, %d) on the same data added in the same order gives %+v and %+v", name, c.Conf, c.N, a, d)
			return
		}
		if !eq(a, b) {
			v.Failf("benchmark %s: AddSummaries(%v, %d) on the same samples added in another order gives %+v and %+v (num %s den %s)", name, c.Conf, c.N, a, b, fmtVals(p.Num), fmtVals(p.Den))
			return
		}
		if !a.present {
			v.Failf("benchmark %s: summary not Present although numerator and denominator exist", name)
			return
		}
		if len(c.Points) > 1 {
			// the summary of a point is a function of its own samples (hashes, level and
			// resample count being equal): summarised on its own it comes out the same
			one := BCase{Points: []BPoint{p}, Conf: c.Conf, N: c.N, Kind: c.Kind}
			idx := make([]int, len(p.Num)+len(p.Den))
			for k := range idx {
				idx[k] = k
			}
			alone, err := one.summarise(idx)
			if err != nil {
				v.Failf("%v", err)
				return
			}
			if !eq(a, alone["P0"]) {
				v.Failf("benchmark %s: AddSummaries(%v, %d) gives %+v next to %d other benchmarks but %+v for the same samples on their own (num %s den %s)", name, c.Conf, c.N, a, len(c.Points)-1, alone["P0"], fmtVals(p.Num), fmtVals(p.Den))
				return
			}
		}
		if a.date != wantDate {
			v.Failf("benchmark %s: summary Date %q, want %q", name, a.date, wantDate)
			return
		}
		if math.IsNaN(a.low) || math.IsNaN(a.centre) || math.IsNaN(a.high) {
			v.Failf("benchmark %s: NaN in summary %+v (num %s den %s)", name, a, fmtVals(p.Num), fmtVals(p.Den))
			return
		}
		const slack = 4
		boundsOK := true
		boundsMsg := ""
		if c.Kind != "signed" {
			nlo, nhi := minmax(p.Num)
			dlo, dhi := minmax(p.Den)
			lo, hi := nlo/dhi, nhi/dlo
			for _, x := range []float64{a.low, a.centre, a.high} {
				if !leqSlack(lo, x, slack) || !leqSlack(x, hi, slack) {
					boundsOK = false
					boundsMsg = fmt.Sprintf("benchmark %s: summary {low %v centre %v high %v} leaves the attainable ratio range [%v, %v] (num %s den %s, confidence %v, N %d)",
						name, a.low, a.centre, a.high, lo, hi, fmtVals(p.Num), fmtVals(p.Den), c.Conf, c.N)
				}
			}
		}
		if !boundsOK {
			v.Failf("%s", boundsMsg)
			return
		}
		lowOK := leqSlack(a.low, a.centre, slack)
		highOK := leqSlack(a.centre, a.high, slack)
		if lowOK && highOK {
			continue
		}
		// deviation: low > centre or centre > high
		if !lowOK && highOK && leqSlack(a.low, a.high, slack) && pred && vcase.KnownListed("C18-a") {
			// C18-a: confidence*N <= 1 and exactly "low above centre" (centre <= high and
			// low <= high still hold, the range bounds hold, the numbers are reproducible).
			v.KnownHit("C18-a")
			v.Label("low_above_centre")
			continue
		}
		v.Failf("benchmark %s: summary violates low <= centre <= high: low %v centre %v high %v (confidence %v, N %d, confidence*N %v; num %s den %s)",
			name, a.low, a.centre, a.high, c.Conf, c.N, float64(c.N)*c.Conf, fmtVals(p.Num), fmtVals(p.Den))
		return
	}
	v.NonTrivial = multi && permDiffers && c.N > 1
	if permDiffers {
		v.Label("orders_differ")
	}
	return
}

var bootNs = []int{1, 2, 7, 100, 500}

func genConf(t *rapid.T, n int) float64 {
	le := rare(t, "conf_le_1_over_N", 11)
	if le {
		switch rapid.IntRange(0, 4).Draw(t, "lekind") {
		case 0:
			return 1 / float64(n) * 0.999999
		case 1: // very small
			return math.Pow(10, -float64(rapid.IntRange(3, 300).Draw(t, "tinyexp"))) / float64(n)
		case 2:
			return math.SmallestNonzeroFloat64
		case 3:
			if n > 1 {
				return 1 / float64(n) // exactly on the border (low == centre expected)
			}
			return 0.5
		default:
			return rapid.Float64Range(0.001, 0.999).Draw(t, "lefrac") / float64(n)
		}
	}
	var u float64
	switch rapid.IntRange(0, 9).Draw(t, "confkind") {
	case 0, 1, 2, 3:
		u = rapid.SampledFrom([]float64{0.5, 0.8, 0.9, 0.95, 0.99, 0.999}).Draw(t, "typical")
	case 4, 5, 6, 7:
		u = rapid.Float64Range(0.0001, 0.9999).Draw(t, "uniform")
	case 8: // very large
		switch rapid.IntRange(0, 2).Draw(t, "nearone") {
		case 0:
			u = 1 - math.Pow(10, -float64(rapid.IntRange(4, 15).Draw(t, "nines")))
		case 1:
			u = math.Nextafter(1, 0)
		default:
			u = 1 - math.Pow(2, -float64(rapid.IntRange(20, 52).Draw(t, "bits")))
		}
	default: // just above the border 1/N
		if n > 1 {
			u = 1 / float64(n) * (1 + math.Pow(10, -float64(rapid.IntRange(1, 9).Draw(t, "above"))))
		} else {
			u = 0.9
		}
	}
	if n > 1 && float64(n)*u <= 1+1e-9 {
		// map (0,1) onto (1/N, 1)
		u = (1 + u*float64(n-1)) / float64(n)
		if !(u < 1) || float64(n)*u <= 1+1e-9 {
			u = 0.95
		}
	}
	if !(u > 0 && u < 1) {
		u = 0.95
	}
	return u
}

func GenBoot(t *rapid.T) BCase {
	var c BCase
	c.N = rapid.SampledFrom(bootNs).Draw(t, "N")
	c.Conf = genConf(t, c.N)
	kind := rapid.SampledFrom([]string{"smallint", "smallint", "float", "float", "float", "ns", "ns", "wide", "signed", "subnormal"}).Draw(t, "kind")
	c.Kind = kind
	val := func() float64 {
		switch kind {
		case "smallint":
			return float64(rapid.IntRange(1, 9).Draw(t, "v"))
		case "float":
			return rapid.Float64Range(0.5, 2000).Draw(t, "v")
		case "ns":
			return float64(rapid.IntRange(1000000, 2000000).Draw(t, "v"))
		case "wide":
			return math.Pow(10, rapid.Float64Range(-6, 9).Draw(t, "v"))
		case "subnormal":
			// positive measurements a few units above the smallest positive float64
			return float64(rapid.IntRange(1, 12).Draw(t, "v")) * 5e-324
		default:
			return float64(rapid.IntRange(-3, 3).Draw(t, "v"))
		}
	}
	np := rapid.IntRange(1, 3).Draw(t, "npoints")
	total := 0
	for i := 0; i < np; i++ {
		var p BPoint
		nn := rapid.IntRange(1, 8).Draw(t, "nnum")
		nd := rapid.IntRange(1, 8).Draw(t, "nden")
		for k := 0; k < nn; k++ {
			p.Num = append(p.Num, val())
		}
		for k := 0; k < nd; k++ {
			p.Den = append(p.Den, val())
		}
		total += nn + nd
		c.Points = append(c.Points, p)
	}
	idx := make([]int, total)
	for i := range idx {
		idx[i] = i
	}
	c.Perm = rapid.Permutation(idx).Draw(t, "perm")
	return c
}

func TestC18Bootstrap(t *testing.T) {
	vcase.Run(t, "C18", "bootstrap", GenBoot, CheckBoot)
}
