package c08

// Unit "manykeys": one Projection that has handed out a very large number of
// distinct Keys still returns the identical Key for a tuple it has seen before
// (Keys are compared with ==; a table of keys that forgets entries would mint
// a second Key for the same tuple).

import (
	"strconv"
	"testing"

	"golang.org/x/perf/benchfmt"
	"golang.org/x/perf/benchproc"
	"verif/harness/lib/vcase"
)

type ManyCase struct {
	N    int    // number of distinct tuples projected
	Expr string // projection expression
}

func manyResult(i int) *benchfmt.Result {
	return &benchfmt.Result{
		Name:   benchfmt.Name("Many/i=" + strconv.Itoa(i) + "-8"),
		Iters:  1,
		Config: []benchfmt.Config{{Key: "goos", Value: []byte("os" + strconv.Itoa(i%7)), File: true}},
		Values: []benchfmt.Value{{Value: 1, Unit: "sec/op"}},
	}
}

func manyCheck(c ManyCase) (v vcase.Verdict) {
	if c.N < 1 || c.N > 400000 {
		return
	}
	var pp benchproc.ProjectionParser
	proj, err := pp.Parse(c.Expr, nil)
	if err != nil {
		v.Failf("Parse(%q): %v", c.Expr, err)
		return
	}
	probe := func(i int) bool { return i < 64 || i%4099 == 0 || i >= c.N-64 }
	kept := map[int]benchproc.Key{}
	for i := 0; i < c.N; i++ {
		k := proj.Project(manyResult(i))
		if probe(i) {
			kept[i] = k
		}
	}
	for i := 0; i < c.N; i++ {
		if !probe(i) {
			continue
		}
		k := proj.Project(manyResult(i))
		if k != kept[i] {
			v.Failf("projection %q after %d distinct tuples: tuple %d (%s) projected again gives a Key that is != the Key returned the first time (values %q vs %q)", c.Expr, c.N, i, manyResult(i).Name, k.String(), kept[i].String())
			return
		}
	}
	v.NonTrivial = c.N > 1<<16
	v.Label("n=" + strconv.Itoa(c.N))
	return
}

func TestC08ManyKeys(t *testing.T) {
	vcase.Enum(t, "C08", "manykeys", false, func(yield func(ManyCase) bool) {
		for _, n := range []int{1000, 65535, 65536, 65537, 70000, vcase.Scale(70001, 200000)} {
			for _, e := range []string{".fullname", "/i,goos", ".config,/i"} {
				if !yield(ManyCase{N: n, Expr: e}) {
					return
				}
			}
		}
	}, manyCheck)
}
