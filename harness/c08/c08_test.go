// Package c08: keys identify projected tuples; projections parsed by one
// parser exclude each other's specific keys irrespective of parse order, and
// together with the residue they lose nothing.
package c08

import (
	"fmt"
	"sort"
	"strings"
	"testing"

	"golang.org/x/perf/benchfmt"
	"golang.org/x/perf/benchproc"
	"pgregory.net/rapid"
	"verif/harness/lib/refbench"
	"verif/harness/lib/vcase"
)

type Cfg struct {
	K, V string
	File bool
}

type Res struct {
	Name  string
	Cfg   []Cfg
	Units []string
}

type FieldSpec struct {
	Key   string
	Order string // "", "alpha", "num"
}

type Case struct {
	Exprs     [][]FieldSpec // 1-4 projection expressions
	Perm      []int         // second parse order (a permutation of 0..len(Exprs)-1)
	UnitExpr  int           // index of the expression parsed with ParseWithUnit, or -1
	Stream    []Res
	Reproject []int // indices of earlier results projected again at the end
	// EarlyResidue: the parser is asked for its residue after the first expression already (and
	// not again); FailedConfig: the parser is first offered the invalid
	// ".config@(x y)", which it must reject without a trace
	EarlyResidue bool `json:",omitempty"`
	FailedConfig bool `json:",omitempty"`
}

func exprText(fs []FieldSpec) string {
	var parts []string
	for _, f := range fs {
		s := f.Key
		if f.Order != "" {
			s += "@" + f.Order
		}
		parts = append(parts, s)
	}
	return strings.Join(parts, ",")
}

func mkResult(r Res) *benchfmt.Result {
	res := &benchfmt.Result{Name: benchfmt.Name(r.Name), Iters: 1}
	seen := map[string]bool{}
	for _, c := range r.Cfg {
		if seen[c.K] || c.K == "" {
			continue
		}
		seen[c.K] = true
		res.Config = append(res.Config, benchfmt.Config{Key: c.K, Value: []byte(c.V), File: c.File})
	}
	for i, u := range r.Units {
		res.Values = append(res.Values, benchfmt.Value{Value: float64(i + 1), Unit: u})
	}
	return res
}

// ---------------------------------------------------------------------------
// reference

type refCtx struct {
	plainKeys map[string]bool // specific configuration keys named in any expression
	nameKeys  []string        // ".name" and "/k" keys named in any expression
}

func newRefCtx(exprs [][]FieldSpec) *refCtx {
	rc := &refCtx{plainKeys: map[string]bool{}}
	for _, e := range exprs {
		for _, f := range e {
			switch {
			case f.Key == ".config" || f.Key == ".fullname":
			case f.Key == ".name" || strings.HasPrefix(f.Key, "/"):
				rc.nameKeys = append(rc.nameKeys, f.Key)
			default:
				rc.plainKeys[f.Key] = true
			}
		}
	}
	return rc
}

func cfgMap(r Res, fileOnly bool) map[string]string {
	m := map[string]string{}
	seen := map[string]bool{}
	for _, c := range r.Cfg {
		if seen[c.K] || c.K == "" {
			continue
		}
		seen[c.K] = true
		if (c.File || !fileOnly) && c.V != "" {
			m[c.K] = c.V
		}
	}
	return m
}

func (rc *refCtx) extract(r Res, key string) string {
	switch {
	case key == ".name":
		b, _ := refbench.SplitName(r.Name)
		return b
	case strings.HasPrefix(key, "/"):
		return refbench.NameKey(r.Name, key[1:])
	}
	return cfgMap(r, false)[key]
}

// remainderName is the name with every individually projected name key removed.
func (rc *refCtx) remainderName(name string) string {
	base, parts := refbench.SplitName(name)
	out := base
	exG := false
	for _, k := range rc.nameKeys {
		if k == ".name" {
			out = "*"
		}
		if k == "/gomaxprocs" {
			exG = true
		}
	}
parts:
	for _, p := range parts {
		for _, k := range rc.nameKeys {
			if strings.HasPrefix(k, "/") && strings.HasPrefix(p, k+"=") {
				continue parts
			}
		}
		if exG && strings.HasPrefix(p, "-") {
			continue
		}
		out += p
	}
	return out
}

// remainderConfig is the file configuration without individually projected keys.
func (rc *refCtx) remainderConfig(r Res) map[string]string {
	m := cfgMap(r, true)
	for k := range rc.plainKeys {
		delete(m, k)
	}
	return m
}

func canon(m map[string]string) string {
	var ks []string
	for k := range m {
		ks = append(ks, k)
	}
	sort.Strings(ks)
	var sb strings.Builder
	for _, k := range ks {
		fmt.Fprintf(&sb, "%q=%q;", k, m[k])
	}
	return sb.String()
}

// tuple is the canonical reference tuple of expression e for r (unit excluded).
func (rc *refCtx) tuple(e []FieldSpec, r Res) string {
	var sb strings.Builder
	for _, f := range e {
		switch f.Key {
		case ".config":
			sb.WriteString("{" + canon(rc.remainderConfig(r)) + "}")
		case ".fullname":
			fmt.Fprintf(&sb, "%q", rc.remainderName(r.Name))
		default:
			fmt.Fprintf(&sb, "%q", rc.extract(r, f.Key))
		}
		sb.WriteByte('|')
	}
	return sb.String()
}

// total is T(r): file configuration, every specific key's value, remaining name.
func (rc *refCtx) total(exprs [][]FieldSpec, r Res) string {
	var sb strings.Builder
	sb.WriteString(canon(cfgMap(r, true)))
	for _, e := range exprs {
		for _, f := range e {
			if f.Key != ".config" && f.Key != ".fullname" {
				fmt.Fprintf(&sb, "|%s=%q", f.Key, rc.extract(r, f.Key))
			}
		}
	}
	fmt.Fprintf(&sb, "|%q", rc.remainderName(r.Name))
	return sb.String()
}

func distinctSubkeys(name string) bool {
	_, parts := refbench.SplitName(name)
	seen := map[string]bool{}
	for _, p := range parts {
		if eq := strings.IndexByte(p, '='); strings.HasPrefix(p, "/") && eq > 0 {
			k := p[:eq]
			if seen[k] {
				return false
			}
			seen[k] = true
		}
	}
	// an explicit /gomaxprocs= part together with a trailing -N is a duplicate too
	if seen["/gomaxprocs"] && len(parts) > 0 && strings.HasPrefix(parts[len(parts)-1], "-") {
		return false
	}
	return true
}

// ---------------------------------------------------------------------------

type run struct {
	projs   []*benchproc.Projection // by expression index
	unitFld *benchproc.Field
	residue *benchproc.Projection
	keys    [][]benchproc.Key // [expr][result]
	rkeys   []benchproc.Key   // residue keys
	vkeys   [][]benchproc.Key // ProjectValues keys of the unit expression, per result
}

func doRun(c Case, order []int) (*run, string) {
	var pp benchproc.ProjectionParser
	r := &run{projs: make([]*benchproc.Projection, len(c.Exprs)), keys: make([][]benchproc.Key, len(c.Exprs))}
	if c.FailedConfig {
		if _, err := pp.Parse(".config@(x y)", nil); err == nil {
			return nil, "Parse(\".config@(x y)\") succeeded"
		}
	}
	for oi, ei := range order {
		if c.EarlyResidue && oi == 1 {
			// what is not projected *yet*; the expressions parsed afterwards are unaffected by
			// the question having been asked (this residue is the only one taken in this run)
			r.residue = pp.Residue()
		}
		text := exprText(c.Exprs[ei])
		var err error
		if ei == c.UnitExpr {
			r.projs[ei], r.unitFld, err = pp.ParseWithUnit(text, nil)
		} else {
			r.projs[ei], err = pp.Parse(text, nil)
		}
		if err != nil {
			return nil, fmt.Sprintf("Parse(%q): %v", text, err)
		}
	}
	if r.residue == nil {
		r.residue = pp.Residue()
	}
	for _, sr := range c.Stream {
		res := mkResult(sr)
		for ei, p := range r.projs {
			if ei == c.UnitExpr {
				vk := p.ProjectValues(res)
				r.vkeys = append(r.vkeys, vk)
				if len(vk) != len(res.Values) {
					return nil, fmt.Sprintf("ProjectValues returned %d keys for %d values", len(vk), len(res.Values))
				}
				var k benchproc.Key
				if len(vk) > 0 {
					k = vk[0]
				} else {
					k = p.Project(res)
				}
				r.keys[ei] = append(r.keys[ei], k)
			} else {
				r.keys[ei] = append(r.keys[ei], p.Project(res))
			}
		}
		r.rkeys = append(r.rkeys, r.residue.Project(res))
	}
	return r, ""
}

func flatNames(p *benchproc.Projection) []string {
	var ns []string
	for _, f := range p.FlattenedFields() {
		ns = append(ns, f.Name)
	}
	return ns
}

func Check(c Case) (v vcase.Verdict) {
	if len(c.Exprs) == 0 || len(c.Stream) == 0 {
		return
	}
	ident := make([]int, len(c.Exprs))
	for i := range ident {
		ident[i] = i
	}
	perm := c.Perm
	if len(perm) != len(ident) {
		perm = ident
	}
	A, msg := doRun(c, ident)
	if msg != "" {
		v.Failf("%s", msg)
		return
	}
	B, msg := doRun(c, perm)
	if msg != "" {
		v.Failf("%s", msg)
		return
	}
	if fmt.Sprint(perm) != fmt.Sprint(ident) {
		v.Label("parse_order_swapped")
	}
	rc := newRefCtx(c.Exprs)
	hasConfig, hasFull := false, false
	for _, e := range c.Exprs {
		for _, f := range e {
			hasConfig = hasConfig || f.Key == ".config"
			hasFull = hasFull || f.Key == ".fullname"
			if f.Key == "/gomaxprocs" {
				v.Label("gomaxprocs_specific")
			}
		}
	}

	// (i) identity and extraction, per expression
	distinctKeys := map[benchproc.Key]bool{}
	for ei, e := range c.Exprs {
		p := A.projs[ei]
		keys := A.keys[ei]
		tup := make([]string, len(keys))
		for i := range keys {
			tup[i] = rc.tuple(e, c.Stream[i])
			if ei == c.UnitExpr && len(c.Stream[i].Units) > 0 {
				tup[i] += "unit=" + c.Stream[i].Units[0]
			}
			distinctKeys[keys[i]] = true
		}
		for i := range keys {
			for j := i + 1; j < len(keys); j++ {
				v.Sub++
				if (keys[i] == keys[j]) != (tup[i] == tup[j]) {
					v.Failf("projection %q: results %d and %d have keys equal=%v but reference tuples %s vs %s", exprText(e), i, j, keys[i] == keys[j], tup[i], tup[j])
					return
				}
			}
		}
		// Get on every flattened field
		flat := p.FlattenedFields()
		top := p.Fields()
		// FlattenedFields is Fields with every tuple field replaced by its sub-fields, in order
		var flatRef []*benchproc.Field
		for _, f := range top {
			if f.IsTuple {
				flatRef = append(flatRef, f.Sub...)
			} else {
				flatRef = append(flatRef, f)
			}
		}
		if len(flat) != len(flatRef) {
			v.Failf("projection %q: FlattenedFields has %d fields, Fields (tuples expanded) has %d", exprText(e), len(flat), len(flatRef))
			return
		}
		for i := range flat {
			if flat[i] != flatRef[i] {
				v.Failf("projection %q: FlattenedFields[%d] is %q, Fields (tuples expanded) has %q there", exprText(e), i, flat[i].Name, flatRef[i].Name)
				return
			}
		}
		for i, k := range keys {
			for _, f := range top {
				if f.IsTuple {
					if f.Name != ".config" {
						v.Failf("unexpected tuple field %q", f.Name)
						return
					}
					want := rc.remainderConfig(c.Stream[i])
					got := map[string]string{}
					for _, sf := range f.Sub {
						if rc.plainKeys[sf.Name] {
							v.Failf("projection %q: .config contains %q although it is projected individually (expressions %v)", exprText(e), sf.Name, c.Exprs)
							return
						}
						if val := k.Get(sf); val != "" {
							got[sf.Name] = val
						}
					}
					if canon(got) != canon(want) {
						v.Failf("projection %q result %d: .config fields {%s}, reference {%s}", exprText(e), i, canon(got), canon(want))
						return
					}
					continue
				}
				var want string
				switch f.Name {
				case ".fullname":
					want = rc.remainderName(c.Stream[i].Name)
				case ".unit":
					if len(c.Stream[i].Units) > 0 {
						want = c.Stream[i].Units[0]
					}
				default:
					want = rc.extract(c.Stream[i], f.Name)
				}
				if got := k.Get(f); got != want {
					v.Failf("projection %q result %d (%+v): field %s = %q, reference %q (expressions %v)", exprText(e), i, c.Stream[i], f.Name, got, want, c.Exprs)
					return
				}
			}
		}
		// ProjectValues: .unit varies, everything else as Project
		if ei == c.UnitExpr {
			for i, vk := range A.vkeys {
				for j, k := range vk {
					if got := k.Get(A.unitFld); got != c.Stream[i].Units[j] {
						v.Failf("ProjectValues: value %d of result %d has .unit %q, want %q", j, i, got, c.Stream[i].Units[j])
						return
					}
					for _, f := range p.FlattenedFields() {
						if f != A.unitFld && k.Get(f) != vk[0].Get(f) {
							v.Failf("ProjectValues: keys of one result differ in field %s", f.Name)
							return
						}
					}
					for j2, k2 := range vk {
						if (k == k2) != (c.Stream[i].Units[j] == c.Stream[i].Units[j2]) {
							v.Failf("ProjectValues: keys %d,%d of result %d equal=%v but units %q %q", j, j2, i, k == k2, c.Stream[i].Units[j], c.Stream[i].Units[j2])
							return
						}
					}
				}
			}
		}
		// NonSingularFields over all keys of this projection
		ns := benchproc.NonSingularFields(keys)
		gotNS := map[string]bool{}
		for _, f := range ns {
			gotNS[f.Name] = true
		}
		for _, f := range flatRef {
			differs := false
			for i := 1; i < len(keys); i++ {
				if keys[i].Get(f) != keys[0].Get(f) {
					differs = true
				}
			}
			if differs != gotNS[f.Name] {
				v.Failf("NonSingularFields: field %s differs=%v reported=%v", f.Name, differs, gotNS[f.Name])
				return
			}
		}
	}

	// identity across field growth: projecting an earlier result again gives the same key
	for _, idx := range c.Reproject {
		if idx < 0 || idx >= len(c.Stream) {
			continue
		}
		res := mkResult(c.Stream[idx])
		for ei, p := range A.projs {
			var k benchproc.Key
			if ei == c.UnitExpr {
				vk := p.ProjectValues(res)
				if len(vk) == 0 {
					continue
				}
				k = vk[0]
			} else {
				k = p.Project(res)
			}
			if k != A.keys[ei][idx] {
				v.Failf("projection %q: result %d projected again after %d more results gives a different key (%s vs %s)", exprText(c.Exprs[ei]), idx, len(c.Stream)-idx-1, k, A.keys[ei][idx])
				return
			}
		}
		if k := A.residue.Project(res); k != A.rkeys[idx] {
			v.Failf("residue: result %d projected again gives a different key", idx)
			return
		}
		v.Label("reprojected")
	}

	// (ii) parse order does not matter
	for ei := range c.Exprs {
		na, nb := flatNames(A.projs[ei]), flatNames(B.projs[ei])
		if fmt.Sprint(na) != fmt.Sprint(nb) {
			v.Failf("projection %q: fields %v when parsed in order %v but %v in order %v", exprText(c.Exprs[ei]), na, ident, nb, perm)
			return
		}
		for i := range c.Stream {
			if A.keys[ei][i].String() != B.keys[ei][i].String() {
				v.Failf("projection %q result %d: key %q in parse order %v but %q in order %v", exprText(c.Exprs[ei]), i, A.keys[ei][i], ident, B.keys[ei][i], perm)
				return
			}
		}
	}
	// (after an early Residue call the final residue holds what neither a projection nor the
	// earlier residue covers - "not yet projected by any projection parsed by p" -, which
	// depends on what had been parsed when the early question was asked)
	if !c.EarlyResidue && fmt.Sprint(flatNames(A.residue)) != fmt.Sprint(flatNames(B.residue)) {
		v.Failf("residue fields %v vs %v depending on parse order", flatNames(A.residue), flatNames(B.residue))
		return
	}
	// residue structure: exactly the groups not projected, without specific keys
	// (an early residue covers what had not been projected when it was taken: not checked here)
	resFields := A.residue.Fields()
	if c.EarlyResidue {
		resFields = nil
	}
	for _, f := range resFields {
		switch {
		case f.Name == ".config" && !hasConfig:
			for _, sf := range f.Sub {
				if rc.plainKeys[sf.Name] {
					v.Failf("residue .config contains individually projected key %q", sf.Name)
					return
				}
			}
		case f.Name == ".fullname" && !hasFull:
		default:
			v.Failf("residue has unexpected field %q (hasConfig=%v hasFullname=%v)", f.Name, hasConfig, hasFull)
			return
		}
	}
	for i, k := range A.rkeys {
		for _, f := range resFields {
			if f.Name == ".fullname" {
				if got, want := k.Get(f), rc.remainderName(c.Stream[i].Name); got != want {
					v.Failf("residue .fullname of %q = %q, reference %q (specific name keys %v)", c.Stream[i].Name, got, want, rc.nameKeys)
					return
				}
			}
		}
	}

	// (iii) nothing lost
	allDistinct := true
	for _, r := range c.Stream {
		if !distinctSubkeys(r.Name) {
			allDistinct = false
		}
	}
	// a key that is file configuration in one result and tool-supplied in another is
	// extracted alike by a specific projection but belongs to the file configuration only
	// in the former; the "nothing lost" equivalence is stated for file configuration
	overridden := false
	for _, r := range c.Stream {
		for _, cf := range r.Cfg {
			if !cf.File && !strings.HasPrefix(cf.K, ".") {
				overridden = true
			}
		}
	}
	if overridden {
		v.Label("file_key_overridden_by_tool")
	}
	if allDistinct && !overridden && !c.EarlyResidue {
		for i := range c.Stream {
			for j := i + 1; j < len(c.Stream); j++ {
				agree := A.rkeys[i] == A.rkeys[j]
				for ei := range c.Exprs {
					agree = agree && A.keys[ei][i] == A.keys[ei][j]
				}
				ti, tj := rc.total(c.Exprs, c.Stream[i]), rc.total(c.Exprs, c.Stream[j])
				unitsSame := true
				if c.UnitExpr >= 0 {
					ui, uj := "", ""
					if len(c.Stream[i].Units) > 0 {
						ui = c.Stream[i].Units[0]
					}
					if len(c.Stream[j].Units) > 0 {
						uj = c.Stream[j].Units[0]
					}
					unitsSame = ui == uj
				}
				if agree != (ti == tj && unitsSame) {
					v.Failf("results %d and %d: all keys (incl. residue) agree=%v, but file config + specific keys + remaining name equal=%v\n%s\n%s\nexpressions %v", i, j, agree, ti == tj, ti, tj, c.Exprs)
					return
				}
			}
		}
		v.Label("nothing_lost_checked")
	} else {
		v.Label("duplicate_subkeys(iff skipped)")
	}

	// non-triviality and labels
	grew := false
	seenCfg := map[string]bool{}
	for i, r := range c.Stream {
		for _, cf := range r.Cfg {
			if cf.File && !seenCfg[cf.K] {
				seenCfg[cf.K] = true
				if i > 0 {
					grew = true
				}
			}
		}
	}
	if grew {
		v.Label("field_growth")
	}
	if hasConfig {
		v.Label("has_.config")
	}
	if hasFull {
		v.Label("has_.fullname")
	}
	if c.UnitExpr >= 0 {
		v.Label("with_unit")
	}
	v.NonTrivial = len(distinctKeys) >= 3 && grew && len(c.Exprs) >= 2
	return
}

// ---------------------------------------------------------------------------

var specificKeys = []string{".name", "/size", "/kind", "/gomaxprocs", "/s", "/siz", "goos", "pkg", "commit", "note", ".file", "cpu/model", "città", "Å"}
var fileKeyPool = []string{"goos", "pkg", "commit", "note", "cpu", "extra", "cpu/model", "città", "Å", "ключ"}
var valPool = []string{"07", "7", "00", "0", "linux", "darwin", "1", "2", "abc", "x y", "é", "12", "21", "1", "2", "ab", "c"}

func genName(t *rapid.T, arbitrary bool) string {
	if arbitrary && vcase.OneIn(t, 6, "arbname") {
		return rapid.SampledFrom([]string{"A/size=1/size=2", "A/gomaxprocs=2-4", "A//", "A/=x", "A/size=", "-4", "A/size=1/x/size=3-2", "/kind=a", "", "Trim-", "Trim", "Join/sep=-", "Join/sep=", "Trim--8", "Trim-8"}).Draw(t, "weird")
	}
	n := rapid.SampledFrom([]string{"Foo", "Bar", "Baz/pos", "Merge-Sort", "Baz/type=big-endian", "X-1/pos"}).Draw(t, "base")
	if rapid.Bool().Draw(t, "hs") {
		n += "/size=" + rapid.SampledFrom([]string{"1", "2", "4k", "", "12", "21", "big-endian", "x=1", "y=1", "=", "a=b=1", "07", "7", "01"}).Draw(t, "size")
	}
	if rapid.Bool().Draw(t, "hk") {
		n += "/kind=" + rapid.SampledFrom([]string{"a", "b", "1", "2", "12"}).Draw(t, "kind")
	}
	if vcase.OneIn(t, 3, "lookalike") {
		// parts whose key merely starts with a projected key, and positional parts that look like one
		n += rapid.SampledFrom([]string{"/sizeclass=8", "/sizes", "/kinds=x", "/size", "/gomaxprocs2=1", "/kindred", "/sizeclass=9", "/s=1", "/s=2", "/siz=a", "/s=07"}).Draw(t, "look")
	}
	switch rapid.IntRange(0, 3).Draw(t, "gmp") {
	case 0:
		n += "-" + rapid.SampledFrom([]string{"1", "4", "8", "9", "96", "192", "0", "08", "00", "0822"}).Draw(t, "procs")
	case 1:
		if vcase.OneIn(t, 3, "explicitgmp") {
			n += "/gomaxprocs=" + rapid.SampledFrom([]string{"1", "4"}).Draw(t, "eprocs")
		}
	}
	return n
}

func Gen(t *rapid.T) Case {
	var c Case
	ne := rapid.IntRange(1, 4).Draw(t, "nexprs")
	usedGroup := map[string]bool{}
	for i := 0; i < ne; i++ {
		nf := rapid.IntRange(1, 3).Draw(t, "nfields")
		var e []FieldSpec
		used := map[string]bool{}
		for j := 0; j < nf; j++ {
			var k string
			switch rapid.IntRange(0, 5).Draw(t, "fkind") {
			case 0:
				k = ".config"
			case 1:
				k = ".fullname"
			default:
				k = rapid.SampledFrom(specificKeys).Draw(t, "sk")
			}
			if used[k] || ((k == ".config" || k == ".fullname") && usedGroup[k]) {
				continue
			}
			used[k] = true
			if k == ".config" || k == ".fullname" {
				usedGroup[k] = true
			}
			e = append(e, FieldSpec{Key: k, Order: rapid.SampledFrom([]string{"", "", "alpha", "num"}).Draw(t, "order")})
		}
		if len(e) == 0 {
			e = []FieldSpec{{Key: rapid.SampledFrom(specificKeys).Draw(t, "sk2")}}
		}
		c.Exprs = append(c.Exprs, e)
	}
	c.Perm = rapid.Permutation(func() []int {
		p := make([]int, len(c.Exprs))
		for i := range p {
			p[i] = i
		}
		return p
	}()).Draw(t, "perm")
	c.UnitExpr = -1
	if vcase.OneIn(t, 3, "unit") {
		c.UnitExpr = rapid.IntRange(0, len(c.Exprs)-1).Draw(t, "unitexpr")
	}
	ns := rapid.IntRange(2, 14).Draw(t, "nstream")
	if vcase.OneIn(t, 8, "long") {
		ns = rapid.IntRange(20, 50).Draw(t, "nstreamlong")
	}
	arbitrary := rapid.Bool().Draw(t, "arbnames")
	// the configuration evolves: keys appear, change, disappear
	cur := map[string]Cfg{}
	var order []string
	for i := 0; i < ns; i++ {
		nops := rapid.IntRange(0, 2).Draw(t, "ncfgops")
		for j := 0; j < nops; j++ {
			k := rapid.SampledFrom(fileKeyPool).Draw(t, "ck")
			switch rapid.IntRange(0, 4).Draw(t, "cop") {
			case 0:
				delete(cur, k)
			case 1:
				if vcase.OneIn(t, 4, "emptyval") {
					if _, ok := cur[k]; !ok {
						order = append(order, k)
					}
					cur[k] = Cfg{K: k, V: "", File: true} // empty value via struct literal
					break
				}
				fallthrough
			default:
				if _, ok := cur[k]; !ok {
					order = append(order, k)
				}
				cur[k] = Cfg{K: k, V: rapid.SampledFrom(valPool).Draw(t, "cv"), File: true}
			}
		}
		r := Res{Name: genName(t, arbitrary)}
		seen := map[string]bool{}
		for _, k := range order {
			if cf, ok := cur[k]; ok && !seen[k] {
				seen[k] = true
				r.Cfg = append(r.Cfg, cf)
			}
		}
		if vcase.OneIn(t, 10, "override") && len(r.Cfg) > 0 {
			// tooling overrides a key that the file had set (Result.SetConfig marks it internal):
			// it is then not file configuration any more
			i := rapid.IntRange(0, len(r.Cfg)-1).Draw(t, "ovidx")
			r.Cfg[i].File = false
			r.Cfg[i].V = rapid.SampledFrom(valPool).Draw(t, "ovval")
		}
		if rapid.Bool().Draw(t, "dotfile") {
			r.Cfg = append(r.Cfg, Cfg{K: ".file", V: rapid.SampledFrom([]string{"old.txt", "new.txt"}).Draw(t, "file"), File: false})
		}
		nu := rapid.IntRange(1, 3).Draw(t, "nunits")
		for j := 0; j < nu; j++ {
			r.Units = append(r.Units, rapid.SampledFrom([]string{"sec/op", "B/op", "allocs/op"}).Draw(t, "unit"))
		}
		c.Stream = append(c.Stream, r)
	}
	c.EarlyResidue = vcase.OneIn(t, 4, "earlyresidue")
	c.FailedConfig = vcase.OneIn(t, 5, "failedconfig")
	nr := rapid.IntRange(0, 3).Draw(t, "nreproj")
	for i := 0; i < nr; i++ {
		c.Reproject = append(c.Reproject, rapid.IntRange(0, len(c.Stream)-1).Draw(t, "reproj"))
	}
	return c
}

func TestC08Rapid(t *testing.T) { vcase.Run(t, "C08", "rapid", Gen, Check) }
