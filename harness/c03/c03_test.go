// Package c03: numbers are read as correctly rounded float64 values and exact
// integers. Oracle: the standard library's strconv.
package c03

import (
	"errors"
	"fmt"
	"math"
	"math/big"
	"regexp"
	"strconv"
	"strings"
	"testing"
	"unicode"
	"unicode/utf8"

	"golang.org/x/perf/benchfmt"
	"pgregory.net/rapid"
	"verif/harness/lib/refbench"
	"verif/harness/lib/vcase"
)

// Case is one numeric field text placed in a one-line input.
type Case struct {
	Txt   string // the field text; raw bytes (JSON escapes invalid UTF-8 lossy, so Hex is authoritative)
	Hex   string // hex of the bytes of Txt
	Where string // "value" or "iters"
	Gen   string // which generator produced it (label only)
	Unit  string // the unit written after the value ("" = "u"); always one that needs no rescaling
	Prior string // a unit read (by another reader) just before; "" = none. It rescales into Unit.
}

func (c Case) unit() string {
	if c.Unit == "" {
		return "u"
	}
	return c.Unit
}

// noRescale lists units that need no rescaling, each with a unit whose
// normalised form it is: reading the latter first is a history in which the
// process-wide unit cache already knows the former as somebody's base unit.
var noRescale = [][2]string{{"u", ""}, {"u", "ns"}, {"sec/op", "ns/op"}, {"B/s", "MB/s"}, {"sec/ns", "ns/ns"}, {"B/MB", "MB/MB"}, {"sec/MB", "ns/MB"}, {"B/ns", "MB/ns"}, {"B*sec/ns", "MB*ns/ns"}, {"widgets/MB", ""}, {"nsec", ""}}

func mk(txt, where, gen string) Case {
	return Case{Txt: txt, Hex: fmt.Sprintf("%x", txt), Where: where, Gen: gen}
}

func (c Case) text() string {
	var b []byte
	fmt.Sscanf(c.Hex, "%x", &b)
	if c.Hex == "" {
		return ""
	}
	return string(b)
}

// fieldOK: the text is a single non-empty field (no white space in the
// reader's sense: Unicode White_Space), no newline, and short enough for the
// scanner.
func fieldOK(s string) bool {
	if s == "" || len(s) > 20000 {
		return false
	}
	for _, r := range s {
		if unicode.IsSpace(r) {
			return false
		}
	}
	return true
}

type outcome struct {
	nres, nerr, nother int
	val                float64
	iters              int
	line               int
	errLine            int
	unit               string
	origUnit           string
}

func read(input string) (o outcome) {
	r := benchfmt.NewReader(strings.NewReader(input), "f")
	for r.Scan() {
		switch rec := r.Result().(type) {
		case *benchfmt.Result:
			o.nres++
			if len(rec.Values) > 0 {
				o.val = rec.Values[0].Value
				o.unit = rec.Values[0].Unit
				o.origUnit = rec.Values[0].OrigUnit
			}
			o.iters = rec.Iters
			_, o.line = rec.Pos()
		case *benchfmt.SyntaxError:
			o.nerr++
			_, o.errLine = rec.Pos()
		default:
			o.nother++
		}
	}
	if err := r.Err(); err != nil {
		o.nother += 100
	}
	return
}

func Check(c Case) (v vcase.Verdict) {
	txt := c.text()
	if !fieldOK(txt) {
		return // outside the domain (not a single field); generator avoids these
	}
	v.Label("gen=" + c.Gen)
	switch c.Where {
	case "value":
		want, err := strconv.ParseFloat(txt, 64)
		// The standard parser itself misplaces the decimal point when more than 800
		// significant digits precede it (Go 1.23 and 1.26: "1"+800 zeros+"e-800" parses
		// as 0.1). For long decimal texts the correctly rounded value therefore comes
		// from exact rational arithmetic; strconv still decides syntactic validity.
		if bw, bok, brange := bigOracle(txt); bok && (err == nil || errors.Is(err, strconv.ErrRange)) {
			v.Label("oracle=big.Rat")
			if brange {
				err = strconv.ErrRange
			} else {
				if err != nil || math.Float64bits(bw) != math.Float64bits(want) {
					v.Label("strconv_itself_wrong_here")
				}
				want, err = bw, nil
			}
		}
		unit := c.unit()
		if base, e10, _ := refbench.TidyUnit(unit); base != unit || e10 != 0 {
			v.Failf("VERIF-BROKEN: unit %q needs rescaling", unit)
			return
		}
		if c.Prior != "" {
			read("BenchmarkW 1 1 " + c.Prior + "\n")
			v.Label("prior_unit")
		}
		if unit != "u" {
			v.Label("unit_with_components")
		}
		o := read("BenchmarkX 1 " + txt + " " + unit + "\n")
		if err == nil {
			plain := len(txt) <= 15 && strings.Trim(txt, "0123456789") == ""
			v.NonTrivial = !plain
			if plain {
				v.Label("fast_path")
			} else {
				v.Label("accepted_slow")
			}
			if o.nres != 1 || o.nerr != 0 || o.nother != 0 {
				v.Failf("strconv accepts %q = %v but reader gave %d results, %d errors, %d other", txt, want, o.nres, o.nerr, o.nother)
				return
			}
			if math.Float64bits(o.val) != math.Float64bits(want) && !(math.IsNaN(want) && math.IsNaN(o.val)) {
				v.Failf("value %q: reader %v (%#x) != strconv %v (%#x)", txt, o.val, math.Float64bits(o.val), want, math.Float64bits(want))
			}
			if o.unit != unit || o.iters != 1 || o.line != 1 { // OrigUnit is C04's business
				v.Failf("value %q: unit %q orig %q iters %d line %d", txt, o.unit, o.origUnit, o.iters, o.line)
			}
		} else {
			if errors.Is(err, strconv.ErrRange) {
				v.NonTrivial = true
				v.Label("range_error")
			} else {
				v.Label("syntax_error")
			}
			if o.nres != 0 || o.nerr != 1 || o.nother != 0 || o.errLine != 1 {
				v.Failf("strconv rejects %q (%v) but reader gave %d results (value %v), %d errors (line %d), %d other", txt, err, o.nres, o.val, o.nerr, o.errLine, o.nother)
			}
		}
	case "iters":
		want, err := strconv.Atoi(txt)
		o := read("BenchmarkX " + txt + " 1 u\n")
		if err == nil {
			v.NonTrivial = len(txt) > 9 || strings.Trim(txt, "0123456789") != ""
			v.Label("iters_ok")
			if o.nres != 1 || o.nerr != 0 || o.nother != 0 {
				v.Failf("strconv.Atoi accepts %q = %d but reader gave %d results, %d errors", txt, want, o.nres, o.nerr)
				return
			}
			if o.iters != want {
				v.Failf("iters %q: reader %d != strconv %d", txt, o.iters, want)
			}
			if o.val != 1 || o.unit != "u" {
				v.Failf("iters %q: value/unit disturbed: %v %q", txt, o.val, o.unit)
			}
		} else {
			if errors.Is(err, strconv.ErrRange) {
				v.NonTrivial = true
				v.Label("iters_range_error")
			} else {
				v.Label("iters_syntax_error")
			}
			if o.nres != 0 || o.nerr != 1 || o.errLine != 1 {
				v.Failf("strconv.Atoi rejects %q (%v) but reader gave %d results (iters %d), %d errors", txt, err, o.nres, o.iters, o.nerr)
			}
		}
	default:
		v.Failf("bad case")
	}
	return
}

var longDecRe = regexp.MustCompile(`^[+-]?([0-9]*)\.?([0-9]*)(?:[eE]([+-]?[0-9]{1,5}))?$`)

// bigOracle returns the correctly rounded value of a plain decimal text with
// more than 700 digits, computed with big.Rat. rng reports overflow.
func bigOracle(txt string) (val float64, ok, rng bool) {
	// (strconv decides validity, including the placement of underscores; for the value they are ignored)
	txt = strings.ReplaceAll(txt, "_", "")
	m := longDecRe.FindStringSubmatch(txt)
	if m == nil || len(m[1])+len(m[2]) <= 700 || len(m[1])+len(m[2]) == 0 {
		return 0, false, false
	}
	if m[3] != "" {
		if e, err := strconv.Atoi(m[3]); err != nil || e > 3000 || e < -3000 {
			return 0, false, false
		}
	}
	r, good := new(big.Rat).SetString(txt)
	if !good {
		return 0, false, false
	}
	f, _ := r.Float64()
	if math.IsInf(f, 0) {
		return f, true, true
	}
	if f == 0 && strings.HasPrefix(txt, "-") {
		f = math.Copysign(0, -1)
	}
	return f, true, false
}

// ---------------------------------------------------------------------------
// generators

func digits(t *rapid.T, min, max int, label string) string {
	n := rapid.IntRange(min, max).Draw(t, label+"_n")
	if n == 0 {
		return ""
	}
	kind := rapid.IntRange(0, 5).Draw(t, label+"_kind")
	b := make([]byte, n)
	for i := range b {
		switch kind {
		case 0:
			b[i] = '0'
		case 1:
			b[i] = '9'
		case 2:
			if i == n-1 {
				b[i] = byte('0' + rapid.IntRange(0, 9).Draw(t, label+"_last"))
			} else {
				b[i] = '0'
			}
		default:
			b[i] = byte('0' + rapid.IntRange(0, 9).Draw(t, label+"_d"))
		}
	}
	return string(b)
}

func sign(t *rapid.T) string {
	return rapid.SampledFrom([]string{"", "", "", "-", "+"}).Draw(t, "sign")
}

func genGrammar(t *rapid.T) string {
	switch rapid.IntRange(0, 9).Draw(t, "form") {
	case 0, 1, 2, 3: // decimal
		maxd := rapid.SampledFrom([]int{3, 20, 25, 60, 400}).Draw(t, "maxd")
		s := sign(t) + digits(t, 0, maxd, "int")
		if rapid.Bool().Draw(t, "point") {
			s += "." + digits(t, 0, maxd, "frac")
		}
		if rapid.Bool().Draw(t, "exp") {
			s += rapid.SampledFrom([]string{"e", "E"}).Draw(t, "e") + rapid.SampledFrom([]string{"", "-", "+"}).Draw(t, "esign")
			if rapid.Bool().Draw(t, "expbig") {
				s += digits(t, 0, 6, "expd")
			} else {
				s += strconv.Itoa(rapid.IntRange(0, 400).Draw(t, "expv"))
			}
		}
		return s
	case 4, 5: // hex float
		s := sign(t) + rapid.SampledFrom([]string{"0x", "0X"}).Draw(t, "0x")
		hexd := func(label string, max int) string {
			n := rapid.IntRange(0, max).Draw(t, label)
			b := make([]byte, n)
			for i := range b {
				b[i] = "0123456789abcdefABCDEF"[rapid.IntRange(0, 21).Draw(t, "hd")]
			}
			return string(b)
		}
		s += hexd("hi", 20)
		if rapid.Bool().Draw(t, "hpoint") {
			s += "." + hexd("hf", 20)
		}
		if rapid.IntRange(0, 9).Draw(t, "hp") > 0 {
			s += rapid.SampledFrom([]string{"p", "P"}).Draw(t, "p") + rapid.SampledFrom([]string{"", "-", "+"}).Draw(t, "psign") +
				strconv.Itoa(rapid.IntRange(0, 1200).Draw(t, "pv"))
		}
		return s
	case 6: // underscores
		parts := rapid.SliceOfN(rapid.StringMatching(`[0-9]{1,4}`), 1, 4).Draw(t, "uparts")
		s := strings.Join(parts, "_")
		switch rapid.IntRange(0, 3).Draw(t, "uform") {
		case 0:
			return "0x" + s + "p0"
		case 1:
			return s + ".5"
		case 2:
			return "0x_" + s + "p-1_0"
		}
		return s
	case 7, 8: // inf / nan spellings
		w := rapid.SampledFrom([]string{"inf", "infinity", "nan", "infinit", "in", "na", "nano", "infinityx", "i", "n"}).Draw(t, "word")
		b := []byte(w)
		for i := range b {
			if rapid.Bool().Draw(t, "up") {
				b[i] = byte(unicode.ToUpper(rune(b[i])))
			}
		}
		return sign(t) + string(b)
	default: // short soup over the numeric alphabet
		return rapid.StringMatching(`[-+0-9.eExXpP_infaINFA]{1,12}`).Draw(t, "soup")
	}
}

// exactDecimal returns the exact decimal text of m * 2^e (m > 0), as
// "<digits>e<exp>" or plain digits.
func exactDecimal(m *big.Int, e int) (dig string, exp10 int) {
	x := new(big.Int).Set(m)
	if e >= 0 {
		x.Lsh(x, uint(e))
		return x.String(), 0
	}
	p5 := new(big.Int).Exp(big.NewInt(5), big.NewInt(int64(-e)), nil)
	x.Mul(x, p5)
	return x.String(), e
}

func placePoint(t *rapid.T, dig string, exp10 int) string {
	// dig × 10^exp10; optionally move the point inside the digits
	switch rapid.IntRange(0, 3).Draw(t, "pointform") {
	case 0:
		if exp10 == 0 {
			return dig
		}
		return dig + "e" + strconv.Itoa(exp10)
	case 1:
		k := rapid.IntRange(0, len(dig)).Draw(t, "pointpos")
		return dig[:k] + "." + dig[k:] + "e" + strconv.Itoa(exp10+len(dig)-k)
	case 2:
		return "0." + dig + "e" + strconv.Itoa(exp10+len(dig))
	default:
		// plain positional notation when not absurdly long
		if exp10 >= 0 && exp10 < 400 {
			return dig + strings.Repeat("0", exp10)
		}
		if exp10 < 0 && -exp10 < 1200 {
			if -exp10 >= len(dig) {
				return "0." + strings.Repeat("0", -exp10-len(dig)) + dig
			}
			k := len(dig) + exp10
			return dig[:k] + "." + dig[k:]
		}
		return dig + "e" + strconv.Itoa(exp10)
	}
}

func genFloatDerived(t *rapid.T) string {
	var f float64
	switch rapid.IntRange(0, 5).Draw(t, "fkind") {
	case 0:
		f = math.Float64frombits(rapid.Uint64().Draw(t, "bits"))
	case 1: // subnormal
		f = math.Float64frombits(rapid.Uint64Range(1, 1<<52-1).Draw(t, "sub"))
	case 2: // near normal/subnormal border
		f = math.Float64frombits(uint64(int64(1<<52) + int64(rapid.IntRange(-4, 4).Draw(t, "border"))))
	case 3: // near max
		f = math.Float64frombits(math.Float64bits(math.MaxFloat64) - uint64(rapid.IntRange(0, 4).Draw(t, "nearmax")))
	case 4: // powers of two (asymmetric neighbours)
		f = math.Ldexp(1, rapid.IntRange(-1074, 1023).Draw(t, "pow2"))
	default: // ordinary magnitudes
		f = math.Float64frombits(rapid.Uint64().Draw(t, "bits2"))
		f = math.Mod(f, 1e9)
	}
	if math.IsNaN(f) || math.IsInf(f, 0) {
		f = 1.5
	}
	neg := f < 0 || (f == 0 && math.Signbit(f))
	f = math.Abs(f)
	pre := ""
	if neg {
		pre = "-"
	}
	switch rapid.IntRange(0, 4).Draw(t, "fform") {
	case 0:
		return pre + strconv.FormatFloat(f, 'g', -1, 64)
	case 1:
		return pre + strconv.FormatFloat(f, 'e', rapid.IntRange(16, 60).Draw(t, "prec"), 64)
	case 2:
		return pre + strconv.FormatFloat(f, 'x', -1, 64)
	}
	// exact midpoint between f and its upper neighbour, and its immediate decimal neighbours
	bits := math.Float64bits(f)
	var m *big.Int
	var e int
	frac := bits & (1<<52 - 1)
	ex := int(bits >> 52 & 0x7ff)
	if ex == 0 {
		m = new(big.Int).SetUint64(frac)
		e = -1074
	} else {
		m = new(big.Int).SetUint64(frac | 1<<52)
		e = ex - 1075
	}
	// midpoint = (2m+1) * 2^(e-1)
	m.Lsh(m, 1)
	m.Add(m, big.NewInt(1))
	e--
	dig, exp10 := exactDecimal(m, e)
	switch rapid.IntRange(0, 4).Draw(t, "midvar") {
	case 0: // exact halfway
	case 1: // just above
		nz := rapid.IntRange(0, 30).Draw(t, "zeros")
		if vcase.OneIn(t, 4, "longtail") {
			// push the distinguishing digit beyond the 800 digits the slow path keeps
			nz = rapid.IntRange(30, 900).Draw(t, "zeroslong")
		}
		dig, exp10 = dig+strings.Repeat("0", nz)+"1", exp10-nz-1
	case 2: // just below: (dig*10 - 1)
		x, _ := new(big.Int).SetString(dig, 10)
		x.Mul(x, big.NewInt(10))
		x.Sub(x, big.NewInt(1))
		dig, exp10 = x.String(), exp10-1
	case 3: // truncated to k digits (below) — exercises the 19-digit truncation logic
		k := rapid.IntRange(15, 25).Draw(t, "trunc")
		if k < len(dig) {
			exp10 += len(dig) - k
			dig = dig[:k]
		}
	case 4: // truncated and last digit bumped
		k := rapid.IntRange(15, 25).Draw(t, "trunc2")
		if k < len(dig) {
			exp10 += len(dig) - k
			x, _ := new(big.Int).SetString(dig[:k], 10)
			x.Add(x, big.NewInt(1))
			dig = x.String()
		}
	}
	// fix "just above" exponent: appended zeros+1 means k extra digits
	if strings.HasSuffix(dig, "1") && exp10 != 0 {
		// recompute exponent exactly: value = mid + tiny; digits after the original length shift exp
	}
	return pre + placePoint(t, dig, exp10)
}

// genHexBoundary builds hexadecimal texts on and next to rounding boundaries:
// the 53-bit mantissa of a float followed by the halfway digit 8 and a tail of
// further digits (zeros, decimal digits or letters), also around the
// subnormal/normal border and the overflow threshold.
func genHexBoundary(t *rapid.T) string {
	var mant uint64 // 53-bit significand with the leading 1 (or less for subnormals)
	exp := 0        // binary exponent of the leading digit
	switch rapid.IntRange(0, 4).Draw(t, "hbkind") {
	case 0:
		mant = 1<<52 | rapid.Uint64Range(0, 1<<52-1).Draw(t, "hbmant")
		exp = rapid.IntRange(-1022, 1023).Draw(t, "hbexp")
	case 1: // all ones: rounding carries into the next binade
		mant = 1<<53 - 1 - uint64(rapid.IntRange(0, 2).Draw(t, "hbones"))
		exp = rapid.SampledFrom([]int{-1023, -1022, -1, 0, 1022, 1023}).Draw(t, "hbexp1")
	case 2: // subnormal range: fewer significant bits
		mant = rapid.Uint64Range(1, 1<<52-1).Draw(t, "hbsub")
		exp = -1022
	case 3: // the largest subnormals / smallest normals
		mant = 1<<52 - 1 - uint64(rapid.IntRange(0, 3).Draw(t, "hbtop"))
		exp = -1022
	default:
		mant = 1 << 52
		exp = rapid.SampledFrom([]int{-1075, -1074, -1073, -1023, -1022, 1023, 1024}).Draw(t, "hbexp2")
	}
	// print as 0x1.<13 hex digits><tail>p<exp> (for case 2/3 the leading digit is 0)
	lead := mant >> 52
	frac := mant & (1<<52 - 1)
	tail := ""
	switch rapid.IntRange(0, 5).Draw(t, "hbtail") {
	case 0:
	case 1:
		tail = "8"
	case 2:
		tail = "8" + strings.Repeat("0", rapid.IntRange(0, 12).Draw(t, "hbz")) + rapid.SampledFrom([]string{"1", "a", "f", "A", "9", "c"}).Draw(t, "hblast")
	case 3:
		tail = "7" + strings.Repeat("f", rapid.IntRange(0, 12).Draw(t, "hbf"))
	case 4:
		tail = "8" + strings.Repeat("0", rapid.IntRange(1, 12).Draw(t, "hbz2"))
	default:
		tail = rapid.StringMatching(`[0-9a-fA-F]{1,10}`).Draw(t, "hbrnd")
	}
	pre := rapid.SampledFrom([]string{"0x", "0X", "-0x", "+0x"}).Draw(t, "hbpre")
	return fmt.Sprintf("%s%x.%013x%sp%d", pre, lead, frac, tail, exp)
}

// genPow5 builds decimal texts whose digits sit next to a power of five (the
// cut-offs of shift-based decimal conversion), with small or negative exponents.
func genPow5(t *rapid.T) string {
	k := rapid.IntRange(1, 60).Draw(t, "p5k")
	x := new(big.Int).Exp(big.NewInt(5), big.NewInt(int64(k)), nil)
	switch rapid.IntRange(0, 3).Draw(t, "p5var") {
	case 1:
		x.Add(x, big.NewInt(int64(rapid.IntRange(-3, 3).Draw(t, "p5d"))))
	case 2: // perturb a digit in the second half
		ds := []byte(x.String())
		i := len(ds)/2 + rapid.IntRange(0, len(ds)-len(ds)/2-1).Draw(t, "p5i")
		ds[i] = byte('0' + rapid.IntRange(0, 9).Draw(t, "p5c"))
		x.SetString(string(ds), 10)
	case 3: // truncated to a shorter digit string
		ds := x.String()
		n := rapid.IntRange(1, len(ds)).Draw(t, "p5n")
		x.SetString(ds[:n], 10)
	}
	dig := x.String()
	exp := rapid.IntRange(-60, 30).Draw(t, "p5e") - len(dig)
	return sign(t) + placePoint(t, dig, exp)
}

func genEdges(t *rapid.T) string {
	base := rapid.SampledFrom([]string{
		"1.797693134862315708145274237317043567981e308", // MaxFloat64
		"1.797693134862315807e308",                      // overflow midpoint region
		"1.7976931348623158e308", "1.7976931348623159e308", "1.797693134862315808e308",
		"179769313486231580793728971405303415079934132710037826936173778980444968292764750946649017977587207096330286416692887910946555547851940402630657488671505820681908902000708383676273854845817711531764475730270069855571366959622842914819860834936475292719074168444365510704342711559699508093042880177904174497791.9999999999",
		"179769313486231580793728971405303415079934132710037826936173778980444968292764750946649017977587207096330286416692887910946555547851940402630657488671505820681908902000708383676273854845817711531764475730270069855571366959622842914819860834936475292719074168444365510704342711559699508093042880177904174497792",
		"4.9406564584124654e-324", "2.4703282292062327e-324", "2.4703282292062328e-324", "2.47032822920623272e-324",
		"2.2250738585072014e-308", "2.2250738585072011e-308", "2.225073858507201136057409796709131975934819546351645648023426109724822222021076945516529523908135087914149158913039621106870086438694594645527657207407820621743379988141063267329253552286881372149012981122451451889849057222307285255133155755015914397476397983411801999323962548289017107081850690630666655994938275772572015763062690663332647565300009245888316433037779791869612049497390377829704905051080609940730262937128958950003583799967207254304360284078895771796150945516748243471030702609144621572289880258182545180325707018860872113128079512233426288368622321503775666622503982534335974568884423900265498198385487948292206894721689831099698365846814022854243330660339850886445804001034933970427567186443383770486037861622771738545623065874679014086723327636718749999999999999999999999999999999999999999999999999999999999999999999999999999999999999999999999999999999999999999999999999999999999999999999999999999999999999999999999999999e-308",
		"1e308", "1e309", "1e-323", "1e-324", "1e-325", "0e999999", "0.0e-999999", "1e999999", "1e-999999",
		"9007199254740993", "9007199254740992.5", "9007199254740991", "9223372036854775807", "9223372036854775808",
		"18446744073709551615", "18446744073709551616", "922337203685477580", "922337203685477579", "922337203685477581",
		"9223372036854775799", "9223372036854775800", "0x1p-1074", "0x1p-1075", "0x1.fffffffffffffp1023", "0x1.fffffffffffff8p1023", "0x1p1024",
		"0x1.00000000000008p0", "0x1.000000000000080000000001p0", "0x.8p1", "0x1p", "0x", "0x1", "1e", "e1", ".", "-.", "+.e1", ".5", "5.", "-0", "+0", "-0.0e-5",
	}).Draw(t, "edge")
	return sign(t) + base
}

func genIntegers(t *rapid.T) string {
	var s string
	switch rapid.IntRange(0, 4).Draw(t, "ikind") {
	case 0:
		s = digits(t, 1, 25, "i")
	case 1:
		anchor := rapid.SampledFrom([]string{"9007199254740992", "9223372036854775807", "18446744073709551615", "922337203685477580", "2147483647", "4294967295", "999999999999999999", "9999999999999999999"}).Draw(t, "anchor")
		x, _ := new(big.Int).SetString(anchor, 10)
		x.Add(x, big.NewInt(int64(rapid.IntRange(-12, 12).Draw(t, "delta"))))
		s = x.String()
	case 2:
		s = strings.Repeat("0", rapid.IntRange(1, 30).Draw(t, "lead")) + digits(t, 1, 20, "i2")
	case 3:
		s = strconv.FormatInt(rapid.Int64().Draw(t, "i64"), 10)
		return s
	default:
		s = strconv.FormatUint(rapid.Uint64().Draw(t, "u64"), 10)
	}
	return sign(t) + s
}

func mutate(t *rapid.T, s string) string {
	if s == "" {
		return s
	}
	b := []byte(s)
	i := rapid.IntRange(0, len(b)-1).Draw(t, "mutpos")
	switch rapid.IntRange(0, 4).Draw(t, "mutkind") {
	case 0: // delete
		b = append(b[:i], b[i+1:]...)
	case 1: // duplicate
		b = append(b[:i+1], b[i:]...)
	case 2: // replace with numeric-alphabet char
		b[i] = "0123456789.eE+-xXpP_infa"[rapid.IntRange(0, 23).Draw(t, "mutc")]
	case 3: // replace with arbitrary non-space byte
		c := rapid.Byte().Draw(t, "mutb")
		b[i] = c
	case 4: // swap with neighbour
		if i+1 < len(b) {
			b[i], b[i+1] = b[i+1], b[i]
		}
	}
	return string(b)
}

func Gen(t *rapid.T) Case {
	where := "value"
	var txt, gen string
	switch rapid.IntRange(0, 11).Draw(t, "gen") {
	case 10:
		txt, gen = genHexBoundary(t), "hexboundary"
	case 11:
		txt, gen = genPow5(t), "pow5"
	case 0, 1, 2:
		txt, gen = genGrammar(t), "grammar"
	case 3, 4, 5:
		txt, gen = genFloatDerived(t), "float"
	case 6:
		txt, gen = genEdges(t), "edges"
	case 7:
		txt, gen = genIntegers(t), "int"
	default:
		txt, gen = genIntegers(t), "int"
		where = "iters"
	}
	if where == "value" && rapid.IntRange(0, 9).Draw(t, "iterspos") == 0 {
		where = "iters"
	}
	if rapid.IntRange(0, 5).Draw(t, "mutate") == 0 {
		txt = mutate(t, txt)
		gen += "+mut"
	}
	if !fieldOK(txt) || (!utf8.ValidString(txt) && hasSpaceBytes(txt)) {
		txt = "1" // keep the case inside the domain by construction
		gen = "fallback"
	}
	c := mk(txt, where, gen)
	if where == "value" && rapid.IntRange(0, 3).Draw(t, "unitkind") == 0 {
		pr := rapid.SampledFrom(noRescale).Draw(t, "unit")
		c.Unit = pr[0]
		if rapid.Bool().Draw(t, "prior") {
			c.Prior = pr[1]
		}
	}
	return c
}

func hasSpaceBytes(s string) bool {
	for i := 0; i < len(s); i++ {
		switch s[i] {
		case ' ', '\t', '\n', '\v', '\f', '\r':
			return true
		}
	}
	return false
}

func TestC03Rapid(t *testing.T) {
	vcase.Run(t, "C03", "rapid", Gen, Check)
}

// TestC03Fixed enumerates a fixed list of hostile constants in both positions.
func TestC03Fixed(t *testing.T) {
	vcase.Enum(t, "C03", "fixed", true, func(yield func(Case) bool) {
		for _, s := range fixedTexts() {
			for _, sg := range []string{"", "-", "+"} {
				for _, where := range []string{"value", "iters"} {
					if !fieldOK(sg + s) {
						continue
					}
					if !yield(mk(sg+s, where, "fixed")) {
						return
					}
				}
			}
		}
	}, Check)
}

func fixedTexts() []string {
	out := []string{"0", "1", "00", "007", "1.0", "1e0", "1E+2", "1e-2", "inf", "Inf", "INF", "infinity", "Infinity", "iNfInItY", "nan", "NaN", "NAN",
		"infx", "nanx", "infinit", "0x10", "0x1p4", "0X1P-2", "0x1.8p1", "0x_1p0", "0x1_0p0", "1_0", "1__0", "_1", "1_", "0b101", "0o17", "017", "1e", "1e+", "e", ".", "..", "1.2.3",
		"1e400", "1e-400", "123456789012345678901234567890", "0.000000000000000000000000000000000000001", "9223372036854775807", "9223372036854775808", "-9223372036854775808", "-9223372036854775809",
		"922337203685477580", "922337203685477581", "9223372036854775800", "18446744073709551616", "1.7976931348623157e308", "1.7976931348623159e308", "4.9e-324", "2.4e-324", "2.5e-324",
		"\xff", "1\xff", "1\x00", "١٢٣", "1²", "½", "0x", "0x.p1", "0x1p", "0x1p-", "+-1", "--1", "++1", "1-", "1+",
		"9007199254740993", "9007199254740992", "9007199254740994", "72057594037927945", "1.00000000000000011102230246251565404236316680908203125", "1.00000000000000011102230246251565404236316680908203124", "1.00000000000000011102230246251565404236316680908203126",
		// underscores: long counts (beyond the integer parser's fast path) and every position around
		// the parts of a float
		"1_000_000_000_000_000_000", "9_223_372_036_854_775_807", "1_0_0_0_0_0_0_0_0_0_0_0_0", "0000000000000000000_1", "1_e5", "1_E5", "1.5_e3", "12_e-1", "1e_5", "1e5_", "1_.5", "1._5", "0x1_p3", "0x1p_3", "1_000.5", "1e1_0",
	}
	for n := 1; n <= 40; n++ {
		out = append(out, strings.Repeat("9", n), "1"+strings.Repeat("0", n), strings.Repeat("9", n)+".5", "0."+strings.Repeat("0", n)+"1")
	}
	// more than 800 significant digits before the decimal point (the slow path keeps 800)
	for _, n := range []int{799, 800, 801, 805, 900} {
		out = append(out, "1"+strings.Repeat("0", n)+"e-"+strconv.Itoa(n), strings.Repeat("9", n)+"e-"+strconv.Itoa(n), "1"+strings.Repeat("0", n)+".5e-"+strconv.Itoa(n),
			"1"+strings.Repeat("0", 400)+"."+strings.Repeat("0", n-400)+"1e-400", "0."+strings.Repeat("0", 50)+"1"+strings.Repeat("0", n)+"1e51")
	}
	// digit strings around every power of five up to 5^60, as d.ddd × 10^e for small e
	for k := 1; k <= 60; k++ {
		x := new(big.Int).Exp(big.NewInt(5), big.NewInt(int64(k)), nil)
		for _, d := range []int64{-1, 0, 1} {
			ds := new(big.Int).Add(x, big.NewInt(d)).String()
			for _, e := range []int{-30, -10, -9, 0, 5} {
				out = append(out, ds[:1]+"."+ds[1:]+"0e"+strconv.Itoa(e))
			}
		}
		// a digit string half-way between a mis-typed and the true table entry
		ds := x.String()
		if len(ds) > 14 {
			out = append(out, ds[:1]+"."+ds[1:13]+"5e-10", ds[:1]+"."+ds[1:12]+"5e-10", ds[:1]+"."+ds[1:14]+"e-10")
		}
	}
	for e := -345; e <= 310; e += 1 {
		out = append(out, "1e"+strconv.Itoa(e), "9.999999999999999999e"+strconv.Itoa(e), "2.2250738585072014e"+strconv.Itoa(e))
	}
	return out
}
