package c03

import "testing"

// FuzzC03 (thorough tier): coverage-guided search over field texts with the
// strconv differential inside the target.
func FuzzC03(f *testing.F) {
	for _, s := range fixedTexts() {
		f.Add([]byte(s), false)
	}
	f.Add([]byte("1.7976931348623158e308"), false)
	f.Add([]byte("9223372036854775808"), true)
	f.Fuzz(func(t *testing.T, data []byte, iters bool) {
		where := "value"
		if iters {
			where = "iters"
		}
		c := mk(string(data), where, "fuzz")
		if !fieldOK(c.text()) {
			return
		}
		if v := Check(c); v.Violation != "" {
			t.Fatalf("VERIF-VIOLATION C03: %s", v.Violation)
		}
	})
}
