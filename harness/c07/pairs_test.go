package c07

// Unit "pairs": two terms of one filter whose key and value texts coincide when
// glued together ("a:b":c and a:"b:c"), or which name the same text once as a
// literal and once as a regular expression. Each term denotes exactly its own
// key, its own value and its own kind, whatever else the expression contains.

import (
	"fmt"
	"regexp"
	"strconv"
	"testing"

	"golang.org/x/perf/benchfmt"
	"golang.org/x/perf/benchproc"
	"verif/harness/lib/vcase"
)

type PTerm struct {
	K, V string
	Re   bool
}

type PairCase struct {
	T1, T2 PTerm
	Form   int // 0: T1 OR T2, 1: T2 OR T1, 2: T1 AND T2, 3: (T1 zz:zz) OR T2, 4: -T1 T2, 5: T1 OR -T2
}

func (t PTerm) text() string {
	if t.Re {
		return strconv.Quote(t.K) + ":/" + t.V + "/"
	}
	return strconv.Quote(t.K) + ":" + strconv.Quote(t.V)
}

func (t PTerm) eval(cfg map[string]string) bool {
	if t.Re {
		return regexp.MustCompile(t.V).MatchString(cfg[t.K])
	}
	return cfg[t.K] == t.V
}

func CheckPair(c PairCase) (v vcase.Verdict) {
	a, b := c.T1.text(), c.T2.text()
	var text string
	var want func(x, y bool) bool
	switch c.Form {
	case 0:
		text, want = a+" OR "+b, func(x, y bool) bool { return x || y }
	case 1:
		text, want = b+" OR "+a, func(x, y bool) bool { return x || y }
	case 2:
		text, want = a+" AND "+b, func(x, y bool) bool { return x && y }
	case 3:
		text, want = "("+a+" zz:zz) OR "+b, func(x, y bool) bool { return y } // zz is never set
	case 4:
		text, want = "-"+a+" "+b, func(x, y bool) bool { return !x && y }
	default:
		text, want = a+" OR -"+b, func(x, y bool) bool { return x || !y }
	}
	v.NonTrivial = true
	v.Label(fmt.Sprintf("form=%d", c.Form))
	f, err := benchproc.NewFilter(text)
	if err != nil {
		v.Failf("NewFilter(%s): %v", text, err)
		return
	}
	vals := func(t PTerm) []string { return []string{t.V, "x" + t.V + "x", "zz", ""} }
	for _, v1 := range vals(c.T1) {
		for _, v2 := range vals(c.T2) {
			cfg := map[string]string{}
			if v1 != "" {
				cfg[c.T1.K] = v1
			}
			if v2 != "" {
				cfg[c.T2.K] = v2 // (same key as T1: the later value stands)
			}
			res := &benchfmt.Result{Name: benchfmt.Name("N"), Iters: 1, Values: []benchfmt.Value{{Value: 1, Unit: "u"}}}
			for k, val := range cfg {
				res.Config = append(res.Config, benchfmt.Config{Key: k, Value: []byte(val), File: true})
			}
			w := want(c.T1.eval(cfg), c.T2.eval(cfg))
			m, _ := f.Match(res)
			v.Sub++
			if m.All() != w {
				v.Failf("filter %s on configuration %v: matched=%v, want %v (first term %v, second term %v)", text, cfg, m.All(), w, c.T1.eval(cfg), c.T2.eval(cfg))
				return
			}
		}
	}
	return
}

func TestC07Pairs(t *testing.T) {
	pairs := [][2]PTerm{
		{{"pkg", "ab", true}, {"pkg", "ab", false}},
		{{"a:b", "c", false}, {"a", "b:c", false}},
		{{"k", "x y", false}, {"k", "x y", true}},
		{{"k", "^a", false}, {"k", "^a", true}},
		{{"k", "v", false}, {"k", "v", false}},
		{{"k:", "v", false}, {"k", ":v", false}},
		{{"k", "a|b", true}, {"k", "a|b", false}},
		{{"goos", "linux", false}, {"goos", "linux", true}},
		{{"a b", "c", false}, {"a", "b c", false}},
		{{"k", "", true}, {"k", "zz", false}},
	}
	vcase.Enum(t, "C07", "pairs", true, func(yield func(PairCase) bool) {
		for _, p := range pairs {
			for form := 0; form < 6; form++ {
				if !yield(PairCase{p[0], p[1], form}) || !yield(PairCase{p[1], p[0], form}) {
					return
				}
			}
		}
	}, CheckPair)
}
