package c07

import "testing"

// FuzzC07 (thorough tier): any text offered to either parser parses or fails
// with a positioned syntax error (no panic, no hang); any byte string is
// expressible as a quoted word.
func FuzzC07(f *testing.F) {
	for _, s := range validFilters {
		f.Add([]byte(s))
	}
	for _, s := range validProjections {
		f.Add([]byte(s))
	}
	for _, s := range []string{`a:"\\"`, `"a\"`, `a:/(/`, `a:/[/]/`, `a@(`, `-`, `(((((`, `a:(b OR`, "a:\xff", `"\xff":b`, `k@num@alpha`} {
		f.Add([]byte(s))
	}
	f.Fuzz(func(t *testing.T, data []byte) {
		if len(data) > 4096 {
			return
		}
		s := string(data)
		for _, kind := range []string{"filter", "projection"} {
			if v := CheckText(TextCase{Hex: hexOf(s), Text: s, Kind: kind}); v.Violation != "" {
				t.Fatalf("VERIF-VIOLATION C07: %s", v.Violation)
			}
		}
		if len(s) <= 64 {
			for _, form := range []string{"quote", "x", "bare"} {
				if v := CheckWord(mkWord(s, form)); v.Violation != "" {
					t.Fatalf("VERIF-VIOLATION C07: %s", v.Violation)
				}
			}
		}
	})
}

func hexOf(s string) string { return mkWord(s, "").Hex }
