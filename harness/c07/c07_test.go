// Package c07: any string is expressible in expression syntax; bad
// expressions fail cleanly.
package c07

import (
	"fmt"
	"reflect"
	"strconv"
	"strings"
	"testing"
	"time"
	"unicode"
	"unicode/utf8"

	"golang.org/x/perf/benchfmt"
	"golang.org/x/perf/benchproc"
	"pgregory.net/rapid"
	"verif/harness/lib/refexpr"
	"verif/harness/lib/vcase"
)

// ---------------------------------------------------------------------------
// (1) expressibility

type WordCase struct {
	Hex  string // the string s (hex of its bytes)
	S    string // same, for the human reader (lossy for invalid UTF-8)
	Form string // "quote" (strconv.Quote), "x" (every byte as \xNN), "mixed" (octal / \u escapes where possible), "bare"
}

func (c WordCase) s() string {
	if c.Hex == "" {
		return ""
	}
	var b []byte
	fmt.Sscanf(c.Hex, "%x", &b)
	return string(b)
}

func mkWord(s, form string) WordCase { return WordCase{Hex: fmt.Sprintf("%x", s), S: s, Form: form} }

func render(s, form string) (string, bool) {
	switch form {
	case "quote":
		return strconv.Quote(s), true
	case "x":
		var sb strings.Builder
		sb.WriteByte('"')
		for i := 0; i < len(s); i++ {
			fmt.Fprintf(&sb, `\x%02x`, s[i])
		}
		sb.WriteByte('"')
		return sb.String(), true
	case "mixed":
		var sb strings.Builder
		sb.WriteByte('"')
		for i := 0; i < len(s); {
			r, n := utf8.DecodeRuneInString(s[i:])
			switch {
			case r == utf8.RuneError && n == 1:
				fmt.Fprintf(&sb, `\%03o`, s[i])
			case r >= 0x80 && r <= 0xffff:
				fmt.Fprintf(&sb, `\u%04x`, r)
			case r > 0xffff:
				fmt.Fprintf(&sb, `\U%08x`, r)
			case r == '"':
				sb.WriteString(`\"`)
			case r == '\\':
				sb.WriteString(`\\`)
			case r < 0x20 || r == 0x7f:
				fmt.Fprintf(&sb, `\%03o`, r)
			default:
				sb.WriteRune(r)
			}
			i += n
		}
		sb.WriteByte('"')
		return sb.String(), true
	case "bare":
		return s, true
	}
	return "", false
}

// streamable reports whether s can be written as a configuration value in a benchmark file and
// read back unchanged (printable, no surrounding blanks).
func streamable(s string) bool {
	if s == "" || !utf8.ValidString(s) || strings.TrimSpace(s) != s {
		return false
	}
	for _, r := range s {
		if r < 0x20 || r == 0x7f || (r >= 0x80 && unicode.IsSpace(r)) || r == 0x85 {
			return false
		}
	}
	return true
}

func specials(s string) bool {
	return strings.ContainsAny(s, "\"\\ ():@,-*/\t\n") || !utf8.ValidString(s) || s == ""
}

func CheckWord(c WordCase) (v vcase.Verdict) {
	s := c.s()
	v.NonTrivial = specials(s)
	v.Label("form=" + c.Form)
	if strings.HasSuffix(s, `\`) {
		v.Label("ends_in_backslash")
	}
	if !utf8.ValidString(s) {
		v.Label("non_utf8")
	}
	valueOK, keyOK, listOK := true, s != "", s != ""
	if c.Form == "bare" {
		valueOK = refexpr.BareOK(s, true)
		keyOK = refexpr.BareOK(s, false)
		listOK = keyOK // in a fixed list "key@(word ...)" a leading '/' is just part of the word
		if !valueOK && !keyOK {
			return
		}
	}
	w, ok := render(s, c.Form)
	if !ok {
		return
	}
	if c.Form != "bare" {
		if u, err := strconv.Unquote(w); err != nil || u != s {
			v.Failf("VERIF: rendering %q does not unquote to the string (%v)", w, err)
			return
		}
	}

	// --- as a value
	if valueOK {
		// plain config key
		res := &benchfmt.Result{Name: benchfmt.Name("N"), Iters: 1, Values: []benchfmt.Value{{Value: 1, Unit: "u"}}}
		if s != "" {
			res.Config = []benchfmt.Config{{Key: "k", Value: []byte(s), File: true}}
		}
		other := &benchfmt.Result{Name: benchfmt.Name("N"), Iters: 1, Values: []benchfmt.Value{{Value: 1, Unit: "u"}},
			Config: []benchfmt.Config{{Key: "k", Value: []byte(s + "x"), File: true}}}
		f, err := benchproc.NewFilter("k:" + w)
		if err != nil {
			v.Failf("NewFilter(%q) fails although the value is a well-formed word for %q: %v", "k:"+w, s, err)
			return
		}
		if m, _ := f.Match(res); !m.All() {
			v.Failf("filter %q does not match a result whose k is %q", "k:"+w, s)
			return
		}
		if m, _ := f.Match(other); m.Any() {
			v.Failf("filter %q matches a result whose k is %q", "k:"+w, s+"x")
			return
		}
		// value list form and fixed-list projection
		f2, err := benchproc.NewFilter("k:(" + w + " OR zzz)")
		if err != nil {
			v.Failf("NewFilter(%q): %v", "k:("+w+" OR zzz)", err)
			return
		}
		if m, _ := f2.Match(res); !m.All() {
			v.Failf("filter %q does not match a result whose k is %q", "k:("+w+" OR zzz)", s)
			return
		}
	}

	// --- the empty word as a unit: no measurement is in the unit "" (a measurement that needed no
	// normalisation has no *other* name, which is not the same as having the name "")
	if s == "" {
		res := &benchfmt.Result{Name: benchfmt.Name("N"), Iters: 1, Values: []benchfmt.Value{{Value: 1, Unit: "u"}, {Value: 2e-9, Unit: "sec/op", OrigValue: 2, OrigUnit: "ns/op"}}}
		for _, q := range []string{".unit:" + w, ".unit:(" + w + " OR zz)", ".unit:/^$/"} {
			f, err := benchproc.NewFilter(q)
			if err != nil {
				v.Failf("NewFilter(%q): %v", q, err)
				return
			}
			if m, _ := f.Match(res); m.Any() {
				v.Failf("filter %q matches a measurement of a result whose units are u and sec/op (written ns/op)", q)
				return
			}
		}
	}

	// --- in a fixed value list of a projection
	if listOK {
		res := &benchfmt.Result{Name: benchfmt.Name("N"), Iters: 1, Values: []benchfmt.Value{{Value: 1, Unit: "u"}},
			Config: []benchfmt.Config{{Key: "k", Value: []byte(s), File: true}}}
		other := &benchfmt.Result{Name: benchfmt.Name("N"), Iters: 1, Values: []benchfmt.Value{{Value: 1, Unit: "u"}},
			Config: []benchfmt.Config{{Key: "k", Value: []byte(s + "x"), File: true}}}
		if s != "" {
			var pp benchproc.ProjectionParser
			ff, _ := benchproc.NewFilter("*")
			proj, err := pp.Parse("k@("+w+")", ff)
			if err != nil {
				v.Failf("Parse(%q): %v", "k@("+w+")", err)
				return
			}
			if ok, _ := ff.Apply(res.Clone()); !ok {
				v.Failf("projection %q filtered out the result whose k is %q", "k@("+w+")", s)
				return
			}
			if ok, _ := ff.Apply(other.Clone()); ok {
				v.Failf("projection %q kept a result whose k is %q", "k@("+w+")", s+"x")
				return
			}
			if got := proj.Project(res).Get(proj.Fields()[0]); got != s {
				v.Failf("projection k extracted %q, want %q", got, s)
				return
			}
			// the same list applied to a stream from one Reader (which recycles its result and
			// value buffers) in which k alternates between the word and a same-length neighbour
			if streamable(s) {
				alt := s[:len(s)-1] + string(rune(s[len(s)-1])^1)
				if !streamable(alt) || alt == s {
					alt = ""
				}
				if alt != "" {
					var sb strings.Builder
					want := []bool{true, false, true, false, false, true}
					for _, w := range want {
						val := alt
						if w {
							val = s
						}
						sb.WriteString("k: " + val + "\nBenchmarkN 1 1 u\n")
					}
					lit, _ := benchproc.NewFilter("k:" + strconv.Quote(s))
					rd := benchfmt.NewReader(strings.NewReader(sb.String()), "stream")
					i := 0
					for rd.Scan() {
						r, ok := rd.Result().(*benchfmt.Result)
						if !ok {
							continue
						}
						if i >= len(want) {
							break
						}
						if got := string(r.GetConfig("k")); got != map[bool]string{true: s, false: alt}[want[i]] {
							break // the value does not survive the file format unchanged: not this check's subject
						}
						m1, _ := ff.Match(r)
						m2, _ := lit.Match(r)
						if m1.All() != want[i] || m2.All() != want[i] {
							v.Failf("stream of results from one Reader, k alternating between %q and %q: result %d (k=%q): fixed list %q keeps=%v, filter k:%s keeps=%v, want %v", s, alt, i, r.GetConfig("k"), "k@("+w+")", m1.All(), strconv.Quote(s), m2.All(), want[i])
							return
						}
						i++
					}
					if i == len(want) {
						v.Label("fixed_list_over_reader_stream")
					}
				}
			}
		}
	}

	// --- the filter-only key .unit, spelt in any form, is rejected as a projection key (an error, not a panic)
	if s == ".unit" {
		var pp benchproc.ProjectionParser
		for _, e := range []string{w, "k," + w, w + "@alpha", w + "@(a b)"} {
			if _, err := pp.Parse(e, nil); err == nil {
				v.Failf("Parse(%q) accepted .unit as a projection key", e)
				return
			}
		}
		v.Label("unit_as_projection_key_rejected")
	}

	// --- as a key
	if keyOK && s != ".config" && s != ".unit" {
		res := &benchfmt.Result{Name: benchfmt.Name("N"), Iters: 1, Values: []benchfmt.Value{{Value: 1, Unit: "u"}}}
		want := ""
		switch {
		case s == ".name", s == ".fullname":
			want = "N"
		case strings.HasPrefix(s, "/"):
			// a sub-name key: put it into the name when it can be part of one
			// (no white space; no '/' inside the key: the name would split there)
			k := s[1:]
			if k != "" && !strings.ContainsAny(k, "/= \t\n\v\f\r\u0085\u00a0") && utf8.ValidString(k) && !strings.ContainsAny(k, "\u2000\u2001\u2002\u2003\u2028\u2029\u3000\u1680\u202f\u205f") {
				res.Name = benchfmt.Name("N/" + k + "=val")
				want = "val"
				if k == "gomaxprocs" {
					want = "val"
				}
			}
		default:
			res.Config = []benchfmt.Config{{Key: s, Value: []byte("val"), File: true}}
			want = "val"
		}
		f, err := benchproc.NewFilter(w + ":" + strconv.Quote(want))
		if err != nil {
			v.Failf("NewFilter(%q) fails although the key is a well-formed word for %q: %v", w+":"+strconv.Quote(want), s, err)
			return
		}
		if m, _ := f.Match(res); !m.All() {
			v.Failf("filter %q does not read key %q (expected value %q)", w+":"+strconv.Quote(want), s, want)
			return
		}
		f, err = benchproc.NewFilter(w + ":" + strconv.Quote(want+"x"))
		if err != nil {
			v.Failf("NewFilter: %v", err)
			return
		}
		if m, _ := f.Match(res); m.Any() {
			v.Failf("filter %q matches though key %q has value %q", w+":"+strconv.Quote(want+"x"), s, want)
			return
		}
		var pp benchproc.ProjectionParser
		proj, err := pp.Parse(w, nil)
		if err != nil {
			v.Failf("Parse(%q) fails although the key is a well-formed word for %q: %v", w, s, err)
			return
		}
		fs := proj.Fields()
		if len(fs) != 1 || fs[0].Name != s {
			v.Failf("Parse(%q) yields fields %v, want one field named %q", w, fs, s)
			return
		}
		if got := proj.Project(res).Get(fs[0]); got != want {
			v.Failf("projection %q extracted %q, want %q", w, got, want)
			return
		}
		// with sort orders
		for _, ord := range []string{"@alpha", "@num", "@(a b)"} {
			var pp2 benchproc.ProjectionParser
			ff, _ := benchproc.NewFilter("*")
			p2, err := pp2.Parse(w+ord, ff)
			if err != nil || len(p2.Fields()) != 1 || p2.Fields()[0].Name != s {
				v.Failf("Parse(%q): %v", w+ord, err)
				return
			}
		}
	}
	return
}

// enumeration: every string over {\ " a space} up to length 5, plus a list of hostile strings, in every form
func TestC07Enum(t *testing.T) {
	vcase.Enum(t, "C07", "enum", true, func(yield func(WordCase) bool) {
		alpha := []byte{'\\', '"', 'a', ' '}
		var strs []string
		var rec func(p []byte)
		rec = func(p []byte) {
			strs = append(strs, string(p))
			if len(p) == 5 {
				return
			}
			for _, b := range alpha {
				rec(append(append([]byte(nil), p...), b))
			}
		}
		rec(nil)
		strs = append(strs, "-", "*", "-x", "*x", "x-y", "x*", "(", ")", ":", "@", ",", "a:b", "a@b", "a,b", "(a)", "/", "/re/", "/x", "x/y", "AND", "OR", "and", "A ND",
			"\t", "\n", "a\tb", "a\u00a0b", "\x00", "\xff", "a\xffb", "\xc3", "é", "日本語", "\u2028", "\\n", "\\x", "\\\\", "\"\"", "'", "`", "$", "a\\", "\\\"", "a\\\"b", ".name", ".fullname", ".file", "/gomaxprocs", "/size", "k", strings.Repeat("ab", 50),
			// ordinary keys that merely begin like a reserved one
			".configs", ".config.x", ".config dir", ".config ", ".units", ".unit2", ".unit ", ".names", ".fullnames", ".fullname ", ".conf", ".uni", "/gomaxprocs2", " ", "  ", "\t ",
			// ordinary words that merely begin (or end) like an operator word
			"OR-tools", "AND-gate", "OR*", "AND*x", "ORx", "ANDROID", "OR-", "AND-", "ORé", "A-ND", "xAND", "x-OR", "AND/OR", "OR.", "AND=1", "ORAND", "or-tools", "And",
			// letters whose UTF-8 encoding contains a byte that is white space in Latin-1 (0x85, 0xa0)
			"città", "Å", "ą", "àb", "xà", "Åx", "\u0080", "a\u0080b", "\u00a0", "\u0085", "x\u00a0", "日本à語")
		for _, s := range strs {
			for _, form := range []string{"quote", "x", "mixed", "bare"} {
				if !yield(mkWord(s, form)) {
					return
				}
			}
		}
	}, CheckWord)
}

func GenWord(t *rapid.T) WordCase {
	var s string
	switch rapid.IntRange(0, 3).Draw(t, "skind") {
	case 0:
		b := rapid.SliceOfN(rapid.Byte(), 0, 12).Draw(t, "bytes")
		s = string(b)
	case 1:
		s = rapid.StringOfN(rapid.RuneFrom([]rune(`"\ ():@,-*/ab.é`+"\t\n\x00")), 0, 12, -1).Draw(t, "special")
	case 2:
		s = rapid.SampledFrom([]string{"/", ".", "-", "*", "", ".config", ".unit", ".name", ".fullname", ".file", "/gomaxprocs", "AND", "OR", "à", "Å"}).Draw(t, "lead") + rapid.StringMatching(`[a-zA-Z0-9_.=/ -]{0,10}`).Draw(t, "wordy")
	default:
		s = rapid.String().Draw(t, "any")
		if len(s) > 40 {
			s = s[:40]
		}
	}
	form := rapid.SampledFrom([]string{"quote", "x", "mixed", "bare", "bare"}).Draw(t, "form")
	return mkWord(s, form)
}

func TestC07Words(t *testing.T) { vcase.Run(t, "C07", "words", GenWord, CheckWord) }

// ---------------------------------------------------------------------------
// (2) arbitrary texts: clean failure, and destructive edits are rejected

type TextCase struct {
	Hex    string
	Text   string // for the reader
	Kind   string // "filter" | "projection"
	Edit   string // "" (free text) or the name of the destructive edit applied to a valid expression
	Reject bool   // the text must be rejected
	Accept bool   // the text is grammatical and must be accepted
	// ValidPrefix > 0: the first ValidPrefix bytes are a valid expression on their own and what
	// follows makes the text invalid; the reported position cannot lie before that point
	ValidPrefix int
}

func (c TextCase) text() string {
	if c.Hex == "" {
		return ""
	}
	var b []byte
	fmt.Sscanf(c.Hex, "%x", &b)
	return string(b)
}

func CheckText(c TextCase) (v vcase.Verdict) {
	text := c.text()
	if len(text) > 4096 {
		return
	}
	v.Label("kind=" + c.Kind)
	if c.Edit != "" {
		v.Label("edit=" + c.Edit)
		v.NonTrivial = true
	}
	var err error
	var starFilter *benchproc.Filter
	pmsg, hung := vcase.Watchdog(20*time.Second, func() {
		if c.Kind == "filter" {
			_, err = benchproc.NewFilter(text)
		} else {
			var pp benchproc.ProjectionParser
			starFilter, _ = benchproc.NewFilter("*")
			_, err = pp.Parse(text, starFilter)
		}
	})
	if hung {
		v.Poisoned = true
		v.Failf("parsing %q as %s did not return (20 s of CPU time)", text, c.Kind)
		return
	}
	if pmsg != "" {
		v.Failf("parsing %q as %s: %s", text, c.Kind, pmsg)
		return
	}
	if err == nil {
		v.Label("accepted")
		if c.Reject {
			v.Failf("%s expression %q (edit: %s) was accepted but must be rejected", c.Kind, text, c.Edit)
		}
		return
	}
	v.Label("rejected")
	if starFilter != nil {
		// a rejected projection must leave the caller's filter as it was ("*" matches everything)
		probe := &benchfmt.Result{Name: benchfmt.Name("N/size=1-4"), Iters: 1, Values: []benchfmt.Value{{Value: 1, Unit: "u"}},
			Config: []benchfmt.Config{{Key: "a", Value: []byte("zz"), File: true}, {Key: "goos", Value: []byte("plan9"), File: true}}}
		if m, _ := starFilter.Match(probe); !m.All() {
			v.Failf("projection %q was rejected (%v) but the filter passed to Parse no longer matches everything", text, err)
			return
		}
	}
	if c.Accept {
		v.Failf("grammatical %s expression %q was rejected: %v", c.Kind, text, err)
		return
	}
	off, ok := syntaxErrorOffset(err)
	if !ok {
		v.Failf("parsing %q as %s returned an error that is not a positioned syntax error: %T %v", text, c.Kind, err, err)
		return
	}
	if off < 0 || off > len(text) {
		v.Failf("parsing %q as %s: error offset %d outside the text (len %d)", text, c.Kind, off, len(text))
		return
	}
	if c.ValidPrefix > 0 && c.ValidPrefix <= len(text) && off < c.ValidPrefix {
		v.Failf("parsing %q as %s: the error (%v) is positioned at offset %d, inside the valid prefix %q; the offending text starts at offset %d", text, c.Kind, err, off, text[:c.ValidPrefix], c.ValidPrefix)
		return
	}
	if c.ValidPrefix > 0 {
		v.Label("error_position_checked")
	}
	if !strings.Contains(err.Error(), "syntax error") {
		v.Failf("error text lacks position/\"syntax error\": %q", err.Error())
	}
	return
}

// syntaxErrorOffset extracts the byte offset from the parser's syntax error.
// Its type lives in an internal package, so the field is read by reflection:
// a pointer to a struct with an integer field Off and a string field Query.
func syntaxErrorOffset(err error) (int, bool) {
	rv := reflect.ValueOf(err)
	if rv.Kind() != reflect.Ptr || rv.IsNil() || rv.Elem().Kind() != reflect.Struct {
		return 0, false
	}
	off := rv.Elem().FieldByName("Off")
	if !off.IsValid() || off.Kind() != reflect.Int {
		return 0, false
	}
	return int(off.Int()), true
}

var validFilters = []string{
	`a:b`, `.name:Foo /size:4k`, `a:b AND c:d`, `a:b OR c:d`, `-a:b`, `*`, `(a:b)`, `a:(b OR c)`, `a:/re/`, `a:"b c"`, `"a b":c`, `-(a:b OR c:d) e:f`,
	`.unit:ns/op`, `a://`, `a:// b:c`, `-a://`, `a:(// OR x)`, `a:/[/]/`, `a:/]/`, `a:(/x/ OR "y z" OR w)`, `((a:b))`, `a:b -c:d *`, `.fullname:/^Foo/ goos:linux`, `/gomaxprocs:8`, `a:"\"q\""`,
}
var validProjections = []string{
	`a`, `a,b`, `a b`, `.name`, `.fullname`, `.config`, `/size@num`, `a@alpha`, `a@(x y z)`, `"a b"@("x y" z)`, `.name,/size@num,goos@(linux darwin)`, `a@alpha, b@num c`, `.config@alpha`, `/gomaxprocs@num`,
}

func GenText(t *rapid.T) TextCase {
	c := TextCase{Kind: rapid.SampledFrom([]string{"filter", "projection"}).Draw(t, "kind")}
	var text string
	switch rapid.IntRange(0, 5).Draw(t, "tkind") {
	case 0: // random bytes
		text = string(rapid.SliceOfN(rapid.Byte(), 0, 30).Draw(t, "bytes"))
	case 1: // token soup
		toks := rapid.SliceOfN(rapid.SampledFrom([]string{"a", "b", ":", "(", ")", "-", "*", "@", ",", " ", "AND", "OR", `"`, `\`, "/", "/x/", `"q"`, ".unit", ".config", ".name", "num", "alpha", "\t", "é", "\xff", `"a\"`, `\\`}), 0, 14).Draw(t, "soup")
		text = strings.Join(toks, "")
	case 2: // valid expression: must be accepted
		if c.Kind == "filter" {
			text = genFilterText(t)
		} else {
			text = genProjectionText(t)
		}
		c.Edit = "none(valid)"
		c.Accept = true
		if vcase.OneIn(t, 6, "padws") {
			ws := rapid.SampledFrom([]string{" ", "\t", "\u00a0", "\u2003", "\u0085", "\u3000"}).Draw(t, "ws")
			if rapid.Bool().Draw(t, "wslead") || strings.HasSuffix(text, "/") {
				text = ws + text
			} else {
				text = text + ws
			}
		}
	default: // destructive edit of a valid expression
		if c.Kind == "filter" {
			base, hasRe := genFilterText2(t)
			text, c.Edit, c.Reject = editFilter(t, base, hasRe)
			if c.Edit == "config_in_filter_appended" {
				c.Edit, c.ValidPrefix = "config_in_filter", len(base)
			}
		} else {
			base := genProjectionText(t)
			text, c.Edit, c.Reject, c.ValidPrefix = editProjection(t, base)
		}
	}
	c.Hex = fmt.Sprintf("%x", text)
	c.Text = text
	return c
}

var tKeys = []string{"a", ".name", ".fullname", "/size", "/gomaxprocs", "goos", ".unit", "a b", "é", "x-y", ".file"}
var tVals = []string{"b", "Foo", "4k", "x y", "-v", "*", "a:b", "(x)", "AND", "", "é", "q q", "back\\", "ns/op", "8"}
var tRegexps = []string{"^F", "oo$", "4k|1M", "[a-f]+", "s.c", "x y", "^(a|b)$", "[/]x", "(a/b)+", `a\/b`, "a][/]b", "[^/]", "[[:alpha:]/]+"}

func genTTree(t *rapid.T, depth int) *refexpr.Node {
	if depth <= 0 || rapid.IntRange(0, 2).Draw(t, "leaf") == 0 {
		if vcase.OneIn(t, 8, "star") {
			return &refexpr.Node{Op: "true"}
		}
		key := rapid.SampledFrom(tKeys).Draw(t, "k")
		term := func() refexpr.Term {
			if vcase.OneIn(t, 4, "re") {
				return refexpr.Term{Re: rapid.SampledFrom(tRegexps).Draw(t, "rx")}
			}
			return refexpr.Term{Lit: rapid.SampledFrom(tVals).Draw(t, "v")}
		}
		if vcase.OneIn(t, 4, "list") {
			return &refexpr.Node{Op: "list", Key: key, Vals: []refexpr.Term{term(), term()}}
		}
		return &refexpr.Node{Op: "match", Key: key, Vals: []refexpr.Term{term()}}
	}
	switch rapid.IntRange(0, 2).Draw(t, "op") {
	case 0:
		return &refexpr.Node{Op: "not", Kids: []*refexpr.Node{genTTree(t, depth-1)}}
	case 1:
		return &refexpr.Node{Op: "and", Kids: []*refexpr.Node{genTTree(t, depth-1), genTTree(t, depth-1)}}
	}
	return &refexpr.Node{Op: "or", Kids: []*refexpr.Node{genTTree(t, depth-1), genTTree(t, depth-1)}}
}

func genFilterText(t *rapid.T) string {
	s, _ := genFilterText2(t)
	return s
}

// genFilterText2 also reports whether the expression contains a regexp term.
func genFilterText2(t *rapid.T) (string, bool) {
	if vcase.OneIn(t, 4, "fixedpool") {
		s := rapid.SampledFrom(validFilters).Draw(t, "vfe")
		return s, strings.Contains(s, ":/") || strings.Contains(s, "(/x")
	}
	tree := genTTree(t, rapid.IntRange(0, 3).Draw(t, "depth"))
	var st refexpr.Stats
	tree.Stats(&st)
	return refexpr.Print(t, tree), st.Regexps > 0
}

func genProjectionText(t *rapid.T) string {
	if vcase.OneIn(t, 4, "fixedpoolp") {
		return rapid.SampledFrom(validProjections).Draw(t, "vpe")
	}
	n := rapid.IntRange(1, 4).Draw(t, "nfields")
	var sb strings.Builder
	used := map[string]bool{}
	for i := 0; i < n; i++ {
		k := rapid.SampledFrom([]string{"a", ".name", ".fullname", "/size", "/gomaxprocs", "goos", ".config", "a b", "é", "x-y", ".file", "pkg"}).Draw(t, "pk")
		if used[k] {
			continue
		}
		used[k] = true
		if sb.Len() > 0 {
			sb.WriteString(rapid.SampledFrom([]string{",", " ", ", ", " , "}).Draw(t, "psep"))
		}
		sb.WriteString(refexpr.Word(t, k, false))
		switch rapid.IntRange(0, 4).Draw(t, "pord") {
		case 0:
			sb.WriteString("@alpha")
		case 1:
			sb.WriteString("@num")
		case 2:
			if k != ".config" {
				sb.WriteString("@(")
				m := rapid.IntRange(1, 3).Draw(t, "nfix")
				for j := 0; j < m; j++ {
					if j > 0 {
						sb.WriteString(" ")
					}
					sb.WriteString(refexpr.Word(t, rapid.SampledFrom(tVals).Draw(t, "fixv"), false))
				}
				sb.WriteString(")")
			}
		}
	}
	return sb.String()
}

func positions(s string, ch byte) []int {
	var ps []int
	inq := false
	for i := 0; i < len(s); i++ {
		if s[i] == '\\' && inq {
			i++
			continue
		}
		if s[i] == '"' {
			inq = !inq
			if ch == '"' {
				ps = append(ps, i)
			}
			continue
		}
		if !inq && s[i] == ch {
			ps = append(ps, i)
		}
	}
	return ps
}

// editFilter applies one destructive edit from the property's list. It
// returns reject=false when the edit does not apply to this base.
func editFilter(t *rapid.T, base string, hasRegexp bool) (string, string, bool) {
	switch rapid.IntRange(0, 6).Draw(t, "fedit") {
	case 0: // delete one parenthesis (only when no regexp is present: '(' may be regexp text)
		if ps := append(positions(base, '('), positions(base, ')')...); len(ps) > 0 && !hasRegexp {
			p := ps[rapid.IntRange(0, len(ps)-1).Draw(t, "ppos")]
			return base[:p] + base[p+1:], "unbalanced_paren", true
		}
	case 1: // delete the closing quote
		if ps := positions(base, '"'); len(ps) >= 2 && len(ps)%2 == 0 {
			p := ps[len(ps)-1]
			rest := base[p+1:]
			if !strings.Contains(rest, `"`) {
				return base[:p] + rest, "unterminated_quote", true
			}
		}
	case 2: // delete the closing '/' of a regexp
		if !strings.Contains(base, "/") {
			re := rapid.SampledFrom(tRegexps).Draw(t, "urx")
			return base + " k:/" + re, "unterminated_regexp", true
		}
	case 3: // delete a ':' (the term then lacks it)
		if ps := positions(base, ':'); len(ps) > 0 && !hasRegexp {
			p := ps[rapid.IntRange(0, len(ps)-1).Draw(t, "cpos")]
			return base[:p] + " " + base[p+1:], "term_without_colon", true
		}
	case 4: // delete the value: cut the text right after the last ':'
		if ps := positions(base, ':'); len(ps) > 0 {
			p := ps[len(ps)-1]
			return base[:p+1], "term_without_value", true
		}
	case 5:
		term := rapid.SampledFrom([]string{".config:x", `.config:"a b"`, ".config:/re/", ".config:(a OR b)"}).Draw(t, "cfgterm")
		switch rapid.IntRange(0, 5).Draw(t, "cfgpos") {
		case 0:
			return base + " " + term, "config_in_filter_appended", true
		case 1:
			return term + " " + base, "config_in_filter", true
		case 2:
			return term + " OR " + base, "config_in_filter", true
		case 3:
			return "-(" + term + " " + base + ")", "config_in_filter", true
		case 4:
			return "(" + base + ") AND (" + term + " OR a:b) c:d", "config_in_filter", true
		default:
			return "-" + term + " " + base, "config_in_filter", true
		}
	case 6: // add an unbalanced parenthesis
		if rapid.Bool().Draw(t, "which") {
			return "(" + base, "unbalanced_paren", true
		}
		return base + ")", "unbalanced_paren", true
	}
	return base, "", false
}

func editProjection(t *rapid.T, base string) (text, edit string, reject bool, validPrefix int) {
	valid := len(base)
	text, edit, reject = editProjection0(t, base)
	switch edit {
	case "empty_fixed_list", "unknown_order", "unit_in_projection":
		if strings.HasPrefix(text, base) {
			validPrefix = valid
		}
	}
	return
}

func editProjection0(t *rapid.T, base string) (string, string, bool) {
	if vcase.OneIn(t, 5, "emptykeyinfix") {
		// an empty quoted word in key position (itself rejected: "key must not be empty")
		// in front of the destructive edit
		base += rapid.SampledFrom([]string{` ""`, ` "" x`, `,""`, ` ""@alpha`}).Draw(t, "ekform")
	}
	switch rapid.IntRange(0, 6).Draw(t, "pedit") {
	case 6:
		switch rapid.IntRange(0, 3).Draw(t, "ekpos") {
		case 0:
			return base + ` ""`, "empty_key", true
		case 1:
			return `"" ` + base, "empty_key", true
		case 2:
			return base + `,"",k`, "empty_key", true
		default:
			return base + ` "" ` + rapid.SampledFrom([]string{"k", "pkg@bogus", "(pkg", ".unit", "k@()", `"pkg`}).Draw(t, "ektail"), "empty_key", true
		}
	case 0:
		return base + " k@()", "empty_fixed_list", true
	case 1:
		return base + ",k@" + rapid.SampledFrom([]string{"nope", "Alpha", "numeric", "NUM", "alphabetic", "x", `""`, `" "`, `"alpha "`}).Draw(t, "ord"), "unknown_order", true
	case 2:
		// however the key is spelt (bare, quoted, escaped, with an order), .unit is not a projection key
		return base + " " + rapid.SampledFrom([]string{".unit", `".unit"`, `"\x2eunit"`, `".unit"@alpha`, `".\u0075nit"@(a b)`, ".unit@num"}).Draw(t, "unitspell"), "unit_in_projection", true
	case 3:
		if ps := append(positions(base, '('), positions(base, ')')...); len(ps) > 0 {
			p := ps[rapid.IntRange(0, len(ps)-1).Draw(t, "ppos")]
			return base[:p] + base[p+1:], "unbalanced_paren", true
		}
		return base + " k@(a", "unbalanced_paren", true
	case 4:
		if ps := positions(base, '"'); len(ps) >= 2 {
			p := ps[len(ps)-1]
			if !strings.Contains(base[p+1:], `"`) {
				return base[:p] + base[p+1:], "unterminated_quote", true
			}
		}
		return base + ` "abc`, "unterminated_quote", true
	case 5:
		return base + " k@", "missing_order", false
	}
	return base, "", false
}

func TestC07Texts(t *testing.T) { vcase.Run(t, "C07", "texts", GenText, CheckText) }
