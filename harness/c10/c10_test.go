// Package c10: scaled number formatting (benchunit.Scale, CommonScale,
// Scaler.Format, ClassOf, NoOpScaler).
//
// The oracle is a validity predicate on the printed string, evaluated in exact
// rational arithmetic (math/big). It knows the SI and IEC prefix symbols and
// their standard factors, and nothing about the implementation's threshold
// tables: whether an output is acceptable is decided only from the value, the
// printed mantissa and the printed prefix.
package c10

import (
	"fmt"
	"math"
	"math/big"
	"strconv"
	"strings"
	"testing"
	"unicode/utf8"

	"golang.org/x/perf/benchunit"
	"pgregory.net/rapid"
	"verif/harness/lib/refbench"
	"verif/harness/lib/vcase"
)

// Case is one input. Floats are stored as bit patterns ("0x%016x").
type Case struct {
	Kind  string   // "scale", "common", "classof", "noop"
	Class string   // "Decimal" or "Binary" (scale, common)
	Bits  []string // scale, noop: one value; common: 1..8 values
	Unit  string   // classof: the unit string (valid UTF-8)
	Thr   string   // enumeration: the threshold this value neighbours; rapid: generator label
	Off   int      // enumeration: distance from the threshold in ulps
}

func hexBits(f float64) string { return fmt.Sprintf("0x%016x", math.Float64bits(f)) }

func (c Case) floats() ([]float64, bool) {
	out := make([]float64, len(c.Bits))
	for i, s := range c.Bits {
		b, err := strconv.ParseUint(s, 0, 64)
		if err != nil {
			return nil, false
		}
		out[i] = math.Float64frombits(b)
		if math.IsNaN(out[i]) || math.IsInf(out[i], 0) {
			return nil, false // outside the domain (finite floats)
		}
	}
	return out, true
}

// ---------------------------------------------------------------------------
// exact arithmetic helpers

func ratInt(n int64) *big.Rat { return new(big.Rat).SetInt64(n) }

func ratPow(base int64, k int) *big.Rat {
	n := k
	if n < 0 {
		n = -n
	}
	p := new(big.Int).Exp(big.NewInt(base), big.NewInt(int64(n)), nil)
	r := new(big.Rat).SetInt(p)
	if k < 0 {
		r.Inv(r)
	}
	return r
}

func ratMul(a, b *big.Rat) *big.Rat { return new(big.Rat).Mul(a, b) }

func ratAbsFloat(f float64) *big.Rat {
	r := new(big.Rat).SetFloat64(math.Abs(f)) // exact; f is finite
	return r
}

func ratDec(s string) *big.Rat {
	r, ok := new(big.Rat).SetString(s)
	if !ok {
		panic("bad decimal " + s)
	}
	return r
}

// nearest float64 of a positive rational
func ratFloat(r *big.Rat) float64 {
	f, _ := r.Float64()
	return f
}

// ---------------------------------------------------------------------------
// the prefix systems (ISO 80000-1 SI prefixes, ISO/IEC 80000-13 binary prefixes)

type prefix struct {
	sym    string
	alt    string   // alternative spelling accepted on output
	factor *big.Rat // exact
	nround int      // float roundings in val/float64(factor): 0 power of two, 1 exact float, 2 inexact float
}

func mkPrefix(sym, alt string, f *big.Rat, pow2 bool) prefix {
	p := prefix{sym: sym, alt: alt, factor: f}
	_, exact := f.Float64()
	switch {
	case pow2:
		p.nround = 0
	case exact:
		p.nround = 1
	default:
		p.nround = 2
	}
	return p
}

// largest first
var decPrefixes = []prefix{
	mkPrefix("T", "", ratPow(10, 12), false),
	mkPrefix("G", "", ratPow(10, 9), false),
	mkPrefix("M", "", ratPow(10, 6), false),
	mkPrefix("k", "", ratPow(10, 3), false),
	mkPrefix("", "", ratPow(10, 0), true),
	mkPrefix("m", "", ratPow(10, -3), false),
	mkPrefix("µ", "μ", ratPow(10, -6), false),
	mkPrefix("n", "", ratPow(10, -9), false),
}

var binPrefixes = []prefix{
	mkPrefix("Ti", "", ratPow(2, 40), true),
	mkPrefix("Gi", "", ratPow(2, 30), true),
	mkPrefix("Mi", "", ratPow(2, 20), true),
	mkPrefix("Ki", "", ratPow(2, 10), true),
	mkPrefix("", "", ratPow(2, 0), true),
}

func prefixesOf(bin bool) []prefix {
	if bin {
		return binPrefixes
	}
	return decPrefixes
}

func classOf(name string) (benchunit.Class, bool) {
	if name == "Binary" {
		return benchunit.Binary, true
	}
	return benchunit.Decimal, false
}

// ---------------------------------------------------------------------------
// parsing the printed form

type printed struct {
	neg       bool
	ip, fp    string // integer and fraction digits
	prefix    string
	mant      *big.Rat
	decimals  int
	sigDigits int // printed digits from the first non-zero one
}

func parsePrinted(s string) (p printed, ok bool) {
	i := 0
	if i < len(s) && s[i] == '-' {
		p.neg = true
		i++
	}
	j := i
	for j < len(s) && s[j] >= '0' && s[j] <= '9' {
		j++
	}
	if j == i {
		return p, false
	}
	p.ip = s[i:j]
	if len(p.ip) > 1 && p.ip[0] == '0' {
		return p, false
	}
	if j < len(s) && s[j] == '.' {
		k := j + 1
		for k < len(s) && s[k] >= '0' && s[k] <= '9' {
			k++
		}
		if k == j+1 {
			return p, false
		}
		p.fp = s[j+1 : k]
		j = k
	}
	p.prefix = s[j:]
	p.decimals = len(p.fp)
	ms := p.ip
	if p.fp != "" {
		ms += "." + p.fp
	}
	p.mant = ratDec(ms)
	p.sigDigits = len(strings.TrimLeft(p.ip+p.fp, "0"))
	return p, true
}

func findPrefix(pf []prefix, sym string) int {
	for i, p := range pf {
		if p.sym == sym || (p.alt != "" && p.alt == sym) {
			return i
		}
	}
	return -1
}

// roundingBound returns ½ unit of the last printed digit × factor, plus the
// slack for the float roundings in val/float64(factor): each rounding is at
// most 2^-53 relative, so n roundings move the quotient by at most
// a·n·2^-53·(1+2^-40).
func roundingBound(a *big.Rat, decimals int, p prefix) *big.Rat {
	b := ratMul(ratPow(10, -decimals), p.factor)
	b.Mul(b, big.NewRat(1, 2))
	if p.nround > 0 {
		sl := ratMul(a, ratPow(2, -53))
		sl.Mul(sl, ratInt(int64(p.nround)))
		sl.Mul(sl, new(big.Rat).Add(ratInt(1), ratPow(2, -40)))
		b.Add(b, sl)
	}
	return b
}

func rounded(a *big.Rat, p printed, pf prefix) (ok bool, diff, bound *big.Rat) {
	diff = ratMul(p.mant, pf.factor)
	diff.Sub(diff, a)
	diff.Abs(diff)
	bound = roundingBound(a, p.decimals, pf)
	return diff.Cmp(bound) <= 0, diff, bound
}

type result struct {
	err  string
	p    printed
	pidx int
	form string // "zero", "d.ddd", "dd.dd", "ddd.d", "dddd.d", "over", "sub", "sub<1e-8"
}

var (
	rat1    = ratInt(1)
	rat10   = ratInt(10)
	rat100  = ratInt(100)
	rat1000 = ratInt(1000)
	rat1024 = ratInt(1024)
)

// validate decides whether s is an acceptable automatically scaled rendering
// of x in the given class.
func validate(x float64, bin bool, s string) (r result) {
	pfs := prefixesOf(bin)
	p, ok := parsePrinted(s)
	if !ok {
		r.err = "output is not [-]digits[.digits]prefix"
		return
	}
	r.p = p
	r.pidx = findPrefix(pfs, p.prefix)
	if r.pidx < 0 {
		r.err = fmt.Sprintf("prefix %q is not a prefix of this class", p.prefix)
		return
	}
	pf := pfs[r.pidx]
	a := ratAbsFloat(x)
	if x != 0 && p.neg != (x < 0) {
		r.err = "sign not preserved"
		return
	}
	if ok, diff, bound := rounded(a, p, pf); !ok {
		r.err = fmt.Sprintf("mantissa×factor differs from |v| by %s > bound %s (half a unit of the last digit, plus division slack)",
			diff.FloatString(30), bound.FloatString(30))
		return
	}
	if a.Sign() == 0 {
		r.form = "zero"
		return
	}
	largest, smallest := r.pidx == 0, r.pidx == len(pfs)-1
	upper := rat1000
	if bin {
		upper = rat1024
	}
	m := p.mant
	// atLeast reports whether |v| has reached the boundary t×factor: either
	// the exact rational boundary or the float64 nearest to it, whichever is
	// lower (the property's own example treats the float written 999.95 as
	// being at the boundary: it prints as 1.000k). No other tolerance.
	atLeast := func(t string) bool {
		lim := ratMul(ratDec(t), pf.factor)
		if fl := new(big.Rat).SetFloat64(ratFloat(lim)); fl != nil && fl.Cmp(lim) < 0 {
			lim = fl
		}
		return a.Cmp(lim) >= 0
	}
	switch {
	case m.Cmp(rat1) >= 0:
		// Four significant digits of the value, not merely four printed
		// digits: a coarser form is acceptable only from the point where the
		// finer one would round up out of its range (9.9995 → 10.00,
		// 99.995 → 100.0, 0.99995 → 1.000 of the next prefix).
		if !smallest && !atLeast("0.99995") {
			r.err = fmt.Sprintf("prefix %q chosen although the mantissa in it is below 0.99995 (the smaller prefix gives more digits)", p.prefix)
			return
		}
		if m.Cmp(rat1000) < 0 && p.decimals < 3 {
			t := map[int]string{2: "9.9995", 1: "99.995", 0: "999.95"}[p.decimals]
			if !atLeast(t) {
				r.err = fmt.Sprintf("only %d decimals although the mantissa is below %s (one more digit fits in four significant digits)", p.decimals, t)
				return
			}
		}
		if m.Cmp(upper) >= 0 && !largest {
			r.err = fmt.Sprintf("mantissa %s.%s is not below %s although a larger prefix exists", p.ip, p.fp, upper.FloatString(0))
			return
		}
		switch {
		case m.Cmp(rat1000) < 0:
			if len(p.ip)+p.decimals != 4 {
				r.err = fmt.Sprintf("mantissa %s.%s in [1,1000) does not have exactly four significant digits", p.ip, p.fp)
				return
			}
			r.form = []string{"", "d.ddd", "dd.dd", "ddd.d"}[len(p.ip)]
		case m.Cmp(upper) < 0: // binary, [1000,1024)
			if p.decimals != 1 {
				r.err = fmt.Sprintf("binary mantissa %s.%s in [1000,1024) is not of the form dddd.d", p.ip, p.fp)
				return
			}
			r.form = "dddd.d"
		default: // beyond the largest prefix; ≥ 4 significant digits by construction
			r.form = "over"
		}
	default:
		if !smallest {
			r.err = fmt.Sprintf("mantissa %s.%s is below 1 although a smaller prefix exists", p.ip, p.fp)
			return
		}
		limit := ratMul(ratPow(10, -8), pf.factor)
		if a.Cmp(limit) >= 0 {
			if p.sigDigits < 3 {
				r.err = fmt.Sprintf("only %d significant digits for a magnitude ≥ 1e-8 of the smallest prefix", p.sigDigits)
				return
			}
			r.form = "sub"
		} else {
			r.form = "sub<1e-8"
		}
	}
	return
}

// ---------------------------------------------------------------------------
// Check

func Check(c Case) (v vcase.Verdict) {
	switch c.Kind {
	case "scale":
		checkScale(c, &v)
	case "common":
		checkCommon(c, &v)
	case "classof":
		checkClassOf(c, &v)
	case "noop":
		checkNoOp(c, &v)
	default:
		v.Failf("bad case kind %q", c.Kind)
	}
	return
}

func checkScale(c Case, v *vcase.Verdict) {
	xs, ok := c.floats()
	if !ok || len(xs) != 1 {
		return
	}
	x := xs[0]
	cls, bin := classOf(c.Class)
	s := benchunit.Scale(x, cls)
	if s2 := benchunit.CommonScale([]float64{x}, cls).Format(x); s2 != s {
		v.Failf("Scale(%v, %v) = %q but CommonScale({v}).Format(v) = %q", x, cls, s, s2)
		return
	}
	r := validate(x, bin, s)
	if r.err != "" {
		v.Failf("Scale(%v [%s], %v) = %q: %s", x, hexBits(x), cls, s, r.err)
		return
	}
	v.Label("class=" + c.Class)
	v.Label("form=" + r.form)
	v.Label("prefix=" + c.Class[:1] + ":" + r.p.prefix)
	if x < 0 {
		v.Label("negative")
	}
	if c.Thr != "" && c.Off == 0 && !strings.HasPrefix(c.Thr, "gen=") {
		v.Label("at_threshold")
	}
	if strings.HasPrefix(c.Thr, "gen=") {
		v.Label(c.Thr)
		// a decade adjacent to a prefix change: mantissa outside [10,100)
		v.NonTrivial = x != 0 && !(r.p.mant.Cmp(rat10) >= 0 && r.p.mant.Cmp(rat100) < 0)
	} else {
		v.NonTrivial = c.Off >= -4 && c.Off <= 4
	}
}

func checkCommon(c Case, v *vcase.Verdict) {
	xs, ok := c.floats()
	if !ok || len(xs) == 0 {
		return
	}
	cls, bin := classOf(c.Class)
	pfs := prefixesOf(bin)
	// the caller's values are formatted with the returned scale afterwards: they must be left as they are
	arg := append([]float64(nil), xs...)
	sc := benchunit.CommonScale(arg, cls)
	for i := range xs {
		if math.Float64bits(arg[i]) != math.Float64bits(xs[i]) {
			v.Failf("CommonScale(%v, %v) changed its argument: element %d is now %v", xs, cls, i, arg[i])
			return
		}
	}
	// the smallest non-zero magnitude, found by the oracle
	mi := -1
	distinct := map[float64]bool{}
	for i, x := range xs {
		if x == 0 {
			continue
		}
		distinct[math.Abs(x)] = true
		if mi < 0 || math.Abs(x) < math.Abs(xs[mi]) {
			mi = i
		}
	}
	v.Label("class=" + c.Class)
	v.Label(fmt.Sprintf("n=%d", len(xs)))
	if len(distinct) < len(xs) {
		v.Label("has_zero_or_duplicate")
	}
	v.Sub = len(xs)
	if mi < 0 {
		v.Label("all_zero")
		for _, x := range xs {
			s := sc.Format(x)
			if r := validate(x, bin, s); r.err != "" {
				v.Failf("all-zero multiset: Format(%v) = %q: %s", x, s, r.err)
				return
			}
		}
		return
	}
	minv := xs[mi]
	ref := benchunit.CommonScale([]float64{minv}, cls)
	if sc != ref {
		v.Failf("CommonScale(%v, %v) = %+v but the scale of the smallest non-zero magnitude %v is %+v", xs, cls, sc, minv, ref)
		return
	}
	// independent of the singleton call: the smallest magnitude, printed with
	// the shared scale, must be a valid automatically scaled rendering.
	smin := sc.Format(minv)
	rm := validate(minv, bin, smin)
	if rm.err != "" {
		v.Failf("CommonScale(%v, %v).Format(min=%v) = %q: %s", xs, cls, minv, smin, rm.err)
		return
	}
	pf := pfs[rm.pidx]
	claim3 := ratAbsFloat(minv).Cmp(ratMul(ratPow(10, -8), pfs[len(pfs)-1].factor)) >= 0
	for _, x := range xs {
		s := sc.Format(x)
		if overflowSignature(x, s, pf) {
			// Scaler.Format divides by a factor < 1 in float64: the quotient of a
			// huge value overflows and "±Inf<prefix>" is printed. The generator
			// keeps multisets inside |v| ≤ 1e299 unless the finding is listed.
			if vcase.KnownListed(findingOverflow) {
				v.KnownHit(findingOverflow)
				continue
			}
			v.Failf("shared scale: Format(%v) = %q: val/factor overflows float64 (finding %s, not listed)", x, s, findingOverflow)
			return
		}
		p, ok := parsePrinted(s)
		if !ok {
			v.Failf("shared scale: Format(%v) = %q is malformed", x, s)
			return
		}
		if findPrefix(pfs, p.prefix) != rm.pidx || p.decimals != rm.p.decimals {
			v.Failf("shared scale: Format(%v) = %q does not use the prefix/decimals of Format(min) = %q", x, s, smin)
			return
		}
		if x != 0 && p.neg != (x < 0) {
			v.Failf("shared scale: Format(%v) = %q: sign not preserved", x, s)
			return
		}
		a := ratAbsFloat(x)
		if ok, diff, bound := rounded(a, p, pf); !ok {
			v.Failf("shared scale: Format(%v) = %q differs from the value by %s > %s", x, s, diff.FloatString(30), bound.FloatString(30))
			return
		}
		if x != 0 && claim3 && p.sigDigits < 3 {
			v.Failf("shared scale: Format(%v) = %q shows fewer than three significant digits", x, s)
			return
		}
	}
	v.NonTrivial = len(distinct) >= 2
	if len(distinct) >= 2 {
		mx := 0.0
		for x := range distinct {
			if x > mx {
				mx = x
			}
		}
		if benchunit.CommonScale([]float64{mx}, cls) != sc {
			v.Label("scale_differs_from_max")
		} else {
			v.Label("scale_same_as_max")
		}
	}
	v.Label("minform=" + rm.form)
}

// findingOverflow: CommonScale picks a sub-unit prefix (m, µ, n) from a small
// value; Format of a value above MaxFloat64×factor then prints ±Inf.
const findingOverflow = "C10-a"

// commonMax bounds the magnitudes in generated multisets so that val/factor
// cannot overflow for any supported factor (smallest: 1e-9).
const commonMax = 1e299

// overflowSignature: the output is exactly ±Inf followed by the prefix, and
// the exact quotient |x|/factor is (within 2^-50 relative) beyond MaxFloat64.
func overflowSignature(x float64, s string, pf prefix) bool {
	want := "+Inf"
	if x < 0 {
		want = "-Inf"
	}
	if s != want+pf.sym {
		return false
	}
	q := new(big.Rat).Quo(ratAbsFloat(x), pf.factor)
	lim := ratMul(ratAbsFloat(math.MaxFloat64), new(big.Rat).Sub(ratInt(1), ratPow(2, -50)))
	return q.Cmp(lim) >= 0
}

var bytesToks = map[string]bool{"B": true, "MB": true, "bytes": true}

func checkClassOf(c Case, v *vcase.Verdict) {
	if !utf8.ValidString(c.Unit) {
		return
	}
	got := benchunit.ClassOf(c.Unit)
	want := benchunit.Decimal
	num, den := 0, 0
	toks := refbench.UnitTokens(c.Unit)
	for _, t := range toks {
		if bytesToks[t.Tok] {
			if t.Denom {
				den++
			} else {
				num++
			}
		}
	}
	if num > 0 {
		want = benchunit.Binary
	}
	if got != want {
		v.Failf("ClassOf(%q) = %v, want %v (numerator byte components: %d, denominator: %d)", c.Unit, got, want, num, den)
		return
	}
	v.NonTrivial = num+den > 0
	switch {
	case num > 0 && den > 0:
		v.Label("bytes_in_both")
	case num > 0:
		v.Label("bytes_in_numerator")
	case den > 0:
		v.Label("bytes_in_denominator_only")
	case strings.Contains(c.Unit, "B") || strings.Contains(c.Unit, "bytes"):
		v.Label("near_miss_component")
	default:
		v.Label("no_bytes")
	}
	if len(toks) == 0 {
		v.Label("no_components")
	}
	if strings.HasPrefix(c.Thr, "gen=") {
		v.Label(c.Thr)
	}
}

func checkNoOp(c Case, v *vcase.Verdict) {
	xs, ok := c.floats()
	if !ok || len(xs) != 1 {
		return
	}
	x := xs[0]
	s := benchunit.NoOpScaler.Format(x)
	p, ok := parsePrinted(s)
	if !ok || p.prefix != "" {
		v.Failf("NoOpScaler.Format(%v) = %q is not a plain decimal", x, s)
		return
	}
	back, err := strconv.ParseFloat(s, 64)
	if err != nil || math.Float64bits(back) != math.Float64bits(x) {
		v.Failf("NoOpScaler.Format(%v [%s]) = %q reads back as %v [%s] (err %v)", x, hexBits(x), s, back, hexBits(back), err)
		return
	}
	// shortest: with n significant digits printed, neither of the two
	// (n-1)-digit decimals that bracket |x| reads back as |x|. (The set of
	// reals that read back as x is an interval around x, so if any shorter
	// decimal did, one of the two bracketing ones would.)
	digits := strings.TrimRight(strings.TrimLeft(p.ip+p.fp, "0"), "0")
	n := len(digits)
	v.Label(fmt.Sprintf("digits=%02d", n))
	if strings.HasPrefix(c.Thr, "gen=") {
		v.Label(c.Thr)
	}
	if x == 0 {
		if s != "0" && s != "-0" {
			v.Failf("NoOpScaler.Format(%v) = %q", x, s)
		}
		return
	}
	v.NonTrivial = n >= 2
	if n < 2 {
		return
	}
	a := ratAbsFloat(x)
	// decimal exponent e with 10^e ≤ a < 10^(e+1)
	e := int(math.Floor(math.Log10(math.Abs(x))))
	for ratPow(10, e).Cmp(a) > 0 {
		e--
	}
	for ratPow(10, e+1).Cmp(a) <= 0 {
		e++
	}
	q := e - (n - 1) + 1 // exponent of the last of n-1 digits
	scaled := ratMul(a, ratPow(10, -q))
	lo := new(big.Int).Quo(scaled.Num(), scaled.Denom())
	hi := new(big.Int).Add(lo, big.NewInt(1))
	for _, cand := range []*big.Int{lo, hi} {
		txt := cand.String() + "e" + strconv.Itoa(q)
		f, err := strconv.ParseFloat(txt, 64)
		if err == nil && f == math.Abs(x) {
			v.Failf("NoOpScaler.Format(%v [%s]) = %q uses %d significant digits but %s (%d digits) reads back to the same float", x, hexBits(x), s, n, txt, n-1)
			return
		}
	}
}

// ---------------------------------------------------------------------------
// rounding thresholds (generator side: where to aim; not used by the oracle)

type threshold struct {
	name   string
	centre float64
}

// thresholds lists, for one class, every magnitude at which the printed form
// changes shape: mantissa 0.99995, 9.9995, 99.995, 999.95 (and 1023.95 for
// binary) of each prefix, the corresponding points below the smallest prefix
// down to where digits run out, and the points above the largest prefix.
func thresholds(bin bool) []threshold {
	pfs := prefixesOf(bin)
	var out []threshold
	seen := map[uint64]bool{}
	add := func(name string, r *big.Rat) {
		f := ratFloat(r)
		if b := math.Float64bits(f); !seen[b] {
			seen[b] = true
			out = append(out, threshold{name, f})
		}
	}
	cl := "D"
	if bin {
		cl = "B"
	}
	for i, p := range pfs {
		ms := []string{"0.99995", "9.9995", "99.995", "999.95"}
		if bin {
			ms = append(ms, "1023.95")
		}
		if i == 0 {
			ms = append(ms, "9999.95", "99999.95")
		}
		for _, m := range ms {
			add(fmt.Sprintf("%s:%s%s", cl, m, p.sym), ratMul(ratDec(m), p.factor))
		}
	}
	small := pfs[len(pfs)-1]
	for k := 1; k <= 9; k++ {
		add(fmt.Sprintf("%s:9.9995e-%d%s", cl, k, small.sym), ratMul(ratMul(ratDec("9.9995"), ratPow(10, -k)), small.factor))
	}
	for _, m := range []string{"1e-8", "9.995e-9", "9.95e-9", "1e-7", "5e-11", "1.5e-10"} {
		add(fmt.Sprintf("%s:%s%s", cl, m, small.sym), ratMul(ratDec(m), small.factor))
	}
	return out
}

func addUlps(f float64, k int) float64 { // f positive, far from 0 and overflow
	return math.Float64frombits(uint64(int64(math.Float64bits(f)) + int64(k)))
}

var classNames = []string{"Decimal", "Binary"}

// TestC10Ulps enumerates every float within ±W ulps of every threshold, both
// signs, both classes.
func TestC10Ulps(t *testing.T) {
	w := vcase.Scale(512, 4096)
	shard, nshards := vcase.Shard()
	vcase.Enum(t, "C10", "ulps", true, func(yield func(Case) bool) {
		idx := 0
		for ci, cn := range classNames {
			for _, th := range thresholds(ci == 1) {
				idx++
				if idx%nshards != shard {
					continue
				}
				for off := -w; off <= w; off++ {
					f := addUlps(th.centre, off)
					for _, sg := range []float64{1, -1} {
						if !yield(Case{Kind: "scale", Class: cn, Bits: []string{hexBits(sg * f)}, Thr: th.name, Off: off}) {
							return
						}
					}
				}
			}
		}
	}, Check)
}

// ---------------------------------------------------------------------------
// rapid generators

func genSign(t *rapid.T) float64 {
	if rapid.IntRange(0, 3).Draw(t, "neg") == 0 {
		return -1
	}
	return 1
}

// log-uniform magnitude 10^[lo,hi)
func genLogUniform(t *rapid.T, lo, hi int, label string) float64 {
	e := rapid.IntRange(lo, hi-1).Draw(t, label+"_e")
	fr := float64(rapid.Uint64Range(0, 1<<52-1).Draw(t, label+"_f")) / (1 << 52)
	return math.Pow(10, float64(e)+fr)
}

func genFiniteBits(t *rapid.T, label string) float64 {
	b := rapid.Uint64().Draw(t, label)
	if b>>52&0x7ff == 0x7ff {
		b &^= 1 << 62 // construct a finite value instead of filtering
	}
	return math.Float64frombits(b)
}

var niceValues = []float64{0, 1, 2, 3, 5, 7, 9, 10, 12, 99, 100, 101, 250, 500, 512, 999, 1000, 1001, 1023, 1024, 1025, 1536, 2048, 4096,
	9999, 10000, 65536, 99999, 100000, 999999, 1e6, 1048575, 1048576, 1048577, 123456789, 1e9, 1073741824, 1e12, 1099511627776, 1e15, 1e18,
	0.1, 0.2, 0.25, 0.5, 0.75, 0.9, 0.99, 0.999, 0.9999, 0.99999, 0.001, 0.01, 1e-3, 1e-6, 1e-9, 1e-12, 1.5, 2.5, 9.5, 99.5, 999.5, 999.9, 999.95, 999.94, 1023.9, 1023.94, 1023.95, 1023.96, 1023.99}

// genValue draws one finite value aimed at the places where the printed form
// changes; the returned label names the generator.
func genValue(t *rapid.T, bin bool) (float64, string) {
	pfs := prefixesOf(bin)
	switch rapid.IntRange(0, 9).Draw(t, "vkind") {
	case 0, 1:
		return genSign(t) * genLogUniform(t, -20, 20, "lu"), "gen=loguniform"
	case 2:
		return genFiniteBits(t, "bits"), "gen=bits"
	case 3, 4: // half-unit rounding boundaries of the printed mantissa, ± a few ulps
		p := pfs[rapid.IntRange(0, len(pfs)-1).Draw(t, "pfx")]
		var m *big.Rat
		if bin && rapid.IntRange(0, 4).Draw(t, "wide") == 0 {
			k := rapid.IntRange(10000, 10239).Draw(t, "m5")
			m = big.NewRat(int64(2*k+1), 20)
		} else {
			k := rapid.IntRange(1000, 9999).Draw(t, "m4")
			j := rapid.IntRange(1, 3).Draw(t, "dec")
			m = ratMul(big.NewRat(int64(2*k+1), 2), ratPow(10, -j))
		}
		f := ratFloat(ratMul(m, p.factor))
		return genSign(t) * addUlps(f, rapid.IntRange(-3, 3).Draw(t, "off")), "gen=half_unit"
	case 5, 6: // around the thresholds, at all distances up to ~1e-6 relative
		ths := thresholds(bin)
		th := ths[rapid.IntRange(0, len(ths)-1).Draw(t, "thr")]
		mag := rapid.IntRange(0, 32).Draw(t, "offmag")
		off := int(rapid.Uint64Range(0, 1<<uint(mag)).Draw(t, "off"))
		if rapid.Bool().Draw(t, "below") {
			off = -off
		}
		return genSign(t) * addUlps(th.centre, off), "gen=near_threshold"
	case 7: // round numbers, optionally rescaled by a power of ten or two
		f := rapid.SampledFrom(niceValues).Draw(t, "nice")
		switch rapid.IntRange(0, 3).Draw(t, "rescale") {
		case 0:
			f *= math.Pow(10, float64(rapid.IntRange(-12, 12).Draw(t, "p10")))
		case 1:
			f = math.Ldexp(f, rapid.IntRange(-20, 50).Draw(t, "p2"))
		}
		if rapid.IntRange(0, 2).Draw(t, "nudge") == 0 && f != 0 {
			f = addUlps(f, rapid.IntRange(-2, 2).Draw(t, "nudgeby"))
		}
		return genSign(t) * f, "gen=nice"
	case 8: // below the smallest prefix
		small := ratFloat(pfs[len(pfs)-1].factor)
		return genSign(t) * small * genLogUniform(t, -13, 1, "sub"), "gen=below_smallest"
	default: // extremes
		switch rapid.IntRange(0, 4).Draw(t, "ext") {
		case 0:
			return genSign(t) * math.Float64frombits(rapid.Uint64Range(1, 1<<52+8).Draw(t, "subn")), "gen=extreme"
		case 1:
			return genSign(t) * math.Float64frombits(math.Float64bits(math.MaxFloat64)-uint64(rapid.IntRange(0, 8).Draw(t, "max"))), "gen=extreme"
		case 2:
			return genSign(t) * genLogUniform(t, 15, 308, "huge"), "gen=extreme"
		case 3:
			return genSign(t) * genLogUniform(t, -320, -20, "tiny"), "gen=extreme"
		default:
			return math.Copysign(0, genSign(t)), "gen=extreme"
		}
	}
}

func genClass(t *rapid.T) (string, bool) {
	b := rapid.Bool().Draw(t, "binary")
	if b {
		return "Binary", true
	}
	return "Decimal", false
}

func GenScale(t *rapid.T) Case {
	cn, bin := genClass(t)
	f, lab := genValue(t, bin)
	return Case{Kind: "scale", Class: cn, Bits: []string{hexBits(f)}, Thr: lab}
}

func GenCommon(t *rapid.T) Case {
	cn, bin := genClass(t)
	n := rapid.IntRange(1, 8).Draw(t, "n")
	var vals []float64
	var lab string
	switch rapid.IntRange(0, 3).Draw(t, "ckind") {
	case 0: // independent aimed values
		lab = "gen=independent"
		for i := 0; i < n; i++ {
			f, _ := genValue(t, bin)
			vals = append(vals, f)
		}
	case 1, 2: // a cluster spread over a few prefixes around a common centre
		lab = "gen=cluster"
		c := rapid.IntRange(-16, 16).Draw(t, "centre")
		spread := rapid.IntRange(1, 8).Draw(t, "spread")
		for i := 0; i < n; i++ {
			vals = append(vals, genSign(t)*genLogUniform(t, c-spread, c+spread, "cv"))
		}
	default: // smallest value aimed at a threshold, the others larger
		lab = "gen=aimed_min"
		base, _ := genValue(t, bin)
		vals = append(vals, base)
		for i := 1; i < n; i++ {
			vals = append(vals, genSign(t)*math.Abs(base)*genLogUniform(t, 0, 9, "mul"))
		}
	}
	// zeros and duplicates
	for i := range vals {
		switch rapid.IntRange(0, 9).Draw(t, "zd") {
		case 0:
			vals[i] = math.Copysign(0, genSign(t))
		case 1:
			vals[i] = vals[rapid.IntRange(0, len(vals)-1).Draw(t, "dup")]
		case 2:
			vals[i] = -vals[rapid.IntRange(0, len(vals)-1).Draw(t, "dupneg")]
		}
	}
	// random position of the minimum: rotate
	k := rapid.IntRange(0, len(vals)-1).Draw(t, "rot")
	vals = append(vals[k:], vals[:k]...)
	bits := make([]string, len(vals))
	for i, f := range vals {
		if math.IsInf(f, 0) || math.IsNaN(f) {
			f = math.MaxFloat64
		}
		if !vcase.KnownListed(findingOverflow) {
			for math.Abs(f) > commonMax {
				f /= 1e20
			}
		}
		bits[i] = hexBits(f)
	}
	return Case{Kind: "common", Class: cn, Bits: bits, Thr: lab}
}

var unitComponents = []string{"B", "MB", "bytes", "B", "MB", "bytes", "ns", "sec", "op", "s", "KB", "GB", "b", "Bytes", "byte", "BB", "MBs", "mB", "Bs",
	"allocs", "x", "µs", "MiB", "bytesx", "B2", "1", "Bytes", "kB", "BYTES", "M", "req",
	// letters whose UTF-8 encoding contains the bytes 0x85/0xA0 (Latin-1 NEL/NBSP) glued to a bytes spelling, and real Unicode separators
	"àB", "ÅMB", "Πbytes", "内B", "†B", "Bà", "éB", "àbytes", "B\u00a0", "x\u00a0B", "x\u0085MB", "\u2003bytes"}
var unitSeparators = []string{"/", "/", "/", "*", "*", "-", "-", " ", "\t", "//", "*/", "/*", " / ", " * ", " ", " ", "\n", "/-", "-/", "*-", "-*", "/ ", " /"}

func GenClassOf(t *rapid.T) Case {
	var b strings.Builder
	lab := "gen=grammar"
	switch rapid.IntRange(0, 9).Draw(t, "ukind") {
	case 0: // soup over the relevant alphabet
		lab = "gen=soup"
		b.WriteString(rapid.StringMatching(`[BMbytes/*\- ]{0,12}`).Draw(t, "soup"))
	case 1: // the units the testing package and benchmarks really emit
		lab = "gen=real"
		b.WriteString(rapid.SampledFrom([]string{"ns/op", "B/op", "allocs/op", "MB/s", "B/s", "sec/op", "bytes", "bytes/op", "ns/B", "ns/MB", "op/B",
			"heap-bytes", "peak-RSS-bytes", "B", "MB", "", "sec", "ns", "req/s", "GC-bytes/op", "ns/GC", "B*sec", "sec/B*B", "B/B", "MB/MB", "user-ns/op", "p99-ns", "sec/bytes"}).Draw(t, "real"))
	default:
		if rapid.IntRange(0, 4).Draw(t, "lead") == 0 {
			b.WriteString(rapid.SampledFrom(unitSeparators).Draw(t, "leadsep"))
		}
		n := rapid.IntRange(0, 5).Draw(t, "ncomp")
		for i := 0; i < n; i++ {
			if i > 0 {
				b.WriteString(rapid.SampledFrom(unitSeparators).Draw(t, "sep"))
			}
			if rapid.IntRange(0, 7).Draw(t, "rnd") == 0 {
				b.WriteString(rapid.StringMatching(`[A-Za-z0-9µ%]{1,5}`).Draw(t, "word"))
			} else {
				b.WriteString(rapid.SampledFrom(unitComponents).Draw(t, "comp"))
			}
		}
		if rapid.IntRange(0, 4).Draw(t, "trail") == 0 {
			b.WriteString(rapid.SampledFrom(unitSeparators).Draw(t, "trailsep"))
		}
	}
	u := b.String()
	if !utf8.ValidString(u) {
		u = "B/op"
	}
	return Case{Kind: "classof", Unit: u, Thr: lab}
}

func GenNoOp(t *rapid.T) Case {
	var f float64
	lab := ""
	switch rapid.IntRange(0, 6).Draw(t, "nkind") {
	case 0, 1:
		f, lab = genFiniteBits(t, "bits"), "gen=bits"
	case 2:
		f, lab = genSign(t)*genLogUniform(t, -20, 20, "lu"), "gen=loguniform"
	case 3: // short decimals
		d := rapid.IntRange(1, 17).Draw(t, "nd")
		m := rapid.Uint64Range(1, uint64(math.Pow(10, float64(d)))-1).Draw(t, "m")
		e := rapid.IntRange(-30, 30).Draw(t, "e")
		f, _ = strconv.ParseFloat(fmt.Sprintf("%de%d", m, e), 64)
		f, lab = genSign(t)*f, "gen=short_decimal"
	case 4: // integers and powers of two (asymmetric neighbours)
		if rapid.Bool().Draw(t, "pow2") {
			f = math.Ldexp(1, rapid.IntRange(-1074, 1023).Draw(t, "p2"))
		} else {
			f = float64(rapid.Int64().Draw(t, "i64"))
		}
		f, lab = genSign(t)*f, "gen=int_pow2"
	case 5:
		f, lab = genValue(t, false)
		lab = "gen=scale_values"
	default: // subnormals, extremes, zeros
		switch rapid.IntRange(0, 2).Draw(t, "ext") {
		case 0:
			f = math.Float64frombits(rapid.Uint64Range(0, 1<<52+8).Draw(t, "subn"))
		case 1:
			f = math.Float64frombits(math.Float64bits(math.MaxFloat64) - uint64(rapid.IntRange(0, 8).Draw(t, "max")))
		default:
			f = 0
		}
		f, lab = math.Copysign(f, genSign(t)), "gen=extreme"
	}
	return Case{Kind: "noop", Bits: []string{hexBits(f)}, Thr: lab}
}

func TestC10Scale(t *testing.T)   { vcase.Run(t, "C10", "scale", GenScale, Check) }
func TestC10Common(t *testing.T)  { vcase.Run(t, "C10", "common", GenCommon, Check) }
func TestC10ClassOf(t *testing.T) { vcase.Run(t, "C10", "classof", GenClassOf, Check) }
func TestC10NoOp(t *testing.T)    { vcase.Run(t, "C10", "noop", GenNoOp, Check) }

// FuzzC10 is the native-fuzzing entry (thorough tier): (bits, unit, class).
func FuzzC10(f *testing.F) {
	f.Add(math.Float64bits(999.95), "MB/s", false)
	f.Add(math.Float64bits(1023.95*1024), "ns/B", true)
	f.Add(math.Float64bits(9.9995e-3), "bytes/op", false)
	f.Add(math.Float64bits(-9.9995e-12), "B-sec * x", true)
	f.Fuzz(func(t *testing.T, bits uint64, unit string, bin bool) {
		x := math.Float64frombits(bits)
		var cases []Case
		if !math.IsNaN(x) && !math.IsInf(x, 0) {
			cn := "Decimal"
			if bin {
				cn = "Binary"
			}
			cases = append(cases, Case{Kind: "scale", Class: cn, Bits: []string{hexBits(x)}, Thr: "gen=fuzz"},
				Case{Kind: "noop", Bits: []string{hexBits(x)}, Thr: "gen=fuzz"})
		}
		if utf8.ValidString(unit) {
			cases = append(cases, Case{Kind: "classof", Unit: unit, Thr: "gen=fuzz"})
		}
		for _, c := range cases {
			if v := vcase.Guard(Check, c); v.Violation != "" {
				t.Fatalf("VERIF-VIOLATION property=C10 %s\ncase: %+v", v.Violation, c)
			}
		}
	})
}
