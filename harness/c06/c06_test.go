// Package c06: filters keep exactly the measurements their boolean meaning
// denotes. Oracle: reference evaluator over generated expression trees.
package c06

import (
	"fmt"
	"reflect"
	"strconv"
	"strings"
	"testing"

	"golang.org/x/perf/benchfmt"
	"golang.org/x/perf/benchproc"
	"pgregory.net/rapid"
	"verif/harness/lib/refbench"
	"verif/harness/lib/refexpr"
	"verif/harness/lib/vcase"
)

type Cfg struct {
	K, V string
	File bool
}

type Case struct {
	Tree   *refexpr.Node
	Text   string // the tree rendered to concrete syntax
	Name   string
	Config []Cfg
	Units  []string // written unit of each measurement
	// fixed-list projection applied together with the filter ("" = none)
	FixedKey  string
	FixedVals []string
	FixedText string
	// a second fixed list in the same projection expression ("" = none)
	Fixed2Key  string
	Fixed2Vals []string
	// ProjectFirst: the result is projected through the fixed-list projection before it is filtered
	ProjectFirst bool
	// FailedParse, if non-empty, is a projection expression with a fixed list followed by an
	// invalid field; it is offered to Parse with the filter first and must be rejected
	// without changing what the filter keeps.
	FailedParse string
}

var unitPool = []string{"ns/op", "MB/s", "B/op", "allocs/op", "sec/op", "widgets", "B/s"}

func build(c Case) (*benchfmt.Result, *refexpr.Result) {
	res := &benchfmt.Result{Name: benchfmt.Name(c.Name), Iters: 1}
	ref := &refexpr.Result{Name: c.Name, Config: map[string]string{}}
	for _, kv := range c.Config {
		if _, dup := ref.Config[kv.K]; dup || kv.V == "" || kv.K == "" {
			continue
		}
		res.Config = append(res.Config, benchfmt.Config{Key: kv.K, Value: []byte(kv.V), File: kv.File})
		ref.Config[kv.K] = kv.V
	}
	// measurements: parse a line so that values are built exactly as the Reader builds them
	var sb strings.Builder
	sb.WriteString("BenchmarkX 1")
	for i, u := range c.Units {
		fmt.Fprintf(&sb, " %d %s", (i+1)%3, u) // (every third measurement reads 0: still a measurement in its unit)
	}
	rd := benchfmt.NewReader(strings.NewReader(sb.String()+"\n"), "x")
	for rd.Scan() {
		if r, ok := rd.Result().(*benchfmt.Result); ok {
			res.Values = append([]benchfmt.Value(nil), r.Values...)
		}
	}
	// (the reference names of a measurement come from the written unit, not from what the
	// reader made of it)
	for i, u := range c.Units {
		mv := refbench.MakeValue(float64((i+1)%3), u)
		ref.Meas = append(ref.Meas, refexpr.Meas{Unit: mv.Unit, OrigUnit: mv.OrigUnit})
	}
	return res, ref
}

func Check(c Case) (v vcase.Verdict) {
	if c.Tree == nil || len(c.Units) == 0 {
		return
	}
	res, ref := build(c)
	n := len(res.Values)
	if n != len(c.Units) {
		v.Failf("VERIF: could not build %d measurements (%d)", len(c.Units), n)
		return
	}
	f, err := benchproc.NewFilter(c.Text)
	if err != nil {
		v.Failf("NewFilter(%q) failed for a grammatical expression: %v", c.Text, err)
		return
	}
	if c.FailedParse != "" {
		var pp0 benchproc.ProjectionParser
		if _, err := pp0.Parse(c.FailedParse, f); err == nil {
			v.Failf("Parse(%q) succeeded", c.FailedParse)
			return
		}
		v.Label("after_failed_parse")
	}
	var st refexpr.Stats
	c.Tree.Stats(&st)
	fixedOK := true
	if c.FixedKey != "" {
		var pp benchproc.ProjectionParser
		proj, err := pp.Parse(c.FixedText, f)
		if err != nil {
			v.Failf("Parse(%q): %v", c.FixedText, err)
			return
		}
		if c.ProjectFirst {
			// the result is projected before (regardless of) being filtered, e.g. to tally what a
			// filter rejects; the filter's meaning must not depend on what was projected so far
			k1 := proj.Project(res)
			if k2 := proj.Project(res); k1 != k2 {
				v.Failf("projection %q: the same result projected twice gives different keys", c.FixedText)
				return
			}
			v.Label("projected_before_filtering")
		}
		fixedOK = fixedPass(c, ref)
		v.Label("fixed_list")
		if c.Fixed2Key != "" {
			v.Label("two_fixed_lists")
		}
	}
	want := make([]bool, n)
	all, any := true, false
	for i := range want {
		want[i] = fixedOK && refexpr.Eval(c.Tree, ref, i)
		all = all && want[i]
		any = any || want[i]
	}
	before := res.Clone()
	m, err := f.Match(res)
	if err != nil {
		v.Failf("Match error %v", err)
		return
	}
	if n > 1 {
		// the filter goes on to another result of the same size (the measurements in reverse
		// order) before the first Match is looked at: each Match describes its own result
		c2 := c
		c2.Units = make([]string, n)
		for i, u := range c.Units {
			c2.Units[n-1-i] = u
		}
		res2, ref2 := build(c2)
		m2, err := f.Match(res2)
		if err != nil || len(res2.Values) != n {
			v.Failf("Match error %v", err)
			return
		}
		for i := 0; i < n; i++ {
			if w := fixedOK && refexpr.Eval(c.Tree, ref2, i); m2.Test(i) != w {
				v.Failf("filter %q on %s, measurements in reverse order: measurement %d (%s) matched=%v, reference %v", c.Text, describe(c), i, c2.Units[i], m2.Test(i), w)
				return
			}
		}
	}
	if !reflect.DeepEqual(before.Values, res.Values) || !cfgEq(before.Config, res.Config) || string(before.Name) != string(res.Name) {
		v.Failf("Match modified the result")
		return
	}
	for i := range want {
		if m.Test(i) != want[i] {
			v.Failf("filter %q on %s: measurement %d (%s) matched=%v, reference %v", c.Text, describe(c), i, c.Units[i], m.Test(i), want[i])
			return
		}
	}
	if m.Test(-1) || m.Test(n) {
		v.Failf("Test out of range returned true")
		return
	}
	if m.All() != all || m.Any() != any {
		v.Failf("filter %q on %s: All=%v Any=%v, reference %v %v (n=%d)", c.Text, describe(c), m.All(), m.Any(), all, any, n)
		return
	}
	cl := res.Clone()
	keep, err := f.Apply(cl)
	var wantVals []benchfmt.Value
	for i, w := range want {
		if w {
			wantVals = append(wantVals, res.Values[i])
		}
	}
	if keep != any || err != nil {
		v.Failf("filter %q: Apply returned %v, %v; reference any=%v", c.Text, keep, err, any)
		return
	}
	if len(cl.Values) != len(wantVals) {
		v.Failf("filter %q on %s: Apply kept %d measurements, reference %d", c.Text, describe(c), len(cl.Values), len(wantVals))
		return
	}
	for i := range wantVals {
		if cl.Values[i] != wantVals[i] {
			v.Failf("filter %q: Apply kept %+v at %d, reference %+v", c.Text, cl.Values[i], i, wantVals[i])
			return
		}
	}
	if string(cl.Name) != c.Name || !cfgEq(cl.Config, before.Config) {
		v.Failf("Apply modified name or config")
		return
	}
	// labels and non-triviality
	if n > 32 {
		v.Label("n>32")
	}
	if n > 64 {
		v.Label("n>64")
	}
	if n%32 == 0 {
		v.Label("n%32==0")
	}
	if n >= 32 {
		rejected := 0
		for _, w := range want {
			if !w {
				rejected++
			}
		}
		if rejected == 1 || rejected == n-1 {
			v.Label("single_bit_mask")
		}
	}
	// The same Filter on the same Result object whose name was rewritten in place (a caller
	// that recycles one Result, as the reader does): the verdict follows the new name.
	if alt := altName(c.Name); alt != c.Name && len(alt) == len(c.Name) && fixedOK == (c.FixedKey == "" || fixedOK) {
		c2 := c
		c2.Name = alt
		_, ref2 := build(c2)
		f.Match(res) // (the last thing the filter saw is this very object)
		res.Name = append(res.Name[:0], alt...)
		fixedOK2 := c.FixedKey == "" || fixedPass(c, ref2)
		m2, _ := f.Match(res)
		for i := 0; i < n; i++ {
			if w := fixedOK2 && refexpr.Eval(c.Tree, ref2, i); m2.Test(i) != w {
				v.Failf("filter %q: after the result's name was rewritten in place from %q to %q measurement %d matched=%v, reference %v", c.Text, c.Name, alt, i, m2.Test(i), w)
				return
			}
		}
		v.Label("name_rewritten_in_place")
	}
	if st.Nots > 0 && st.UnitLeaves > 0 {
		v.Label("not_with_mask")
	}
	if st.UnitLeaves > 0 && st.WholeLeaves > 0 {
		v.Label("mask_and_bool")
	}
	if st.Regexps > 0 {
		v.Label("regexp")
	}
	if st.Lists > 0 {
		v.Label("value_list")
	}
	mixed := any && !all
	if mixed {
		v.Label("partial_match")
	}
	v.NonTrivial = st.Ops >= 2 && st.UnitLeaves > 0 && st.WholeLeaves > 0 && mixed
	return
}

// fixedPass reports whether the result's values are in every fixed list of the case.
func fixedPass(c Case, ref *refexpr.Result) bool {
	in := func(key string, vals []string) bool {
		val := refexpr.Extract(ref, key)
		for _, x := range vals {
			if x == val {
				return true
			}
		}
		return false
	}
	return in(c.FixedKey, c.FixedVals) && (c.Fixed2Key == "" || in(c.Fixed2Key, c.Fixed2Vals))
}

// altName returns a name of the same length with the sub-name parts in another
// order, or with a value spelt backwards (the name itself when neither applies).
func altName(name string) string {
	body, tail := name, ""
	if i := strings.LastIndexByte(name, '-'); i > strings.LastIndexByte(name, '/') && i >= 0 {
		body, tail = name[:i], name[i:]
	}
	parts := strings.Split(body, "/")
	if len(parts) >= 3 && parts[1] != parts[2] {
		parts[1], parts[2] = parts[2], parts[1]
		return strings.Join(parts, "/") + tail
	}
	if len(parts) == 2 {
		if eq := strings.IndexByte(parts[1], '='); eq >= 0 && eq+2 < len(parts[1]) {
			val := []byte(parts[1][eq+1:])
			for i, j := 0, len(val)-1; i < j; i, j = i+1, j-1 {
				val[i], val[j] = val[j], val[i]
			}
			return parts[0] + "/" + parts[1][:eq+1] + string(val) + tail
		}
	}
	return name
}

func cfgEq(a, b []benchfmt.Config) bool {
	if len(a) != len(b) {
		return false
	}
	for i := range a {
		if a[i].Key != b[i].Key || string(a[i].Value) != string(b[i].Value) || a[i].File != b[i].File {
			return false
		}
	}
	return true
}

func describe(c Case) string {
	return fmt.Sprintf("name %q config %v", c.Name, c.Config)
}

// ---------------------------------------------------------------------------

var names = []string{"Foo", "Foo/size=4k", "Foo/size=4k/kind=a-8", "Bar-16", "Bar/gomaxprocs=2", "X/a=/b=1", "é/k=v", "Foo/size=1M-4", "Foo-9", "Foo/size=4k-192", "Bar/kind=big-endian/size=9-96", "Foo/gomaxprocs=2-8",
	// empty base name (sub-benchmarks of a function called just "Benchmark"), values containing '='
	"/size=4k-8", "/kind=a", "/", "Foo/size=x=1/kind=a=b-4",
	// a dash that is not followed by digits belongs to the name
	"Parse/kind=-", "Trim-", "Foo/kind=a--8", "X/size=-/kind=-", "Foo/size=4k-", "Bar--", "Foo/kind=-8"}
var cfgKeys = []string{"goos", "pkg", "a", ".file", "note", "cpu/model", "a/size"}
var cfgVals = []string{"linux", "darwin", "x y", "1", "p/q", "é", "-v", "*", "a:b", "(x)", "AND", `C:\`, `a\b\`, `\`, `q"t`}
var safeRegexps = []string{"^F", "oo$", "4k|1M", "^$", ".", "[a-f]+", "^(linux|darwin)$", "s.c", "B", "^[0-9]+$", "x y", "^ns", "^MB", "ns.op$", "^sec", "^9", "9",
	// a delimiter inside a class, a group or behind a backslash does not end the expression; an unmatched ']' is an ordinary character
	"[/]op", "(s/o|B/o)p$", `c\/op`, "x][/]y", "^[^/]*$", "^[[:alpha:]/]+$",
	// a parenthesis inside a class is an ordinary character, not a group
	"[(]x[)]", "^F[(o]", "[()]", "^[^(]+$", "[)]", `\(x\)`, "[(]"}

func keysFor(name string) []string {
	ks := []string{".name", ".fullname", "/gomaxprocs", "/size", "/kind", "/absent"}
	return append(ks, cfgKeys...)
}

type genCtx struct {
	ref *refexpr.Result
}

func genTerm(t *rapid.T, g *genCtx, key string) refexpr.Term {
	if vcase.OneIn(t, 5, "re") {
		return refexpr.Term{Re: rapid.SampledFrom(safeRegexps).Draw(t, "regexp")}
	}
	// draw literals mostly from the result itself so that about half the leaves are true
	switch rapid.IntRange(0, 3).Draw(t, "litsrc") {
	case 0, 1:
		if key == ".unit" {
			m := g.ref.Meas[rapid.IntRange(0, len(g.ref.Meas)-1).Draw(t, "mu")]
			if m.OrigUnit != "" && rapid.Bool().Draw(t, "orig") {
				return refexpr.Term{Lit: m.OrigUnit}
			}
			return refexpr.Term{Lit: m.Unit}
		}
		return refexpr.Term{Lit: refexpr.Extract(g.ref, key)}
	case 2:
		if key == ".unit" {
			return refexpr.Term{Lit: rapid.SampledFrom(unitPool).Draw(t, "unitlit")}
		}
		return refexpr.Term{Lit: rapid.SampledFrom(cfgVals).Draw(t, "poollit")}
	}
	return refexpr.Term{Lit: rapid.SampledFrom([]string{"", "zz", "4k", "Foo", "8", "16", "a"}).Draw(t, "misc")}
}

func genLeaf(t *rapid.T, g *genCtx) *refexpr.Node {
	var key string
	if rapid.IntRange(0, 2).Draw(t, "unitleaf") == 0 {
		key = ".unit"
	} else {
		key = rapid.SampledFrom(keysFor(g.ref.Name)).Draw(t, "key")
	}
	if vcase.OneIn(t, 4, "list") {
		n := rapid.IntRange(1, 3).Draw(t, "nlist")
		node := &refexpr.Node{Op: "list", Key: key}
		for i := 0; i < n; i++ {
			node.Vals = append(node.Vals, genTerm(t, g, key))
		}
		return node
	}
	return &refexpr.Node{Op: "match", Key: key, Vals: []refexpr.Term{genTerm(t, g, key)}}
}

func genTree(t *rapid.T, g *genCtx, depth int) *refexpr.Node {
	if depth <= 0 || rapid.IntRange(0, 3).Draw(t, "leaf") == 0 {
		if vcase.OneIn(t, 10, "star") {
			return &refexpr.Node{Op: "true"}
		}
		return genLeaf(t, g)
	}
	switch rapid.IntRange(0, 4).Draw(t, "op") {
	case 0:
		return &refexpr.Node{Op: "not", Kids: []*refexpr.Node{genTree(t, g, depth-1)}}
	case 1, 2:
		n := rapid.IntRange(2, 3).Draw(t, "nand")
		node := &refexpr.Node{Op: "and"}
		for i := 0; i < n; i++ {
			node.Kids = append(node.Kids, genTree(t, g, depth-1))
		}
		return node
	default:
		n := rapid.IntRange(2, 3).Draw(t, "nor")
		node := &refexpr.Node{Op: "or"}
		for i := 0; i < n; i++ {
			node.Kids = append(node.Kids, genTree(t, g, depth-1))
		}
		return node
	}
}

func Gen(t *rapid.T) Case {
	var c Case
	c.Name = rapid.SampledFrom(names).Draw(t, "name")
	nc := rapid.IntRange(0, 4).Draw(t, "ncfg")
	for i := 0; i < nc; i++ {
		k := rapid.SampledFrom(cfgKeys).Draw(t, "ck")
		c.Config = append(c.Config, Cfg{K: k, V: rapid.SampledFrom(cfgVals).Draw(t, "cv"), File: k[0] != '.'})
	}
	var n int
	if rapid.IntRange(0, 2).Draw(t, "big") == 0 {
		n = rapid.SampledFrom([]int{31, 32, 33, 63, 64, 65, 96, 100}).Draw(t, "nbig")
	} else {
		n = rapid.IntRange(1, 6).Draw(t, "nsmall")
	}
	for i := 0; i < n; i++ {
		c.Units = append(c.Units, rapid.SampledFrom(unitPool).Draw(t, "unit"))
	}
	if vcase.OneIn(t, 5, "bitcase") {
		// single measurements at mask-word boundaries: every unit distinct, the filter
		// selects (or rejects) one or two positions
		n = rapid.SampledFrom([]int{32, 33, 63, 64, 65, 96, 100}).Draw(t, "nbit")
		c.Units = c.Units[:0]
		for i := 0; i < n; i++ {
			c.Units = append(c.Units, "u"+strconv.Itoa(i))
		}
		pos := func(label string) int {
			j := rapid.SampledFrom([]int{0, 1, 30, 31, 32, 33, 62, 63, 64, 94, 95, 96, n - 1}).Draw(t, label)
			if j >= n {
				j = n - 1
			}
			return j
		}
		leaf := &refexpr.Node{Op: "match", Key: ".unit", Vals: []refexpr.Term{{Lit: "u" + strconv.Itoa(pos("j1"))}}}
		switch rapid.IntRange(0, 6).Draw(t, "bitform") {
		case 4:
			// a conjunction whose only hits lie in a later mask word
			c.Tree = &refexpr.Node{Op: "and", Kids: []*refexpr.Node{{Op: "match", Key: ".name", Vals: []refexpr.Term{{Lit: refexprBase(c.Name)}}}, leaf}}
		case 5:
			c.Tree = &refexpr.Node{Op: "and", Kids: []*refexpr.Node{leaf, {Op: "true"}}}
		case 6:
			c.Tree = &refexpr.Node{Op: "not", Kids: []*refexpr.Node{{Op: "and", Kids: []*refexpr.Node{{Op: "match", Key: ".name", Vals: []refexpr.Term{{Lit: refexprBase(c.Name)}}}, leaf}}}}
		case 0:
			c.Tree = leaf
		case 1:
			c.Tree = &refexpr.Node{Op: "not", Kids: []*refexpr.Node{leaf}}
		case 2:
			c.Tree = &refexpr.Node{Op: "not", Kids: []*refexpr.Node{{Op: "list", Key: ".unit", Vals: []refexpr.Term{{Lit: "u" + strconv.Itoa(pos("j2"))}, {Lit: "u" + strconv.Itoa(pos("j3"))}}}}}
		default:
			c.Tree = &refexpr.Node{Op: "and", Kids: []*refexpr.Node{{Op: "not", Kids: []*refexpr.Node{leaf}}, {Op: "match", Key: ".name", Vals: []refexpr.Term{{Lit: refexprBase(c.Name)}}}}}
		}
		c.Text = refexpr.Print(t, c.Tree)
		return c
	}
	_, ref := build(c)
	g := &genCtx{ref}
	c.Tree = genTree(t, g, rapid.IntRange(1, 5).Draw(t, "depth"))
	c.Text = refexpr.Print(t, c.Tree)
	if vcase.OneIn(t, 8, "failedparse") {
		c.FailedParse = rapid.SampledFrom([]string{"goos@(zz yy),.unit", ".name@(Nope),pkg@bogus", "/size@(none) .config@(a b)", "a@(q),k@", ".fullname@(x y),(", `goos@(zz),"`}).Draw(t, "fp")
	}
	if vcase.OneIn(t, 6, "fixed") {
		c.FixedKey = rapid.SampledFrom([]string{".name", "/size", "goos", "/gomaxprocs", ".fullname"}).Draw(t, "fk")
		nv := rapid.IntRange(1, 3).Draw(t, "nfv")
		var ws []string
		for i := 0; i < nv; i++ {
			var x string
			if rapid.Bool().Draw(t, "fvhit") {
				x = refexpr.Extract(ref, c.FixedKey)
			} else {
				x = rapid.SampledFrom([]string{"4k", "Foo", "linux", "8", "zz", ""}).Draw(t, "fv")
			}
			c.FixedVals = append(c.FixedVals, x)
			ws = append(ws, strconv.Quote(x))
		}
		c.FixedText = strconv.Quote(c.FixedKey) + "@(" + strings.Join(ws, " ") + ")"
		if rapid.Bool().Draw(t, "fixed2") {
			// a second fixed list on another key of the same expression: both must hold
			c.Fixed2Key = rapid.SampledFrom([]string{"/kind", "pkg", "a", "note"}).Draw(t, "fk2")
			var ws2 []string
			for i := rapid.IntRange(1, 2).Draw(t, "nfv2"); i > 0; i-- {
				x := refexpr.Extract(ref, c.Fixed2Key)
				if !rapid.Bool().Draw(t, "fv2hit") {
					x = rapid.SampledFrom([]string{"a", "linux", "1", "zz", ""}).Draw(t, "fv2")
				}
				c.Fixed2Vals = append(c.Fixed2Vals, x)
				ws2 = append(ws2, strconv.Quote(x))
			}
			second := strconv.Quote(c.Fixed2Key) + "@(" + strings.Join(ws2, " ") + ")"
			if rapid.Bool().Draw(t, "fixed2first") {
				c.FixedText = second + rapid.SampledFrom([]string{",", " ", " , "}).Draw(t, "fsep") + c.FixedText
			} else {
				c.FixedText += rapid.SampledFrom([]string{",", " ", " , "}).Draw(t, "fsep") + second
			}
		}
		c.ProjectFirst = rapid.Bool().Draw(t, "projectfirst")
	}
	return c
}

func refexprBase(name string) string {
	return refexpr.Extract(&refexpr.Result{Name: name}, ".name")
}

func TestC06Rapid(t *testing.T) { vcase.Run(t, "C06", "rapid", Gen, Check) }
