package db

// C19, upload listing across days: ListUploads reports, newest upload first
// and limited as requested, every upload with at least one matching record.
// Compiled into package db so that the package clock `now` can be bound:
// "newest first" must hold across UTC days, not only within one.

import (
	"context"
	"fmt"
	"path/filepath"
	"testing"
	"time"

	_ "github.com/mattn/go-sqlite3"
	"golang.org/x/perf/storage/benchfmt"
	"pgregory.net/rapid"
	"verif/harness/lib/vcase"
)

type C19Up struct {
	AdvHours int   // hours the clock advances before this upload is created
	Kinds    []int // one record per entry, labelled kind:<k>
	Commit   bool  // false: aborted (must never be listed)
}

type C19ListCase struct {
	Start int64
	Ups   []C19Up
	Query string // "" or "kind:<k>"
	Limit int
}

func c19ListCheck(c C19ListCase) (v vcase.Verdict) {
	dir, rm := vcase.ScratchDir("c19list-")
	defer rm()
	d, err := OpenSQL("sqlite3", "file:"+filepath.Join(dir, "l.sqlite")+"?_foreign_keys=1&_sync=0")
	if err != nil {
		v.Failf("VERIF-BROKEN %v", err)
		return
	}
	defer d.Close()
	cur := c.Start
	saved := now
	now = func() time.Time { return time.Unix(cur, 0).UTC() }
	defer func() { now = saved }()

	type up struct {
		id     string
		counts map[string]int // kind label -> number of records (distinct name labels: no coalescing)
		total  int
	}
	var ups []up // creation order, committed with >= 1 record only
	days := map[string]bool{}
	for i, u := range c.Ups {
		cur += int64(u.AdvHours) * 3600
		nu, err := d.NewUpload(context.Background())
		if err != nil {
			v.Failf("NewUpload: %v", err)
			return
		}
		rec := up{id: nu.ID, counts: map[string]int{}}
		for j, k := range u.Kinds {
			r := &benchfmt.Result{
				Labels:     benchfmt.Labels{"upload": nu.ID, "kind": fmt.Sprint(k)},
				NameLabels: benchfmt.Labels{"name": fmt.Sprintf("N%d_%d", i, j)},
				Content:    fmt.Sprintf("BenchmarkN%d_%d 1 %d ns/op", i, j, j+1),
			}
			if err := nu.InsertRecord(r); err != nil {
				v.Failf("InsertRecord: %v", err)
				return
			}
			rec.counts[fmt.Sprint(k)]++
			rec.total++
		}
		if u.Commit {
			if err := nu.Commit(); err != nil {
				v.Failf("Commit: %v", err)
				return
			}
			if rec.total > 0 {
				ups = append(ups, rec)
				days[nu.ID[:8]] = true
			}
		} else if err := nu.Abort(); err != nil {
			v.Failf("Abort: %v", err)
			return
		}
	}
	// expected listing: newest first, only uploads with matching records
	type row struct {
		id    string
		count int
	}
	var want []row
	for i := len(ups) - 1; i >= 0; i-- {
		n := ups[i].total
		if c.Query != "" {
			n = ups[i].counts[c.Query[len("kind:"):]]
		}
		if n > 0 {
			want = append(want, row{ups[i].id, n})
		}
	}
	if c.Limit > 0 && len(want) > c.Limit {
		want = want[:c.Limit]
	}
	ul := d.ListUploads(c.Query, nil, c.Limit)
	defer ul.Close()
	var got []row
	for ul.Next() {
		info := ul.Info()
		got = append(got, row{info.UploadID, info.Count})
	}
	if err := ul.Err(); err != nil {
		v.Failf("ListUploads(%q, nil, %d): %v", c.Query, c.Limit, err)
		return
	}
	if fmt.Sprint(got) != fmt.Sprint(want) {
		v.Failf("ListUploads(%q, nil, %d) = %v, want %v (newest first; uploads in creation order: %v)", c.Query, c.Limit, got, want, ups)
		return
	}
	if len(days) >= 2 {
		v.Label("spans_days")
	}
	if c.Limit > 0 && c.Limit < len(ups) {
		v.Label("limit_truncates")
	}
	if c.Query != "" {
		v.Label("with_query")
	}
	v.NonTrivial = len(ups) >= 2 && len(days) >= 2
	return
}

func c19ListGen(t *rapid.T) C19ListCase {
	c := C19ListCase{Start: 1490000000 + int64(rapid.IntRange(0, 86399).Draw(t, "startsec"))}
	n := rapid.IntRange(1, 8).Draw(t, "nups")
	for i := 0; i < n; i++ {
		u := C19Up{AdvHours: rapid.SampledFrom([]int{0, 0, 1, 5, 13, 24, 30}).Draw(t, "adv"), Commit: rapid.IntRange(0, 5).Draw(t, "commit") != 0}
		nr := rapid.IntRange(0, 4).Draw(t, "nrec")
		for j := 0; j < nr; j++ {
			u.Kinds = append(u.Kinds, rapid.IntRange(0, 2).Draw(t, "kind"))
		}
		c.Ups = append(c.Ups, u)
	}
	if rapid.Bool().Draw(t, "q") {
		c.Query = fmt.Sprintf("kind:%d", rapid.IntRange(0, 2).Draw(t, "qk"))
	}
	c.Limit = rapid.SampledFrom([]int{0, 0, 1, 2, 3, 10}).Draw(t, "limit")
	return c
}

func TestC19ListOrder(t *testing.T) { vcase.Run(t, "C19", "listorder", c19ListGen, c19ListCheck) }
