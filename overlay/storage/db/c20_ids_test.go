package db

// C20, upload IDs: form YYYYMMDD.N with the UTC day of the (bound) clock,
// never reused, N increasing with creation order within a day, and pairwise
// distinct under concurrent creation. Compiled into package db so that the
// package clock `now` can be bound to generated instants.

import (
	"context"
	"fmt"
	"path/filepath"
	"regexp"
	"runtime"
	"sort"
	"strconv"
	"strings"
	"sync"
	"testing"
	"time"

	_ "github.com/mattn/go-sqlite3"
	"golang.org/x/perf/storage/benchfmt"
	"pgregory.net/rapid"
	"verif/harness/lib/vcase"
)

// C20Op is one step of a sequential history.
type C20Op struct {
	Op  string // "new", "insert", "commit", "abort"
	U   int    // which open upload (taken modulo the number of open uploads)
	Adv int64  // seconds the clock advances before the step (>= 0 unless the history has Skew)
}

// C20Hist is a sequential history on one database.
type C20Hist struct {
	Start   int64 // unix seconds of the first instant
	ZoneSec int   // the clock reports instants in a fixed zone with this offset (the day must still be the UTC day)
	// Skew: the clock may also step backwards (two instances sharing the database whose
	// clocks disagree, or a clock set back). Creating an upload may then be refused, but an
	// ID is still never handed out twice and committed uploads stay as they are.
	Skew bool
	Ops  []C20Op
}

var c20IDRE = regexp.MustCompile(`^(\d{8})\.([1-9]\d*)$`)

func c20UTCDay(sec int64) string {
	y, m, d := time.Unix(sec, 0).UTC().Date()
	return fmt.Sprintf("%04d%02d%02d", y, int(m), d)
}

// c20Open opens a fresh file-backed database. The sequential unit switches
// sqlite's fsync off (durability across power loss is not under test); the
// concurrent unit keeps it on, which widens the windows in which goroutines
// overlap.
func c20Open(prefix string, fsync bool) (*DB, func()) {
	dir, rm := vcase.ScratchDir(prefix)
	dsn := "file:" + filepath.Join(dir, "ids.sqlite") + "?_foreign_keys=1"
	if !fsync {
		dsn += "&_sync=0"
	}
	d, err := OpenSQL("sqlite3", dsn)
	if err != nil {
		rm()
		panic(fmt.Sprintf("cannot open database: %v", err))
	}
	return d, func() { d.Close(); rm() }
}

func c20Result(id string, i int) *benchfmt.Result {
	name := fmt.Sprintf("N%d", i)
	return &benchfmt.Result{
		Labels:     benchfmt.Labels{"upload": id, "k": "v"},
		NameLabels: benchfmt.Labels{"name": name},
		Content:    fmt.Sprintf("Benchmark%s 1 %d ns/op", name, i+1),
	}
}

// c20IDsOK checks form, distinctness and per-day order of ids (creation order).
func c20IDsOK(v *vcase.Verdict, ids []string, days []string) { c20IDsOK2(v, ids, days, true) }

func c20IDsOK2(v *vcase.Verdict, ids []string, days []string, monotone bool) {
	seen := map[string]int{}
	lastN := map[string]uint64{}
	for i, id := range ids {
		m := c20IDRE.FindStringSubmatch(id)
		if m == nil {
			v.Failf("upload %d got ID %q, not of the form YYYYMMDD.N", i, id)
			return
		}
		if days != nil && m[1] != days[i] {
			v.Failf("upload %d got ID %s but the UTC day of the clock was %s", i, id, days[i])
			return
		}
		if j, dup := seen[id]; dup {
			v.Failf("uploads %d and %d both got ID %s (all ids: %v)", j, i, id, ids)
			return
		}
		seen[id] = i
		n, _ := strconv.ParseUint(m[2], 10, 64)
		if p, ok := lastN[m[1]]; ok && n <= p && monotone {
			v.Failf("upload %d got ID %s after number %d was already used on that day (all ids: %v)", i, id, p, ids)
			return
		}
		lastN[m[1]] = n
	}
}

func c20CheckHist(c C20Hist) (v vcase.Verdict) {
	d, done := c20Open("c20ids-", false)
	defer done()
	cur := c.Start
	zone := time.FixedZone("c20", c.ZoneSec)
	saved := now
	now = func() time.Time { return time.Unix(cur, 0).In(zone) }
	defer func() { now = saved }()

	type open struct {
		u   *Upload
		idx int
		n   int
	}
	var opens []open
	var ids, days []string
	var committed []int   // creation indices of committed uploads with >= 1 record
	nrec := map[int]int{} // creation index -> records inserted before the commit
	aborted, midnights := 0, 0
	closeAll := func() {
		for _, o := range opens {
			o.u.Abort()
		}
		opens = nil
	}
	defer closeAll()
	for i, op := range c.Ops {
		if op.Adv < 0 && !c.Skew {
			v.Failf("malformed case")
			return
		}
		if op.Adv < 0 {
			v.Label("clock_steps_back")
		}
		if c20UTCDay(cur+op.Adv) != c20UTCDay(cur) && len(ids) > 0 {
			midnights++
		}
		cur += op.Adv
		switch op.Op {
		case "new":
			u, err := d.NewUpload(context.Background())
			if err != nil && c.Skew {
				v.Label("upload_refused_under_clock_skew")
				continue
			}
			if err != nil {
				v.Failf("step %d: NewUpload failed in a sequential history: %v (ids so far %v)", i, err, ids)
				return
			}
			opens = append(opens, open{u, len(ids), 0})
			ids = append(ids, u.ID)
			days = append(days, c20UTCDay(cur))
		case "insert", "commit", "abort":
			if len(opens) == 0 {
				continue
			}
			j := op.U % len(opens)
			if j < 0 {
				j = -j
			}
			o := &opens[j]
			switch op.Op {
			case "insert":
				if err := o.u.InsertRecord(c20Result(o.u.ID, o.n)); err != nil {
					v.Failf("step %d: InsertRecord failed: %v", i, err)
					return
				}
				o.n++
			case "commit":
				if err := o.u.Commit(); err != nil {
					v.Failf("step %d: Commit of %s failed in a sequential history: %v", i, o.u.ID, err)
					return
				}
				if o.n > 0 {
					committed = append(committed, o.idx)
					nrec[o.idx] = o.n
				}
				opens = append(opens[:j], opens[j+1:]...)
			case "abort":
				if err := o.u.Abort(); err != nil {
					v.Failf("step %d: Abort of %s failed: %v", i, o.u.ID, err)
					return
				}
				aborted++
				opens = append(opens[:j], opens[j+1:]...)
			}
		default:
			v.Failf("malformed case")
			return
		}
	}
	aborted += len(opens)
	closeAll()
	c20IDsOK2(&v, ids, days, !c.Skew)
	if v.Violation != "" {
		return
	}
	// every committed upload still has all its records (whatever was created, refused,
	// aborted or committed after it)
	for _, ci := range committed {
		q := d.Query("upload:" + ids[ci])
		got := 0
		for q.Next() {
			got++
		}
		err := q.Err()
		q.Close()
		if err != nil || got != nrec[ci] {
			v.Failf("committed upload %s has %d records at the end, %d were inserted (err %v; all ids %v)", ids[ci], got, nrec[ci], err, ids)
			return
		}
	}
	// Only committed uploads are listed, most recent first; aborted ones keep
	// their (burnt) ID.
	ul := d.ListUploads("", nil, 0)
	var listed []string
	for ul.Next() {
		listed = append(listed, ul.Info().UploadID)
	}
	if err := ul.Err(); err != nil {
		v.Failf("ListUploads failed: %v", err)
	}
	ul.Close()
	var want []string
	// most recent first = by (day, N) descending = reverse creation order
	for i := len(ids) - 1; i >= 0; i-- {
		for _, ci := range committed {
			if ci == i {
				want = append(want, ids[i])
			}
		}
	}
	if c.Skew {
		// creation order is not (day, N) order any more: compare as sets ordered by (day, N) descending
		key := func(id string) string {
			m := c20IDRE.FindStringSubmatch(id)
			return m[1] + fmt.Sprintf("%020s", m[2])
		}
		sort.Slice(want, func(a, b int) bool { return key(want[a]) > key(want[b]) })
	}
	if strings.Join(listed, " ") != strings.Join(want, " ") {
		v.Failf("ListUploads lists %v, want the committed uploads with records, most recent first: %v (all ids %v)", listed, want, ids)
		return
	}
	v.NonTrivial = midnights > 0 || aborted > 0
	if midnights > 0 {
		v.Label("crosses_utc_midnight")
	}
	if aborted > 0 {
		v.Label("has_aborted_upload")
	}
	if c.ZoneSec != 0 {
		v.Label("clock_in_non_utc_zone")
	}
	if len(ids) > 0 && midnights > 0 && aborted > 0 {
		v.Label("midnight_and_abort")
	}
	v.Label(fmt.Sprintf("uploads=%s", c20Bucket(len(ids))))
	perDay := map[string]int{}
	for _, dd := range days {
		perDay[dd]++
		if perDay[dd] == 10 {
			v.Label("ten_or_more_uploads_on_one_day")
		}
	}
	v.Sub = len(ids)
	return
}

func c20Bucket(n int) string {
	switch {
	case n == 0:
		return "0"
	case n <= 3:
		return "1-3"
	case n <= 8:
		return "4-8"
	}
	return "9+"
}

func c20GenHist(t *rapid.T) C20Hist {
	var c C20Hist
	// a midnight between 2001 and 2037, minus up to three hours
	day := rapid.Int64Range(11323, 24800).Draw(t, "day")
	back := rapid.SampledFrom([]int64{0, 1, 2, 59, 3600, 3 * 3600, 12 * 3600}).Draw(t, "back")
	c.Start = day*86400 - back
	c.ZoneSec = rapid.SampledFrom([]int{0, 0, 3600, -3600, 9 * 3600, -8 * 3600, 14 * 3600, -12 * 3600, 19800}).Draw(t, "zone")
	// one history in three stays within a few minutes (many uploads on one
	// day, numbers with several digits); the others jump across midnights
	sameDay := rapid.IntRange(0, 2).Draw(t, "sameday") == 0
	c.Skew = !sameDay && rapid.IntRange(0, 3).Draw(t, "skew") == 0
	n := rapid.IntRange(1, 40).Draw(t, "nops")
	for i := 0; i < n; i++ {
		op := rapid.SampledFrom([]string{"new", "new", "new", "insert", "insert", "commit", "commit", "abort"}).Draw(t, "op")
		var adv int64
		if sameDay {
			adv = rapid.SampledFrom([]int64{0, 0, 0, 1, 2, 60}).Draw(t, "adv")
		} else {
			adv = rapid.SampledFrom([]int64{0, 0, 0, 1, 1, 2, 60, 3599, 3600, 7200, 43200, 86399, 86400, 86401, 172800}).Draw(t, "adv")
		}
		if c.Skew && rapid.IntRange(0, 3).Draw(t, "stepback") == 0 {
			adv = rapid.SampledFrom([]int64{-1, -60, -3600, -43200, -86400, -86401, -172800}).Draw(t, "advback")
		}
		c.Ops = append(c.Ops, C20Op{Op: op, U: rapid.IntRange(0, 7).Draw(t, "u"), Adv: adv})
	}
	return c
}

func TestC20IDHistory(t *testing.T) {
	vcase.Run(t, "C20", "ids", c20GenHist, c20CheckHist)
}

// ---------------------------------------------------------------------------
// concurrent creation

// C20Worker is the script of one goroutine: for every entry one NewUpload,
// that many InsertRecord calls (entry/2), then Commit (even entry) or Abort (odd).
type C20Worker struct {
	Uploads []int
}

// C20Conc is one concurrent round on a shared file-backed database.
type C20Conc struct {
	Procs   int // GOMAXPROCS during the round
	Now     int64
	Prior   int // uploads created sequentially before the goroutines start
	Workers []C20Worker
}

func c20CheckConc(c C20Conc) (v vcase.Verdict) {
	if len(c.Workers) < 1 || c.Procs < 1 {
		v.Failf("malformed case")
		return
	}
	d, done := c20Open("c20conc-", true)
	defer done()
	saved := now
	at := time.Unix(c.Now, 0).UTC()
	now = func() time.Time { return at }
	defer func() { now = saved }()
	defer runtime.GOMAXPROCS(runtime.GOMAXPROCS(c.Procs))

	var all []string
	for i := 0; i < c.Prior; i++ {
		u, err := d.NewUpload(context.Background())
		if err != nil {
			v.Failf("sequential NewUpload %d failed: %v", i, err)
			return
		}
		all = append(all, u.ID)
		if err := u.Commit(); err != nil {
			v.Failf("sequential Commit failed: %v", err)
			return
		}
	}
	type result struct {
		ids       []string
		errs      []string
		duplicate string
	}
	res := make([]result, len(c.Workers))
	start := make(chan struct{})
	var wg sync.WaitGroup
	for w := range c.Workers {
		wg.Add(1)
		go func(w int) {
			defer wg.Done()
			r := &res[w]
			<-start
			for _, script := range c.Workers[w].Uploads {
				u, err := d.NewUpload(context.Background())
				if err != nil {
					r.errs = append(r.errs, err.Error())
					continue
				}
				r.ids = append(r.ids, u.ID)
				failed := false
				for i := 0; i < script/2 && !failed; i++ {
					if err := u.InsertRecord(c20Result(u.ID, i)); err != nil {
						r.errs = append(r.errs, err.Error())
						failed = true
					}
				}
				if failed || script%2 == 1 {
					u.Abort()
				} else if err := u.Commit(); err != nil {
					r.errs = append(r.errs, err.Error())
				}
			}
		}(w)
	}
	close(start)
	wg.Wait()

	day := c20UTCDay(c.Now)
	nerr, nids := 0, len(all)
	for w, r := range res {
		nids += len(r.ids)
		for _, e := range r.errs {
			nerr++
			// An ID that the database refuses as already present was produced twice.
			if strings.Contains(e, "UNIQUE constraint failed") || strings.Contains(e, "Duplicate entry") {
				v.Failf("worker %d: ID allocation produced an ID that already existed: %s", w, e)
				return
			}
		}
		// creation order inside one goroutine is known
		var days []string
		for range r.ids {
			days = append(days, day)
		}
		c20IDsOK(&v, r.ids, days)
		if v.Violation != "" {
			v.Violation = fmt.Sprintf("worker %d: %s", w, v.Violation)
			return
		}
		all = append(all, r.ids...)
	}
	seen := map[string]bool{}
	for _, id := range all {
		if seen[id] {
			v.Failf("ID %s was returned by two NewUpload calls (%d goroutines, all ids %v)", id, len(c.Workers), all)
			return
		}
		seen[id] = true
	}
	n, err := d.CountUploads()
	if err != nil {
		v.Failf("CountUploads failed after the round: %v", err)
		return
	}
	if n < nids {
		v.Failf("%d IDs were handed out but the Uploads table has only %d rows", nids, n)
		return
	}
	v.NonTrivial = len(c.Workers) >= 2 && nids-c.Prior >= 2
	v.Label(fmt.Sprintf("goroutines=%s", c20Bucket(len(c.Workers))))
	v.Label(fmt.Sprintf("procs=%d", c.Procs))
	if nerr > 0 {
		v.Label("some_calls_failed_with_lock_errors")
	} else {
		v.Label("no_call_failed")
	}
	v.Label("ids_returned=" + c20Bucket(nids-c.Prior))
	v.Sub = nids
	return
}

func c20GenConc(t *rapid.T) C20Conc {
	var c C20Conc
	c.Procs = rapid.SampledFrom([]int{1, 2, 4, 8, 16}).Draw(t, "procs")
	c.Now = rapid.Int64Range(11323, 24800).Draw(t, "day")*86400 + rapid.Int64Range(0, 86399).Draw(t, "sec")
	c.Prior = rapid.IntRange(0, 3).Draw(t, "prior")
	g := rapid.IntRange(2, 16).Draw(t, "goroutines")
	for i := 0; i < g; i++ {
		var w C20Worker
		n := rapid.IntRange(1, 4).Draw(t, "nuploads")
		for j := 0; j < n; j++ {
			w.Uploads = append(w.Uploads, rapid.IntRange(0, 7).Draw(t, "script"))
		}
		c.Workers = append(c.Workers, w)
	}
	return c
}

func TestC20IDConcurrent(t *testing.T) {
	vcase.Run(t, "C20", "ids_concurrent", c20GenConc, c20CheckConc)
}
