// C12, unit "ttest": Welch, pooled, paired and one-sample t-tests.
//
// Oracle: statistic and degrees of freedom against the textbook formulas
// evaluated on exact rational moments (refstat); the tail probabilities
// against numerical integration of the t density at the returned (T, DoF)
// (1e-9 one-sided, 2e-9 two-sided = twice a one-sided error), two-sided =
// 2·upper tail of |t|, P_less + P_greater = 1; ErrSampleSize, ErrZeroVariance
// and ErrMismatchedSamples exactly when the sample is too small for the
// statistic to exist, the standard error is exactly zero, the paired samples
// differ in length.
//
// Tolerance of T and DoF. DESIGN.md gives the moments 8·n·ε·scale (scale =
// max|x|, squared for the variance). T = (m1 − m2)/se is a quotient of such
// quantities, so its tolerance is the first-order propagation
//
//	tol(T) = (tolM1 + tolM2)/se + |T|·tol(se²)/se² + 8ε|T|
//
// (tol(se²)/se² is twice the first-order relative error of se, which covers
// the second-order terms while tol(se²) ≤ se²/8; worse conditioned cases —
// data whose spread is below 1e-6 of its magnitude — are labelled and only
// their errors, sizes, DoF range and P are checked).
package stats

import (
	"math"
	"math/big"
	"testing"

	"pgregory.net/rapid"
	"verif/harness/lib/refstat"
	"verif/harness/lib/vcase"
)

type c12TTestCase struct {
	Test   string // "welch", "pooled", "paired", "one"
	X1, X2 []float64
	Mu0    float64
	K1, K2 string // generator kinds (labels)
}

func c12GenTTest(t *rapid.T) c12TTestCase {
	var c c12TTestCase
	c.Test = rapid.SampledFrom([]string{"welch", "welch", "pooled", "paired", "one"}).Draw(t, "test")
	// sizes below the tests' minimum only in one case of eight
	minN := 2
	if rapid.IntRange(0, 7).Draw(t, "undersized") == 0 {
		minN = 0
	}
	n1 := c12GenN(t, "s1", minN, 300)
	c.X1, c.K1 = c12GenSample(t, "s1", n1, 60)
	switch c.Test {
	case "welch", "pooled":
		n2 := c12GenN(t, "s2", minN, 300)
		switch rapid.IntRange(0, 5).Draw(t, "s2_rel") {
		case 0: // independent second sample
			c.X2, c.K2 = c12GenSample(t, "s2", n2, 60)
		case 1: // same values
			c.X2, c.K2 = append([]float64(nil), c.X1...), "copy"
		default: // first sample's values, shifted and rescaled a little (comparable magnitudes: informative t)
			c.K2 = "shifted"
			c.X2 = make([]float64, n2)
			sc := rapid.Float64Range(0.5, 2).Draw(t, "s2_scale")
			sh := rapid.Float64Range(-2, 2).Draw(t, "s2_shift")
			lo, hi := refstat.MinMax(c.X1)
			w := math.Max(hi-lo, math.Abs(hi)*1e-3)
			for i := range c.X2 {
				var base float64
				if n1 > 0 {
					base = c.X1[rapid.IntRange(0, n1-1).Draw(t, "s2_pick")]
				}
				if n1 == 0 || !c12Finite(w) {
					w = 1
				}
				c.X2[i] = base*sc + sh*w*rapid.Float64Range(0, 1).Draw(t, "s2_u")
			}
		}
	case "paired":
		switch rapid.IntRange(0, 9).Draw(t, "pair_rel") {
		case 0: // mismatched lengths
			n2 := c12GenN(t, "s2", minN, 300)
			c.X2, c.K2 = c12GenSample(t, "s2", n2, 60)
		case 1: // identical
			c.X2, c.K2 = append([]float64(nil), c.X1...), "copy"
		case 2: // constant difference on a grid (exactly zero variance of the differences)
			c.K2 = "const_diff"
			c.X2 = make([]float64, n1)
			d := float64(rapid.IntRange(-64, 64).Draw(t, "pair_d"))
			for i := range c.X2 {
				c.X2[i] = math.Round(c.X1[i]) + d
			}
			for i := range c.X1 {
				c.X1[i] = math.Round(c.X1[i])
			}
		default:
			c.K2 = "paired_noise"
			c.X2 = make([]float64, n1)
			lo, hi := refstat.MinMax(c.X1)
			w := math.Max(hi-lo, math.Abs(hi)*1e-3)
			if n1 == 0 || !c12Finite(w) || w == 0 {
				w = 1
			}
			sh := rapid.Float64Range(-1, 1).Draw(t, "pair_shift")
			for i := range c.X2 {
				c.X2[i] = c.X1[i] + w*(sh+rapid.Float64Range(-1, 1).Draw(t, "pair_u"))
			}
		}
	}
	if c.Test == "paired" || c.Test == "one" {
		switch rapid.IntRange(0, 3).Draw(t, "mu0_class") {
		case 0:
			c.Mu0 = 0
		case 1:
			if len(c.X1) > 0 {
				c.Mu0 = c.X1[0]
			}
		default:
			c.Mu0 = rapid.Float64Range(-1, 1).Draw(t, "mu0_m") * c12Pow10(rapid.Float64Range(-3, 6).Draw(t, "mu0_e"))
		}
	}
	return c
}

var c12Alts = []LocationHypothesis{LocationLess, LocationDiffers, LocationGreater}

func c12CheckTTest(c c12TTestCase) (v vcase.Verdict) {
	for _, xs := range [][]float64{c.X1, c.X2} {
		for _, x := range xs {
			// Domain: magnitudes whose fourth power (the Welch–Satterthwaite
			// formula squares variances) is representable.
			if !c12Finite(x) || math.Abs(x) > 1e61 {
				return
			}
		}
	}
	if !c12Finite(c.Mu0) {
		return
	}
	n1, n2 := len(c.X1), len(c.X2)
	v.Label("test=" + c.Test)
	v.Label("k1=" + c.K1)
	if c.K2 != "" {
		v.Label("k2=" + c.K2)
	}

	run := func(alt LocationHypothesis) (*TTestResult, error) {
		switch c.Test {
		case "welch":
			return TwoSampleWelchTTest(Sample{Xs: c.X1}, Sample{Xs: c.X2}, alt)
		case "pooled":
			return TwoSampleTTest(Sample{Xs: c.X1}, Sample{Xs: c.X2}, alt)
		case "paired":
			return PairedTTest(c.X1, c.X2, c.Mu0, alt)
		default:
			return OneSampleTTest(Sample{Xs: c.X1}, c.Mu0, alt)
		}
	}

	// Expected outcome from the exact moments.
	var wantErr error
	var ref refstat.TStat
	wantN2 := n2
	// tolM*, tolV*: DESIGN.md tolerances of the moments entering the statistic.
	var tolNum, tolSE2 float64
	var tolV1, tolV2 float64 // tolerance of each sample variance
	mom := func(xs []float64, extra int) (tm, tv float64) {
		m := refstat.MaxAbs(xs)
		k := float64(len(xs) + extra)
		return 8 * k * c12Eps * m, 8 * k * c12Eps * m * m
	}
	switch c.Test {
	case "welch":
		switch {
		case n1 < 2 || n2 < 2:
			wantErr = ErrSampleSize
		default:
			ref = refstat.Welch(c.X1, c.X2)
			if ref.T == nil {
				wantErr = ErrZeroVariance
			}
			tm1, tv1 := mom(c.X1, 0)
			tm2, tv2 := mom(c.X2, 0)
			tolV1, tolV2 = tv1, tv2
			tolNum = tm1 + tm2
			tolSE2 = tv1/float64(n1) + tv2/float64(n2)
		}
	case "pooled":
		switch {
		case n1 < 1 || n2 < 1:
			wantErr = ErrSampleSize
		case n1+n2 < 3: // both of size one: no variance at all
			wantErr = ErrZeroVariance
		default:
			ref = refstat.Pooled(c.X1, c.X2)
			if ref.T == nil {
				wantErr = ErrZeroVariance
			}
			tm1, tv1 := mom(c.X1, 0)
			tm2, tv2 := mom(c.X2, 0)
			tolV1, tolV2 = tv1, tv2
			tolNum = tm1 + tm2
			tolSE2 = (float64(n1-1)*tv1 + float64(n2-1)*tv2) / float64(n1+n2-2) * (1/float64(n1) + 1/float64(n2))
		}
	case "paired":
		switch {
		case n1 != n2:
			wantErr = ErrMismatchedSamples
		case n1 < 2:
			wantErr = ErrSampleSize
		default:
			ref = refstat.Paired(c.X1, c.X2, c.Mu0)
			if ref.T == nil {
				wantErr = ErrZeroVariance
			}
			// The differences are formed in float64 (one rounding each,
			// ε/2·|d|); that perturbation of the data is covered by
			// counting one more element in the moment tolerances.
			ds := make([]float64, n1)
			for i := range ds {
				ds[i] = c.X1[i] - c.X2[i] // only its magnitude is used (scale of the tolerance)
			}
			tm, tv := mom(ds, 1)
			tolV1 = tv
			tolNum = tm + c12Eps*math.Abs(c.Mu0)
			tolSE2 = tv / float64(n1)
		}
	case "one":
		wantN2 = 0
		switch {
		case n1 < 1:
			wantErr = ErrSampleSize
		case n1 < 2: // a single value has no variance
			wantErr = ErrZeroVariance
		default:
			ref = refstat.OneSample(c.X1, c.Mu0)
			if ref.T == nil {
				wantErr = ErrZeroVariance
			}
			tm, tv := mom(c.X1, 0)
			tolV1 = tv
			tolNum = tm + c12Eps*math.Abs(c.Mu0)
			tolSE2 = tv / float64(n1)
		}
	default:
		return
	}
	switch wantErr {
	case ErrSampleSize:
		v.Label("want=ErrSampleSize")
	case ErrZeroVariance:
		v.Label("want=ErrZeroVariance")
	case ErrMismatchedSamples:
		v.Label("want=ErrMismatchedSamples")
	default:
		v.Label("want=result")
	}
	if wantErr == nil {
		// ... and whose variances, when not exactly zero, can be squared
		// without underflow or overflow (the formula forms (s²/n)²; outside
		// this range it yields DoF = NaN).
		for _, rv := range []*big.Rat{ref.V1, ref.V2} {
			if r := refstat.F64(rv); rv.Sign() != 0 && (r < 1e-120 || r > 1e125) {
				v.Label("variance_outside_domain")
				return
			}
		}
	}
	v.NonTrivial = n1 >= 3 && !c12Constant(c.X1)

	var res [3]*TTestResult
	for i, alt := range c12Alts {
		r, err := run(alt)
		v.Sub++
		if wantErr != nil {
			if err != wantErr || r != nil {
				// One rounding ambiguity is legitimate: paired differences
				// that are exactly constant but whose float64 values are
				// not (or the reverse) sit on the zero-variance boundary.
				if c.Test == "paired" && wantErr == ErrZeroVariance && err == nil && !c12PairedFloatDiffsConstant(c.X1, c.X2) {
					v.Label("paired_zero_variance_rounding")
					return
				}
				v.Failf("%s n1=%d n2=%d alt=%v: want error %q, got result %+v, error %v", c.Test, n1, n2, alt, wantErr, r, err)
				return
			}
			continue
		}
		if err != nil || r == nil {
			// A variance that is not exactly zero but lies below the accuracy
			// to which the variance is computed (DESIGN.md: 8·n·ε·max|x|²,
			// e.g. the sample {20, 20+1ulp}) may legitimately come out as 0:
			// then "zero variance" is the correct report at that accuracy.
			if err == ErrZeroVariance && r == nil && refstat.F64(ref.V1) <= tolV1 && refstat.F64(ref.V2) <= tolV2 {
				v.Label("zero_variance_at_rounding_level")
				v.NonTrivial = false
				return
			}
			v.Failf("%s n1=%d n2=%d alt=%v: the statistic exists (t = %v) but got error %v", c.Test, n1, n2, alt, refstat.BF64(ref.T), err)
			return
		}
		res[i] = r
		if r.N1 != n1 || r.N2 != wantN2 || r.AltHypothesis != alt {
			v.Failf("%s alt=%v: N1=%d N2=%d AltHypothesis=%v, want %d %d %v", c.Test, alt, r.N1, r.N2, r.AltHypothesis, n1, wantN2, alt)
			return
		}
	}
	if wantErr != nil {
		return
	}
	r0 := res[1]
	for _, r := range res {
		if math.Float64bits(r.T) != math.Float64bits(r0.T) || math.Float64bits(r.DoF) != math.Float64bits(r0.DoF) {
			v.Failf("%s: T/DoF depend on the alternative: %+v vs %+v", c.Test, r, r0)
			return
		}
	}
	T, dof := r0.T, r0.DoF
	if !c12Finite(T) || !c12Finite(dof) || !(dof > 0) {
		v.Failf("%s: T = %v, DoF = %v", c.Test, T, dof)
		return
	}

	// Statistic and degrees of freedom.
	wantT, wantDoF := refstat.BF64(ref.T), refstat.BF64(ref.DoF)
	se2 := refstat.F64(ref.SE2)
	se := math.Sqrt(se2)
	wellConditioned := tolSE2 <= se2/8 && se > 0 && c12Finite(wantT)
	if wellConditioned {
		v.Label("well_conditioned")
		tolT := tolNum/se + math.Abs(wantT)*tolSE2/se2 + 8*c12Eps*math.Abs(wantT)
		if d := math.Abs(T - wantT); !(d <= tolT) {
			v.Failf("%s n1=%d n2=%d: T = %.17g, textbook %.17g (diff %g, tolerance %g)", c.Test, n1, n2, T, wantT, d, tolT)
			return
		}
		if tolT <= 1e-9*math.Max(1, math.Abs(wantT)) {
			v.Label("T_tol<1e-9")
		}
	} else {
		v.Label("ill_conditioned")
	}
	if c.Test == "welch" {
		// ν is homogeneous of degree 0 in a = s1²/n1, b = s2²/n2; relative
		// first-order error 2(δa+δb)/(a+b) + (2aδa/(n1−1) + 2bδb/(n2−1))/D,
		// taken ×1.5 for the higher orders while it is below 0.1.
		_, tv1 := mom(c.X1, 0)
		_, tv2 := mom(c.X2, 0)
		a, b := refstat.F64(ref.V1)/float64(n1), refstat.F64(ref.V2)/float64(n2)
		da, db := tv1/float64(n1), tv2/float64(n2)
		D := a*a/float64(n1-1) + b*b/float64(n2-1)
		rel := 2*(da+db)/(a+b) + (2*a*da/float64(n1-1)+2*b*db/float64(n2-1))/D + 16*c12Eps
		if rel < 0.1 {
			if d := math.Abs(dof - wantDoF); !(d <= 1.5*rel*wantDoF) {
				v.Failf("welch n1=%d n2=%d: DoF = %.17g, Welch–Satterthwaite %.17g (diff %g, tolerance %g)", n1, n2, dof, wantDoF, d, 1.5*rel*wantDoF)
				return
			}
			v.Label("welch_dof_checked")
			if n1 != n2 {
				v.Label("welch_n1!=n2")
			}
		}
		lo, hi := float64(c12MinInt(n1, n2)-1), float64(n1+n2-2)
		if dof < lo*(1-1e-9) || dof > hi*(1+1e-9) {
			v.Failf("welch n1=%d n2=%d: DoF = %v outside [min(n)−1, n1+n2−2]", n1, n2, dof)
			return
		}
	} else if dof != wantDoF {
		v.Failf("%s n1=%d n2=%d: DoF = %v, want %v", c.Test, n1, n2, dof, wantDoF)
		return
	}

	// Tail probabilities at the returned statistic.
	F, ok := refstat.TCDF(dof, T)
	pl, pd, pg := res[0].P, res[1].P, res[2].P
	for _, p := range []float64{pl, pd, pg} {
		if !(p >= 0 && p <= 1) {
			v.Failf("%s: P = %v outside [0,1] (T=%v DoF=%v)", c.Test, p, T, dof)
			return
		}
	}
	if d := math.Abs(pl + pg - 1); d > 1e-12 {
		v.Failf("%s: P_less + P_greater = %v + %v (T=%v DoF=%v)", c.Test, pl, pg, T, dof)
		return
	}
	if d := math.Abs(pd - 2*math.Min(pl, pg)); d > 1e-12 {
		v.Failf("%s: two-sided P = %v is not twice the smaller tail %v (T=%v DoF=%v)", c.Test, pd, math.Min(pl, pg), T, dof)
		return
	}
	if ok {
		// F is the reference for P_less; the known finding C12-a (staircase
		// of the t CDF around 0) is accepted only by its exact signature.
		if !c12TAgree(&v, dof, T, pl, F, 1e-9) {
			v.Failf("%s: P_less = %.17g, t distribution gives %.17g (T=%v DoF=%v)", c.Test, pl, F, T, dof)
			return
		}
		if !c12TAgree(&v, dof, T, 1-pg, F, 1e-9) {
			v.Failf("%s: P_greater = %.17g, t distribution gives %.17g (T=%v DoF=%v)", c.Test, pg, 1-F, T, dof)
			return
		}
		// two-sided: 2·(1 − F(|t|)); compare F(|t|) = 1 − pd/2 at 1e-9.
		Fa := F
		if T < 0 {
			Fa = 1 - F
		}
		if !c12TAgree(&v, dof, math.Abs(T), 1-pd/2, Fa, 1e-9) {
			v.Failf("%s: two-sided P = %.17g, 2·upper tail of |t| is %.17g (T=%v DoF=%v)", c.Test, pd, 2*(1-Fa), T, dof)
			return
		}
	} else {
		v.Label("integrator_gave_up")
	}
	switch {
	case math.Abs(T) < 1e-3:
		v.Label("|t|<1e-3")
	case math.Abs(T) < 5:
		v.Label("|t|<5")
	case math.Abs(T) < 100:
		v.Label("|t|<100")
	default:
		v.Label("|t|>=100")
	}
	return v
}

func c12PairedFloatDiffsConstant(x1, x2 []float64) bool {
	if len(x1) != len(x2) || len(x1) == 0 {
		return true
	}
	d0 := x1[0] - x2[0]
	for i := range x1 {
		if x1[i]-x2[i] != d0 {
			return false
		}
	}
	return true
}

func TestC12TTest(t *testing.T) {
	vcase.Run(t, "C12", "ttest", c12GenTTest, c12CheckTTest)
}
