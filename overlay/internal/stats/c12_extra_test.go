package stats

// C12, unit "huge": the mean of finite values stays finite and inside
// [min, max] even when their sum would overflow, and agrees with the exact
// rational mean.

import (
	"math"
	"testing"

	"pgregory.net/rapid"
	"verif/harness/lib/refstat"
	"verif/harness/lib/vcase"
)

type c12HugeCase struct {
	Xs []float64
}

func c12HugeCheck(c c12HugeCase) (v vcase.Verdict) {
	if len(c.Xs) == 0 {
		return
	}
	lo, hi := refstat.MinMax(c.Xs)
	want := refstat.F64(refstat.MeanRat(c.Xs))
	for name, got := range map[string]float64{"Mean(xs)": Mean(c.Xs), "Sample.Mean": Sample{Xs: c.Xs}.Mean()} {
		if math.IsInf(got, 0) || math.IsNaN(got) {
			v.Failf("%s = %v for finite values in [%g, %g] (n=%d)", name, got, lo, hi, len(c.Xs))
			return
		}
		slack := 64 * float64(len(c.Xs)) * 0x1p-53 * math.Max(math.Abs(lo), math.Abs(hi))
		if got < lo-slack || got > hi+slack || math.Abs(got-want) > slack {
			v.Failf("%s = %g, exact mean %g, values in [%g, %g] (n=%d)", name, got, want, lo, hi, len(c.Xs))
			return
		}
	}
	glo, ghi := Bounds(c.Xs)
	if glo != lo || ghi != hi {
		v.Failf("Bounds = (%g, %g), want (%g, %g)", glo, ghi, lo, hi)
	}
	sum := 0.0
	for _, x := range c.Xs {
		sum += x
	}
	if math.IsInf(sum, 0) {
		v.Label("sum_overflows")
	}
	v.NonTrivial = len(c.Xs) >= 2
	return
}

func c12HugeGen(t *rapid.T) c12HugeCase {
	n := rapid.IntRange(1, 400).Draw(t, "n")
	e := rapid.Float64Range(300, 308.2).Draw(t, "e")
	neg := rapid.Bool().Draw(t, "neg")
	var c c12HugeCase
	for i := 0; i < n; i++ {
		x := rapid.Float64Range(0.1, 1).Draw(t, "m") * math.Pow(10, e)
		if math.IsInf(x, 0) || x > math.MaxFloat64 {
			x = math.MaxFloat64
		}
		if neg {
			x = -x
		}
		c.Xs = append(c.Xs, x)
	}
	return c
}

func TestC12Huge(t *testing.T) { vcase.Run(t, "C12", "huge", c12HugeGen, c12HugeCheck) }
