// C12, unit "descr": Mean, Variance, StdDev, GeoMean, Bounds, Percentile, IQR.
//
// Oracle: exact rational evaluation of the definitions (refstat, math/big).
// Tolerances from DESIGN.md: 8·n·ε·scale with scale = max|x| (mean, bounds,
// percentile), max|x|² (variance), relative for the geometric mean; see the
// comments at each comparison for the two places where the scale had to be
// made precise (geometric mean of values far from 1, standard deviation).
package stats

import (
	"math"
	"math/big"
	"sort"
	"testing"

	"pgregory.net/rapid"
	"verif/harness/lib/refstat"
	"verif/harness/lib/vcase"
)

type c12DescrCase struct {
	Xs      []float64
	Sorted  bool      // value of the Sample.Sorted flag; the generator sets it only for sorted data
	Ps      []float64 // percentile arguments (some outside [0,1])
	Weights []float64 // nil, or strictly positive weights (same length as Xs)
	Kind    string
}

func c12GenDescr(t *rapid.T) c12DescrCase {
	var c c12DescrCase
	n := c12GenN(t, "s", 1, 500)
	c.Xs, c.Kind = c12GenSample(t, "s", n, 300)
	if c12IsSorted(c.Xs) {
		c.Sorted = rapid.Bool().Draw(t, "sorted_flag")
	}
	np := rapid.IntRange(1, 6).Draw(t, "np")
	for i := 0; i < np; i++ {
		var p float64
		switch rapid.IntRange(0, 5).Draw(t, "p_class") {
		case 0, 1:
			p = rapid.Float64Range(0, 1).Draw(t, "p_u")
		case 2: // grid points where h = (n+1/3)p + 1/3 is close to an integer
			k := rapid.IntRange(0, n+1).Draw(t, "p_k")
			p = (float64(k) - 1.0/3) / (float64(n) + 1.0/3)
			p = math.Nextafter(p, float64(rapid.IntRange(-1, 2).Draw(t, "p_dir")))
		case 3:
			p = rapid.SampledFrom([]float64{0.5, 0.25, 0.75, 0.9, 0.95, 0.99, 0.01, 0.1}).Draw(t, "p_common")
		case 4:
			p = rapid.SampledFrom([]float64{0, 1, math.SmallestNonzeroFloat64, 1 - 1.0/(1<<53), 1e-17}).Draw(t, "p_end")
		default:
			p = rapid.SampledFrom([]float64{-0.5, -1e-300, 1.0000000000000002, 1.5, 100}).Draw(t, "p_out")
		}
		c.Ps = append(c.Ps, p)
	}
	if rapid.IntRange(0, 5).Draw(t, "weighted") == 0 {
		c.Weights = make([]float64, n)
		for i := range c.Weights {
			if rapid.Bool().Draw(t, "w_int") {
				c.Weights[i] = float64(rapid.IntRange(1, 9).Draw(t, "w_i"))
			} else {
				c.Weights[i] = c12Pow10(rapid.Float64Range(-3, 3).Draw(t, "w_f"))
			}
		}
	}
	return c
}

func c12RatClose(got float64, want *big.Rat, tol float64) (float64, bool) {
	if !c12Finite(got) {
		return math.Inf(1), false
	}
	d := new(big.Rat).Sub(refstat.Rat(got), want)
	d.Abs(d)
	df := refstat.F64(d)
	return df, df <= tol
}

func c12CheckDescr(c c12DescrCase) (v vcase.Verdict) {
	n := len(c.Xs)
	if n == 0 {
		return
	}
	for _, x := range c.Xs {
		if !c12Finite(x) || math.Abs(x) > 1e301 {
			return
		}
	}
	if c.Sorted && !c12IsSorted(c.Xs) {
		return // the flag is a promise by the caller; only true promises are in the domain
	}
	if c.Weights != nil {
		if len(c.Weights) != n {
			return
		}
		for _, w := range c.Weights {
			if !(w > 0) || w > 1e6 {
				return
			}
		}
	}
	v.Label("kind=" + c.Kind)
	switch {
	case n == 1:
		v.Label("n=1")
	case n <= 3:
		v.Label("n<=3")
	case n <= 12:
		v.Label("n<=12")
	case n <= 60:
		v.Label("n<=60")
	default:
		v.Label("n>60")
	}
	if c.Sorted {
		v.Label("sorted_flag")
	} else if c12IsSorted(c.Xs) {
		v.Label("sorted_no_flag")
	} else {
		v.Label("unsorted")
	}
	v.NonTrivial = n >= 3 && !c12Constant(c.Xs)

	orig := append([]float64(nil), c.Xs...)
	unchanged := func(what string) bool {
		for i := range orig {
			if math.Float64bits(orig[i]) != math.Float64bits(c.Xs[i]) {
				v.Failf("%s modified the caller's data at index %d", what, i)
				return false
			}
		}
		return true
	}
	nf := float64(n)
	scale := refstat.MaxAbs(c.Xs)
	lo, hi := refstat.MinMax(c.Xs)
	tol := 8 * nf * c12Eps * scale
	// a result next to the subnormal range cannot be better than one
	// subnormal spacing per operation
	sub := nf * math.SmallestNonzeroFloat64
	s := Sample{Xs: c.Xs, Sorted: c.Sorted}

	// Bounds.
	if mn, mx := Bounds(c.Xs); mn != lo || mx != hi {
		v.Failf("Bounds = (%v, %v), want (%v, %v)", mn, mx, lo, hi)
		return
	}
	if mn, mx := s.Bounds(); mn != lo || mx != hi {
		v.Failf("Sample.Bounds (Sorted=%v) = (%v, %v), want (%v, %v)", c.Sorted, mn, mx, lo, hi)
		return
	}

	// Mean.
	mean := refstat.MeanRat(c.Xs)
	if d, ok := c12RatClose(Mean(c.Xs), mean, tol+sub); !ok {
		v.Failf("Mean = %.17g, exact %.17g (diff %g, tolerance %g) n=%d", Mean(c.Xs), refstat.F64(mean), d, tol, n)
		return
	}
	if m := s.Mean(); math.Float64bits(m) != math.Float64bits(Mean(c.Xs)) {
		v.Failf("Sample.Mean = %v differs from Mean = %v", m, Mean(c.Xs))
		return
	}
	if w := s.Weight(); w != nf {
		v.Failf("Sample.Weight = %v, want %d", w, n)
		return
	}

	// Variance and standard deviation. Skipped when intermediate squares
	// leave the float64 range (the exact variance is then not representable
	// either).
	if 4*nf*scale*scale < math.MaxFloat64 {
		vr := refstat.VarianceRat(c.Xs)
		tolV := 8*nf*c12Eps*scale*scale + sub
		got := Variance(c.Xs)
		d, ok := c12RatClose(got, vr, tolV)
		if !ok || got < 0 {
			v.Failf("Variance = %.17g, exact %.17g (diff %g, tolerance %g) n=%d", got, refstat.F64(vr), d, tolV, n)
			return
		}
		if sv := s.Variance(); math.Float64bits(sv) != math.Float64bits(got) {
			v.Failf("Sample.Variance = %v differs from Variance = %v", sv, got)
			return
		}
		if c12Constant(c.Xs) && got != 0 {
			v.Failf("Variance of %d equal values = %v", n, got)
			return
		}
		// StdDev is the square root of the variance: |√a − √b| ≤
		// min(√|a−b|, |a−b|/√b), so the variance tolerance translates into
		// min(√tolV, tolV/σ) plus one rounding of the root.
		sd := StdDev(c.Xs)
		sdRef := refstat.BF64(refstat.SqrtRat(vr))
		tolS := math.Sqrt(tolV)
		if sdRef > 0 {
			tolS = math.Min(tolS, tolV/sdRef)
		}
		tolS += 2 * c12Eps * sdRef
		if math.Float64bits(sd) != math.Float64bits(math.Sqrt(got)) || !(math.Abs(sd-sdRef) <= tolS) {
			v.Failf("StdDev = %.17g, √Variance = %.17g, exact %.17g (tolerance %g)", sd, math.Sqrt(got), sdRef, tolS)
			return
		}
		if ss := s.StdDev(); math.Float64bits(ss) != math.Float64bits(sd) {
			v.Failf("Sample.StdDev = %v differs from StdDev = %v", ss, sd)
			return
		}
		v.Label("variance_checked")
		if n >= 2 && refstat.F64(vr) > 0 && refstat.F64(vr) < 1e-6*scale*scale {
			v.Label("variance_cancellation") // spread ≪ magnitude
		}
	} else {
		v.Label("variance_skipped_overflow")
	}

	// Geometric mean (documented for positive values only).
	// Subnormal values are left out: the Go standard library's math.Log is
	// wrong for subnormal arguments on amd64 (log_amd64.s of go1.23.5 returns
	// ln(5e-310) = −709.07 instead of −711.19), which is the trusted base's
	// business, not the property's.
	if lo > 0 && lo < 2.2250738585072014e-308 {
		v.Label("geomean_skipped_subnormal")
	} else if lo > 0 {
		g := GeoMean(c.Xs)
		if math.IsNaN(g) {
			v.Failf("GeoMean of %d positive values = NaN", n)
			return
		}
		ref := refstat.GeoMean(c.Xs)
		// "Relative" tolerance 8·n·ε — of what? The mean is taken over
		// ln x, whose magnitude L = max|ln x| (up to 709) sets the absolute
		// accuracy 8·n·ε·L of the mean logarithm by the same analysis as for
		// Mean, and exp turns an absolute error of its argument into a
		// relative error of the result. For data within [1/e, e] this is the
		// plain 8·n·ε; one more ε for exp itself.
		L := math.Max(1, math.Max(math.Abs(math.Log(lo)), math.Abs(math.Log(hi))))
		tolG := 8*nf*c12Eps*L + 2*c12Eps
		rel := new(big.Float).SetPrec(refstat.Prec).Quo(new(big.Float).SetFloat64(g), ref)
		rf, _ := rel.Float64()
		if !(math.Abs(rf-1) <= tolG) && !(g == 0 && refstat.BF64(ref) < 1e-300) {
			v.Failf("GeoMean = %.17g, exact %.17g (relative diff %g, tolerance %g) n=%d", g, refstat.BF64(ref), rf-1, tolG, n)
			return
		}
		if sg := s.GeoMean(); math.Float64bits(sg) != math.Float64bits(g) {
			v.Failf("Sample.GeoMean = %v differs from GeoMean = %v", sg, g)
			return
		}
		if g < lo*(1-tolG) || g > hi*(1+tolG) {
			v.Failf("GeoMean = %v outside [min, max] = [%v, %v]", g, lo, hi)
			return
		}
		v.Label("geomean_checked")
	}

	// Percentiles.
	sorted := append([]float64(nil), c.Xs...)
	sort.Float64s(sorted)
	ss := Sample{Xs: sorted, Sorted: true}
	ps := append([]float64(nil), c.Ps...)
	sort.Float64s(ps)
	prev := math.Inf(-1)
	for _, p := range ps {
		if math.IsNaN(p) {
			return
		}
		got := s.Percentile(p)
		v.Sub++
		if got2 := ss.Percentile(p); got != got2 { // == : +0 and −0 are the same value
			v.Failf("Percentile(%v) depends on the order of the data: %v (as given, Sorted=%v) vs %v (sorted copy)", p, got, c.Sorted, got2)
			return
		}
		switch {
		case p <= 0:
			v.Label("p<=0")
			if got != lo {
				v.Failf("Percentile(%v) = %v, want the minimum %v", p, got, lo)
				return
			}
		case p >= 1:
			v.Label("p>=1")
			if got != hi {
				v.Failf("Percentile(%v) = %v, want the maximum %v", p, got, hi)
				return
			}
		default:
			v.Label("0<p<1")
			want := refstat.PercentileR8(c.Xs, p)
			if d, ok := c12RatClose(got, want, tol+sub); !ok {
				v.Failf("Percentile(%v) = %.17g, exact R8 %.17g (diff %g, tolerance %g) n=%d", p, got, refstat.F64(want), d, tol, n)
				return
			}
		}
		// Interpolating between two equal order statistics must give exactly that
		// value (in particular a constant sample has every percentile equal to its
		// value, and ties at the extremes can never leave [min, max]). Only asserted
		// when the exact position is not within 1e-9 of an order statistic, so that
		// float rounding of the position cannot select a different pair.
		if nlo, nhi, frac, ok := refstat.R8Neighbours(c.Xs, p); ok && nlo == nhi {
			f, _ := frac.Float64()
			if f > 1e-9 && f < 1-1e-9 {
				v.Label("tied_neighbours")
				if got != nlo {
					v.Failf("Percentile(%v) = %.17g lies between two order statistics that are both %.17g (n=%d)", p, got, nlo, n)
					return
				}
			}
		}
		// Bounded by the extremes; monotone in p. The interpolation
		// x_k + frac·(x_{k+1} − x_k) rounds three times, so a value may
		// overshoot its neighbours by at most 2 ulp of the scale.
		slack := 4 * c12Eps * scale
		if got < lo-slack || got > hi+slack {
			v.Failf("Percentile(%v) = %v outside [min, max] = [%v, %v]", p, got, lo, hi)
			return
		}
		if got < prev-slack {
			v.Failf("Percentile not monotone: P(%v) = %v after %v", p, got, prev)
			return
		}
		prev = got
	}
	// IQR.
	iqr := s.IQR()
	p25, p75 := s.Percentile(0.25), s.Percentile(0.75)
	if math.Float64bits(iqr) != math.Float64bits(p75-p25) {
		v.Failf("IQR = %v, Percentile(.75) − Percentile(.25) = %v", iqr, p75-p25)
		return
	}
	wantIQR := new(big.Rat).Sub(refstat.PercentileR8(c.Xs, 0.75), refstat.PercentileR8(c.Xs, 0.25))
	if d, ok := c12RatClose(iqr, wantIQR, 2*tol+sub); !ok || iqr < -4*c12Eps*scale {
		v.Failf("IQR = %.17g, exact %.17g (diff %g, tolerance %g)", iqr, refstat.F64(wantIQR), d, 2*tol)
		return
	}
	if !unchanged("Percentile/IQR/Mean/…") {
		return
	}

	// Sort: sorted permutation of the data with the flag set.
	cp := s.Copy()
	if &cp.Xs[0] == &c.Xs[0] {
		v.Failf("Copy shares the data")
		return
	}
	cp.Sort()
	if !cp.Sorted || !c12IsSorted(cp.Xs) || len(cp.Xs) != n {
		v.Failf("Copy().Sort(): Sorted=%v, data sorted=%v", cp.Sorted, c12IsSorted(cp.Xs))
		return
	}
	for i := range sorted {
		if math.Float64bits(sorted[i]) != math.Float64bits(cp.Xs[i]) && sorted[i] != cp.Xs[i] {
			v.Failf("Copy().Sort() is not a permutation of the data (index %d: %v vs %v)", i, cp.Xs[i], sorted[i])
			return
		}
	}
	if !unchanged("Copy/Sort") {
		return
	}

	// Weighted samples (documented: non-negative weights; the check keeps to
	// strictly positive ones): Weight, Mean, Bounds.
	if c.Weights != nil {
		v.Label("weighted")
		ws := Sample{Xs: c.Xs, Weights: c.Weights, Sorted: c.Sorted}
		wsum := refstat.SumRat(c.Weights)
		wmax := refstat.MaxAbs(c.Weights)
		if d, ok := c12RatClose(ws.Weight(), wsum, 8*nf*c12Eps*wmax*nf); !ok {
			v.Failf("weighted Weight = %v, exact %v (diff %g)", ws.Weight(), refstat.F64(wsum), d)
			return
		}
		wm := refstat.WeightedMeanRat(c.Xs, c.Weights)
		// same incremental scheme as Mean with one extra multiplication and
		// a rounded running weight per step: twice the unweighted tolerance
		// Near the subnormal range the product (x−m)·w may underflow (error
		// one subnormal spacing) before it is divided by the running weight
		// ≥ min w, which magnifies that error by 1/min w.
		wmin := math.Inf(1)
		for _, w := range c.Weights {
			wmin = math.Min(wmin, w)
		}
		if d, ok := c12RatClose(ws.Mean(), wm, 2*tol+sub*math.Max(1, 2/wmin)); !ok {
			v.Failf("weighted Mean = %.17g, exact %.17g (diff %g, tolerance %g)", ws.Mean(), refstat.F64(wm), d, 2*tol)
			return
		}
		if mn, mx := ws.Bounds(); mn != lo || mx != hi {
			v.Failf("weighted Bounds = (%v, %v), want (%v, %v)", mn, mx, lo, hi)
			return
		}
	}
	return v
}

func TestC12Descr(t *testing.T) {
	vcase.Run(t, "C12", "descr", c12GenDescr, c12CheckDescr)
}
