// Shared generators and helpers of the C12 check (compiled into package stats
// through the driver's overlay; see /verif/driver/HOWTO.md, Mode B).
package stats

import (
	"math"
	"sort"

	"pgregory.net/rapid"
	"verif/harness/lib/refstat"
	"verif/harness/lib/vcase"
)

const c12Eps = 1.0 / (1 << 53) // unit round-off of float64

func c12Pow10(e float64) float64 { return math.Pow(10, e) }

// c12Round3 rounds x to three significant decimal digits (benchmark-like
// numbers, which produces ties).
func c12Round3(x float64) float64 {
	if x == 0 {
		return 0
	}
	m := math.Pow(10, math.Floor(math.Log10(math.Abs(x)))-2)
	return math.Round(x/m) * m
}

// c12GenN draws a sample size with emphasis on the small sizes where the
// special cases live.
func c12GenN(t *rapid.T, name string, min, max int) int {
	switch rapid.IntRange(0, 9).Draw(t, name+"_nclass") {
	case 0:
		return rapid.IntRange(min, c12MinInt(max, min+3)).Draw(t, name+"_n")
	case 1, 2, 3, 4:
		return rapid.IntRange(min, c12MinInt(max, 12)).Draw(t, name+"_n")
	case 5, 6, 7:
		return rapid.IntRange(min, c12MinInt(max, 60)).Draw(t, name+"_n")
	default:
		return rapid.IntRange(min, max).Draw(t, name+"_n")
	}
}

func c12MinInt(a, b int) int {
	if a < b {
		return a
	}
	return b
}

// c12GenSample draws n finite values. maxExp bounds the decimal exponent of
// the magnitudes (300 for the descriptive statistics, 100 for the t-tests,
// whose squares must stay in range). The returned kind is a label.
func c12GenSample(t *rapid.T, name string, n int, maxExp float64) (xs []float64, kind string) {
	xs = make([]float64, n)
	if n == 0 {
		return xs, "empty"
	}
	f := func(lo, hi float64, what string) float64 { return rapid.Float64Range(lo, hi).Draw(t, name+"_"+what) }
	switch rapid.IntRange(0, 7).Draw(t, name+"_kind") {
	case 0: // small integers, heavy ties
		kind = "ints"
		lo := rapid.IntRange(-5, 5).Draw(t, name+"_lo")
		w := rapid.IntRange(1, 12).Draw(t, name+"_w")
		for i := range xs {
			xs[i] = float64(rapid.IntRange(lo, lo+w).Draw(t, name+"_v"))
		}
	case 1, 2: // base with relative noise of chosen size (conditioning)
		kind = "noise"
		base := c12Pow10(f(-math.Min(maxExp, 12), math.Min(maxExp, 12), "be"))
		if rapid.IntRange(0, 4).Draw(t, name+"_neg") == 0 {
			base = -base
		}
		rel := c12Pow10(-f(0, 6, "re"))
		for i := range xs {
			xs[i] = base * (1 + rel*f(-1, 1, "u"))
		}
	case 3: // constant
		kind = "const"
		v := f(-1, 1, "c") * c12Pow10(f(-6, 6, "ce"))
		for i := range xs {
			xs[i] = v
		}
	case 4: // mixed magnitudes and signs
		kind = "mixed"
		e := rapid.SampledFrom([]float64{3, 15, maxExp}).Draw(t, name+"_E")
		for i := range xs {
			xs[i] = f(-1, 1, "m") * c12Pow10(f(-e, e, "me"))
		}
	case 5: // dyadic grid: sums and differences are exact
		kind = "grid"
		sc := math.Ldexp(1, rapid.IntRange(-30, 30).Draw(t, name+"_sh"))
		for i := range xs {
			xs[i] = float64(rapid.IntRange(-4096, 4096).Draw(t, name+"_g")) * sc
		}
	case 6: // benchmark-like positive numbers with three significant digits
		kind = "bench"
		base := c12Pow10(f(-3, 9, "bb"))
		spread := f(0.001, 0.3, "bs")
		for i := range xs {
			xs[i] = c12Round3(base * math.Exp(spread*f(-1, 1, "bu")))
		}
	default: // few distinct values drawn from a pool of mixed magnitude
		kind = "pool"
		k := rapid.IntRange(1, 4).Draw(t, name+"_k")
		pool := make([]float64, k)
		for i := range pool {
			pool[i] = f(-1, 1, "p") * c12Pow10(f(-math.Min(maxExp, 20), math.Min(maxExp, 20), "pe"))
		}
		for i := range xs {
			xs[i] = pool[rapid.IntRange(0, k-1).Draw(t, name+"_pi")]
		}
	}
	switch rapid.IntRange(0, 3).Draw(t, name+"_order") {
	case 0:
		sort.Float64s(xs)
	case 1:
		sort.Sort(sort.Reverse(sort.Float64Slice(xs)))
	}
	return xs, kind
}

func c12IsSorted(xs []float64) bool { return sort.Float64sAreSorted(xs) }

func c12Constant(xs []float64) bool {
	for _, x := range xs {
		if x != xs[0] {
			return false
		}
	}
	return true
}

func c12Finite(x float64) bool { return !math.IsNaN(x) && !math.IsInf(x, 0) }

// c12Ulp returns the spacing of float64 numbers at |x|.
func c12Ulp(x float64) float64 {
	x = math.Abs(x)
	if x == 0 {
		return math.SmallestNonzeroFloat64
	}
	return math.Nextafter(x, math.Inf(1)) - x
}

// ---------------------------------------------------------------------------
// Finding C12-a (booked only while it is listed in known_findings.json).
//
// TDist.CDF evaluates I_q(ν/2, ½) at q = ν/(ν+x²). For x² ≪ ν that quotient is
// rounded to a multiple of 2^-53 next to 1 before the incomplete beta function
// sees it, so the implemented F is a staircase around x = 0 (F(x) = ½ exactly
// for |x| < 1.05e-8·√ν; absolute error up to about 4e-9·√ν). The signature is
// exact: the implemented value is the textbook F at the perturbed argument
// x' = √(ν(1−q)/q) with q = fl(ν/(ν+fl(x²))), to the ordinary tolerance.

// c12StairModel returns the value finding C12-a predicts for TDist{ν}.CDF(x).
// applies is false outside the finding's region (x = 0, non-finite, x² ≥ ν).
func c12StairModel(nu, x float64) (f float64, applies bool) {
	if x == 0 || !c12Finite(x) || !(x*x < nu) {
		return 0, false
	}
	q := nu / (nu + x*x)
	if q == 1 {
		return 0.5, true
	}
	xp := math.Sqrt(nu * (1 - q) / q) // 1−q is exact (q ≥ ½)
	f, ok := refstat.TCDF(nu, math.Copysign(xp, x))
	return f, ok
}

// c12TAgree reports whether the implemented t distribution value f at (ν,x)
// agrees with the reference ref to tol, or — only while C12-a is a listed
// known finding — with the value the finding's signature predicts (the case
// is then booked under the finding).
func c12TAgree(v *vcase.Verdict, nu, x, f, ref, tol float64) bool {
	if math.Abs(f-ref) <= tol {
		return true
	}
	if !vcase.KnownListed("C12-a") {
		return false
	}
	if m, ok := c12StairModel(nu, x); ok && math.Abs(f-m) <= tol {
		v.KnownHit("C12-a")
		return true
	}
	return false
}
