// C12, unit "beta": the regularized incomplete beta function.
//
// Oracle: 0 ≤ I ≤ 1; I_x(a,b) + I_{1−x}(b,a) = 1 to 1e-10 (x chosen so that
// 1−x is exact); monotone in x (1e-13); NaN outside [0,1] (documented); no
// panic (continued fraction non-convergence) for (a,b) = (ν/2, ½) and its
// mirror with ν in [1, 1e5] and for general a,b in [0.5, 5e4]; for a,b ≥ 1,
// a+b ≤ 1e4 agreement with numerical integration of the beta density (1e-9).
package stats

import (
	"math"
	"testing"

	"pgregory.net/rapid"
	"verif/harness/lib/refstat"
	"verif/harness/lib/vcase"
)

type c12BetaCase struct {
	Mode string  // "nu": (a,b) = (ν/2, ½), x = ν/(ν+t²) as the t CDF forms it; "general"
	Nu   float64 // mode "nu"
	T    float64 // mode "nu"
	A, B float64 // mode "general"
	X    float64 // mode "general": argument in [0,1] with 1−X exact
	X2   float64 // second argument for the monotonicity check (both modes; general only)
	Out  float64 // an argument outside [0,1]
}

// c12GenUnit draws x in [0,1] such that 1−x is exactly representable: any
// float in [½,1] (Sterbenz) or one minus such a number.
func c12GenUnit(t *rapid.T, name string, mean, sd float64) float64 {
	var y float64
	switch rapid.IntRange(0, 5).Draw(t, name+"_class") {
	case 0, 1:
		y = rapid.Float64Range(0.5, 1).Draw(t, name+"_u")
	case 2, 3: // around the mean of Beta(a,b), where the branch switch sits
		x := mean + sd*rapid.Float64Range(-8, 8).Draw(t, name+"_k")
		x = math.Min(1, math.Max(0, x))
		if x >= 0.5 {
			return x
		}
		return 1 - (1 - x) // 1−x rounded once; result is 1−y with y in [½,1]
	case 4:
		y = 1 - c12Pow10(-rapid.Float64Range(0.31, 16).Draw(t, name+"_near1"))
	default:
		y = rapid.SampledFrom([]float64{0.5, 1, 1 - 1.0/(1<<53), 0.75}).Draw(t, name+"_edge")
	}
	if rapid.Bool().Draw(t, name+"_flip") {
		return 1 - y
	}
	return y
}

func c12GenBeta(t *rapid.T) c12BetaCase {
	var c c12BetaCase
	c.Out = rapid.SampledFrom([]float64{-1e-300, -0.5, 1.0000000000000002, 2, -1e300}).Draw(t, "out")
	if rapid.Bool().Draw(t, "mode_nu") {
		c.Mode = "nu"
		c.Nu = c12GenNu(t)
		c.T = math.Abs(c12GenX(t, "t"))
		return c
	}
	c.Mode = "general"
	gen := func(name string) float64 {
		switch rapid.IntRange(0, 3).Draw(t, name+"_class") {
		case 0:
			return float64(rapid.IntRange(1, 200).Draw(t, name+"_half")) / 2
		case 1:
			return rapid.Float64Range(0.5, 50).Draw(t, name+"_small")
		default:
			return math.Min(5e4, 0.5*c12Pow10(rapid.Float64Range(0, 5).Draw(t, name+"_log")))
		}
	}
	c.A, c.B = gen("a"), gen("b")
	mean := c.A / (c.A + c.B)
	sd := math.Sqrt(c.A * c.B / ((c.A + c.B) * (c.A + c.B) * (c.A + c.B + 1)))
	c.X = c12GenUnit(t, "x", mean, sd)
	c.X2 = c12GenUnit(t, "x2", mean, sd)
	return c
}

func c12CheckBeta(c c12BetaCase) (v vcase.Verdict) {
	var a, b float64
	var xs []float64
	switch c.Mode {
	case "nu":
		if !(c.Nu >= 1 && c.Nu <= 1e5) || !(c.T >= 0) || math.IsInf(c.T, 0) {
			return
		}
		a, b = c.Nu/2, 0.5
		xs = []float64{c.Nu / (c.Nu + c.T*c.T)}
		v.Label("from_nu")
		v.NonTrivial = c.Nu != math.Trunc(c.Nu) || c.Nu > 100 || c.T > 10
	case "general":
		if !(c.A >= 0.5 && c.A <= 5e4 && c.B >= 0.5 && c.B <= 5e4) {
			return
		}
		a, b = c.A, c.B
		xs = []float64{c.X, c.X2}
		v.Label("general")
		v.NonTrivial = a > 50 || b > 50 || 2*a != math.Trunc(2*a) || 2*b != math.Trunc(2*b)
	default:
		return
	}
	if a > 5000 || b > 5000 {
		v.Label("a_or_b>5000")
	}
	vals := make([]float64, len(xs))
	for i, x := range xs {
		if !(x >= 0 && x <= 1) {
			return
		}
		I := mathBetaInc(x, a, b) // a panic here is turned into a violation by vcase.Guard
		vals[i] = I
		v.Sub++
		if !(I >= 0 && I <= 1) {
			v.Failf("I_%v(%v,%v) = %v outside [0,1]", x, a, b, I)
			return
		}
		if x == 0 && I != 0 || x == 1 && I != 1 {
			v.Failf("I_%v(%v,%v) = %v", x, a, b, I)
			return
		}
		// Reflection, at an argument whose complement is exact.
		y := 1 - x
		if y+x == 1 && c12ExactSum(y, x, 1) {
			J := mathBetaInc(y, b, a)
			// DESIGN.md tolerance 1e-10, plus the float64 floor of the
			// prefactor exp(lgamma(a+b) − lgamma(a) − lgamma(b) + a·ln x +
			// b·ln(1−x)): each term carries ≤ 1 ulp and the sum of terms of
			// size L is rounded again, so the exponent is off by ≤ 2ε·L
			// and each of the two values (≤ 1) by that relative amount.
			// L ≤ 2e4 for a,b ≤ 1000 (floor 1e-11); at a = b = 5e4 the
			// floor is 9e-10 (observed: I_½(5e4,5e4) = ½ + 5.5e-11).
			la, _ := math.Lgamma(a)
			lb, _ := math.Lgamma(b)
			lab, _ := math.Lgamma(a + b)
			L := math.Abs(la) + math.Abs(lb) + math.Abs(lab)
			if x > 0 && x < 1 {
				L += a*math.Abs(math.Log(x)) + b*math.Abs(math.Log(y))
			}
			if d := math.Abs(I + J - 1); !(d <= 1e-10+2*(2*c12Eps*L)) {
				v.Failf("I_%v(%v,%v) = %.17g, I_%v(%v,%v) = %.17g: sum − 1 = %g", x, a, b, I, y, b, a, J, I+J-1)
				return
			}
			v.Label("reflection_checked")
		} else {
			v.Label("complement_inexact")
		}
		if x < (a+1)/(a+b+2) {
			v.Label("direct_branch")
		} else {
			v.Label("mirrored_branch")
		}
		// Numerical integration of the beta density (see refstat.BetaInc
		// for why a+b is limited).
		if a >= 1 && b >= 1 && a+b <= 1e4 {
			if ref, ok := refstat.BetaInc(x, a, b); ok {
				v.Label("integrated")
				if d := math.Abs(I - ref); d > 1e-9 {
					v.Failf("I_%v(%v,%v) = %.17g but integrating the density gives %.17g (diff %g)", x, a, b, I, ref, d)
					return
				}
			} else {
				v.Label("integrator_gave_up")
			}
		}
	}
	if len(xs) == 2 {
		lo, hi := 0, 1
		if xs[0] > xs[1] {
			lo, hi = 1, 0
		}
		// 1e-13 for rounding as for the distribution functions, plus the
		// noise of the prefactor x^a(1−x)^b whose arguments are rounded to ε
		// relative: (a+b)·ε relative on values ≤ 1 (observed 1.2e-13 at
		// a = 427, b = 5e4).
		if vals[lo] > vals[hi]+1e-13+(a+b)*c12Eps {
			v.Failf("I_x(%v,%v) not monotone: I_%v = %.17g > I_%v = %.17g", a, b, xs[lo], vals[lo], xs[hi], vals[hi])
			return
		}
	}
	if c.Mode == "nu" && c.T > 0 {
		// The two forms in which the t CDF uses the function:
		//   F_ν(t) = 1 − ½·I_q(ν/2, ½),  q = ν/(ν+t²)   and
		//   F_ν(t) = ½ + ½·I_r(½, ν/2),  r = t²/(ν+t²).
		// q as formed in float64 no longer determines t when t² ≪ ν (that
		// loss belongs to the caller, not to the beta function), so the first
		// form is compared at the argument q actually stands for,
		// t' = √(ν(1−q)/q); r is formed without cancellation.
		q := xs[0]
		if q > 0 {
			tEff := math.Sqrt(c.Nu * (1 - q) / q)
			if ref, ok := refstat.TCDF(c.Nu, tEff); ok {
				if f := 1 - 0.5*vals[0]; math.Abs(f-ref) > 1e-9 {
					v.Failf("ν=%v: 1 − ½·I_%v(ν/2,½) = %.17g, integral of the t density up to %v is %.17g", c.Nu, q, f, tEff, ref)
					return
				}
			}
		}
		if t2 := c.T * c.T; !math.IsInf(t2, 0) && t2 > 0 {
			r := t2 / (c.Nu + t2) // loses t when t² ≫ ν: compare at √(ν·r/(1−r))
			J := mathBetaInc(r, 0.5, c.Nu/2)
			v.Sub++
			if !(J >= 0 && J <= 1) {
				v.Failf("I_%v(½,%v) = %v outside [0,1]", r, c.Nu/2, J)
				return
			}
			if r < 1 {
				tEff := math.Sqrt(c.Nu * r / (1 - r))
				if r < 0.5 {
					tEff = c.T // 1−r is not exact here, but r determines t to ε
				}
				if ref, ok := refstat.TCDF(c.Nu, tEff); ok {
					if f := 0.5 + 0.5*J; math.Abs(f-ref) > 1e-9 {
						v.Failf("ν=%v: ½ + ½·I_%v(½,ν/2) = %.17g, integral of the t density up to %v is %.17g", c.Nu, r, f, tEff, ref)
						return
					}
				}
			}
		}
	}
	if o := mathBetaInc(c.Out, a, b); !math.IsNaN(o) {
		v.Failf("I_%v(%v,%v) = %v, documented NaN outside [0,1]", c.Out, a, b, o)
	}
	return v
}

func TestC12Beta(t *testing.T) {
	vcase.Run(t, "C12", "beta", c12GenBeta, c12CheckBeta)
}
