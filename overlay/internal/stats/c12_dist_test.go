// C12, unit "dist": Student-t and normal distribution functions.
//
// Oracle (all tolerances from DESIGN.md §C12): 0 ≤ F ≤ 1; monotone on sorted
// x (1e-13); F(−x) = 1 − F(x) (1e-12); F agrees with adaptive Gauss–Kronrod
// integration of the textbook density and of the implementation's own PDF
// (1e-9), and for ν > 200 with the normal limit; CDF(InvCDF(p)) = p (1e-9) for
// the normal closed form and for the generic bisection inverse; no panic.
package stats

import (
	"math"
	"math/big"
	"sort"
	"testing"

	"pgregory.net/rapid"
	"verif/harness/lib/refstat"
	"verif/harness/lib/vcase"
)

type c12DistCase struct {
	Kind      string    // "t" or "normal"
	V         float64   // ν (t)
	Mu, Sigma float64   // normal
	Xs        []float64 // finite arguments; for "normal" these are offsets d (x = μ ± d) when Exact, else absolute x
	Exact     bool      // normal only: Xs are offsets d with μ ± d exactly representable
	Inf       bool      // also evaluate at ±Inf
	Ps        []float64 // arguments of the inverse (some outside [0,1])
	Integrate bool      // apply the numerical-integration oracle
	Reuse     int       // the inverse functions are first used for this many other probabilities (one object, many calls)
}

func c12GenNu(t *rapid.T) float64 {
	switch rapid.IntRange(0, 7).Draw(t, "nu_class") {
	case 0, 1:
		return float64(rapid.IntRange(1, 100).Draw(t, "nu_int"))
	case 2:
		return float64(rapid.IntRange(2, 200).Draw(t, "nu_half")) / 2
	case 3:
		return rapid.Float64Range(1, 100).Draw(t, "nu_real")
	case 4, 5:
		return math.Min(1e5, c12Pow10(rapid.Float64Range(0, 5).Draw(t, "nu_log")))
	case 6:
		return float64(rapid.IntRange(101, 100000).Draw(t, "nu_bigint"))
	default:
		return rapid.SampledFrom([]float64{1, 1.0000000000000002, 1.5, 2, 2.5, 3, 30, 100, 200, 200.5, 1000, 5.584615384615385, 99999.5, 1e5}).Draw(t, "nu_special")
	}
}

func c12GenX(t *rapid.T, name string) float64 {
	s := 1.0
	if rapid.Bool().Draw(t, name+"_neg") {
		s = -1
	}
	switch rapid.IntRange(0, 9).Draw(t, name+"_class") {
	case 0, 1:
		return s * float64(rapid.IntRange(0, 80).Draw(t, name+"_grid")) / 8
	case 2, 3:
		return s * rapid.Float64Range(0, 6).Draw(t, name+"_mid")
	case 4:
		return s * rapid.Float64Range(0, 50).Draw(t, name+"_wide")
	case 5, 6:
		return s * c12Pow10(rapid.Float64Range(-3, 6).Draw(t, name+"_log"))
	case 7:
		if rapid.Bool().Draw(t, name+"_small") {
			return s * c12Pow10(-rapid.Float64Range(2, 12).Draw(t, name+"_small_e"))
		}
		return s * c12Pow10(-rapid.Float64Range(12, 320).Draw(t, name+"_tiny"))
	case 8:
		return s * c12Pow10(rapid.Float64Range(6, 308).Draw(t, name+"_huge"))
	default:
		return rapid.SampledFrom([]float64{0, 1, -1, 1e6, -1e6, math.MaxFloat64, -math.MaxFloat64, math.SmallestNonzeroFloat64, 1.3407807929942596e154, 1e-162}).Draw(t, name+"_special")
	}
}

func c12GenP(t *rapid.T, name string) float64 {
	switch rapid.IntRange(0, 9).Draw(t, name+"_class") {
	case 0, 1, 2, 3:
		return rapid.Float64Range(0, 1).Draw(t, name+"_u")
	case 4:
		return c12Pow10(-rapid.Float64Range(0, 17).Draw(t, name+"_lo"))
	case 5:
		return 1 - c12Pow10(-rapid.Float64Range(0.31, 15.9).Draw(t, name+"_hi"))
	case 6:
		return c12Pow10(-rapid.Float64Range(17, 307).Draw(t, name+"_vlo"))
	case 7:
		return rapid.SampledFrom([]float64{0.02425, 1 - 0.02425, 0.024249999999999997, 0.9757500000000001, 0.5, 0.25, 0.975, 0.995}).Draw(t, name+"_edge")
	case 8:
		return rapid.SampledFrom([]float64{0, 1, 1 - 1.0/(1<<53), math.SmallestNonzeroFloat64, 2.2250738585072014e-308}).Draw(t, name+"_end")
	default:
		return rapid.SampledFrom([]float64{-0.1, 1.5, -1e-300, 1.0000000000000002, -1, 2}).Draw(t, name+"_outside")
	}
}

func c12GenDist(t *rapid.T) c12DistCase {
	var c c12DistCase
	if rapid.IntRange(0, 3).Draw(t, "dist") < 3 {
		c.Kind = "t"
		c.V = c12GenNu(t)
		n := rapid.IntRange(1, 8).Draw(t, "nx")
		for i := 0; i < n; i++ {
			c.Xs = append(c.Xs, c12GenX(t, "x"))
		}
	} else {
		c.Kind = "normal"
		switch rapid.IntRange(0, 3).Draw(t, "mu_class") {
		case 0:
			c.Mu = 0
		case 1, 2:
			c.Mu = float64(rapid.IntRange(-64000, 64000).Draw(t, "mu_grid")) / 64
		default:
			c.Mu = rapid.Float64Range(-1, 1).Draw(t, "mu_m") * c12Pow10(rapid.Float64Range(-6, 9).Draw(t, "mu_e"))
		}
		switch rapid.IntRange(0, 3).Draw(t, "sigma_class") {
		case 0:
			c.Sigma = 1
		case 1:
			c.Sigma = float64(rapid.IntRange(1, 4096).Draw(t, "sigma_grid")) / 16
		default:
			c.Sigma = c12Pow10(rapid.Float64Range(-6, 6).Draw(t, "sigma_log"))
		}
		n := rapid.IntRange(1, 8).Draw(t, "nx")
		c.Exact = c.Mu*64 == math.Trunc(c.Mu*64) && math.Abs(c.Mu) <= 1000 && rapid.Bool().Draw(t, "exact")
		for i := 0; i < n; i++ {
			if c.Exact {
				// offsets on a 2^-20 grid below 4096: μ ± d is exact
				c.Xs = append(c.Xs, float64(rapid.IntRange(0, 1<<32).Draw(t, "d"))/(1<<20))
			} else {
				z := c12GenX(t, "z")
				if math.Abs(z) > 1e6 {
					z = math.Copysign(1e6, z)
				}
				c.Xs = append(c.Xs, c.Mu+z*c.Sigma)
			}
		}
	}
	c.Inf = rapid.IntRange(0, 9).Draw(t, "inf") == 0
	np := rapid.IntRange(0, 4).Draw(t, "np")
	for i := 0; i < np; i++ {
		c.Ps = append(c.Ps, c12GenP(t, "p"))
	}
	c.Integrate = rapid.IntRange(0, 3).Draw(t, "integrate") == 0
	if vcase.OneIn(t, 800, "reuse") {
		c.Reuse = rapid.IntRange(1100, 1600).Draw(t, "nreuse")
	}
	// probabilities that are exactly the distribution function at small integers and at
	// 2^k-1 (points a bracketing search is likely to probe): InvCDF must invert there too
	if c.Kind == "t" && rapid.IntRange(0, 2).Draw(t, "probe") == 0 {
		x := rapid.SampledFrom([]float64{1, 3, 7, 15, 31, 63, 2, 4, 8, 0.5, -1, -3, -7, 0}).Draw(t, "probe_x")
		if p := (TDist{V: c.V}).CDF(x); p > 1e-12 && p < 1-1e-12 {
			c.Ps = append(c.Ps, p)
		}
	}
	return c
}

// c12NoInv hides a distribution's own InvCDF method so that the package's
// generic bisection inverse is exercised.
type c12NoInv struct{ d Dist }

func (w c12NoInv) CDF(x float64) float64      { return w.d.CDF(x) }
func (w c12NoInv) PDF(x float64) float64      { return w.d.PDF(x) }
func (w c12NoInv) Bounds() (float64, float64) { return w.d.Bounds() }

func c12ExactSum(a, b, s float64) bool {
	r := new(big.Rat).Add(refstat.Rat(a), refstat.Rat(b))
	return r.Cmp(refstat.Rat(s)) == 0
}

func c12CheckDist(c c12DistCase) (v vcase.Verdict) {
	var dist Dist
	var centre float64
	switch c.Kind {
	case "t":
		if !(c.V >= 1 && c.V <= 1e5) {
			return
		}
		dist = TDist{V: c.V}
		v.Label("t")
		switch {
		case c.V != math.Trunc(c.V):
			v.Label("nu_nonint")
		case c.V > 100:
			v.Label("nu_int>100")
		default:
			v.Label("nu_int<=100")
		}
		if c.V > 200 {
			v.Label("nu>200")
		}
		if c.V > 1e4 {
			v.Label("nu>1e4")
		}
	case "normal":
		if !(c.Sigma > 0) || !c12Finite(c.Mu) || !c12Finite(c.Sigma) {
			return
		}
		dist = NormalDist{Mu: c.Mu, Sigma: c.Sigma}
		centre = c.Mu
		v.Label("normal")
		if c.Mu == 0 && c.Sigma == 1 {
			v.Label("std_normal")
		}
	default:
		return
	}

	// The argument list: each x together with its mirror image.
	type pt struct{ x, mirror, f, fm float64 }
	var pts []pt
	for _, x := range c.Xs {
		if !c12Finite(x) {
			return
		}
		switch {
		case c.Kind == "t":
			pts = append(pts, pt{x: x, mirror: -x})
		case c.Exact:
			lo, hi := c.Mu-x, c.Mu+x
			if !c12ExactSum(c.Mu, x, hi) || !c12ExactSum(c.Mu, -x, lo) {
				continue
			}
			pts = append(pts, pt{x: hi, mirror: lo})
		default:
			pts = append(pts, pt{x: x, mirror: math.NaN()})
		}
	}
	if c.Inf {
		pts = append(pts, pt{x: math.Inf(1), mirror: math.Inf(-1)})
	}
	zOf := func(x float64) float64 {
		if c.Kind == "t" {
			return x
		}
		return (x - c.Mu) / c.Sigma
	}
	all := make([]float64, 0, 2*len(pts))
	for i := range pts {
		p := &pts[i]
		p.f = dist.CDF(p.x)
		all = append(all, p.x)
		v.Sub++
		if !(p.f >= 0 && p.f <= 1) {
			v.Failf("%s %+v: CDF(%v) = %v outside [0,1]", c.Kind, dist, p.x, p.f)
			return
		}
		if math.Abs(zOf(p.x)) > 10 {
			v.Label("|z|>10")
		}
		if z := zOf(p.x); c.Kind == "normal" && z <= -6.5 && z > -37 {
			// far lower tail: the value is tiny, so only a relative comparison says anything.
			// Reference: the asymptotic expansion Φ(z) = φ(z)/|z|·(1 − 1/z² + 3/z⁴ − 15/z⁶ + …),
			// an alternating series whose error is below the first omitted term.
			sum, term, bound := 1.0, 1.0, 1.0
			for k := 1; k < 200; k++ {
				next := -term * float64(2*k-1) / (z * z)
				if math.Abs(next) >= math.Abs(term) {
					break
				}
				term = next
				bound = math.Abs(term)
				sum += term
			}
			ref := math.Exp(-z*z/2) / math.Sqrt(2*math.Pi) / -z * sum
			if rel := math.Abs(p.f/ref - 1); !(rel <= bound+1e-9) {
				v.Failf("normal %+v: CDF(%v) = %g at z = %v, the tail expansion gives %g (relative difference %g, series bound %g)", dist, p.x, p.f, z, ref, rel, bound)
				return
			}
			v.Label("lower_tail_relative")
		}
		if p.x != 0 && math.Abs(p.x) < 1e-100 {
			v.Label("x_tiny")
		}
		if math.Abs(p.x) > 1e100 {
			v.Label("x_huge")
		}
		if c.Kind == "t" && p.x != 0 && p.x*p.x < 1e-10*c.V && p.x*p.x > 1e-24*c.V {
			v.Label("x²/ν in [1e-24,1e-10]") // where ν/(ν+x²) alone cannot carry x
		}
		if !math.IsNaN(p.mirror) {
			p.fm = dist.CDF(p.mirror)
			all = append(all, p.mirror)
			if !(p.fm >= 0 && p.fm <= 1) {
				v.Failf("%s %+v: CDF(%v) = %v outside [0,1]", c.Kind, dist, p.mirror, p.fm)
				return
			}
			if d := math.Abs(p.f + p.fm - 1); d > 1e-12 {
				v.Failf("%s %+v: F(%v)=%v and F(%v)=%v: F(−x) ≠ 1 − F(x) (off by %g)", c.Kind, dist, p.x, p.f, p.mirror, p.fm, d)
				return
			}
			v.Label("symmetry_checked")
		}
		if math.IsInf(p.x, 0) {
			if p.f != 1 || p.fm != 0 {
				v.Failf("%s %+v: CDF(+Inf)=%v CDF(−Inf)=%v", c.Kind, dist, p.f, p.fm)
				return
			}
		}
	}
	// Monotone on the sorted arguments.
	sort.Float64s(all)
	// DESIGN.md allows 1e-13 for rounding. For the t distribution the
	// prefactor of the incomplete beta function holds a power q^(ν/2) (or
	// (1−q)^(ν/2)) of an argument that was rounded to ε relative, which is
	// ν/2·ε relative noise on a term ≤ ½, for each of the two values compared:
	// the floor is ν·ε/2 (5.5e-12 at ν = 1e5; observed 1.3e-12 there). We
	// allow ν·ε on top of the 1e-13.
	monoTol := 1e-13
	if c.Kind == "t" {
		monoTol += c.V * c12Eps
	}
	prev, prevX := 0.0, math.Inf(-1)
	for _, x := range all {
		f := dist.CDF(x)
		if f < prev-monoTol {
			v.Failf("%s %+v: not monotone: F(%v)=%v > F(%v)=%v", c.Kind, dist, prevX, prev, x, f)
			return
		}
		prev, prevX = f, x
	}
	if c.Kind == "t" {
		if dist.CDF(0) != 0.5 {
			v.Failf("t %+v: CDF(0) = %v", dist, dist.CDF(0))
		}
	} else if f := dist.CDF(centre); math.Abs(f-0.5) > 1e-15 {
		v.Failf("normal %+v: CDF(μ) = %v", dist, f)
	}

	// Numerical integration of the densities.
	if c.Integrate {
		v.Label("integrated")
		for _, p := range pts {
			if math.IsInf(p.x, 0) {
				continue
			}
			z := zOf(p.x)
			var ref, dens float64
			var ok bool
			if c.Kind == "t" {
				ref, ok = refstat.TCDF(c.V, z)
				dens = refstat.TDensity(c.V, z)
			} else {
				ref, ok = refstat.NormCDF(z)
				dens = refstat.NormDensity(z) / c.Sigma
			}
			if !ok {
				v.Label("integrator_gave_up")
				continue
			}
			// The normal argument z = (x−μ)/σ carries two roundings; their
			// effect on Φ is ≤ φ(z)|z|·2ε < 1e-16.
			if d := math.Abs(p.f - ref); d > 1e-9 && !(c.Kind == "t" && c12TAgree(&v, c.V, p.x, p.f, ref, 1e-9)) {
				v.Failf("%s %+v: CDF(%v) = %.17g but the integral of the textbook density is %.17g (diff %g)", c.Kind, dist, p.x, p.f, ref, d)
				return
			}
			// PDF against the textbook density: relative 1e-9 (the
			// implementation's pow/exp of arguments up to ν·log(1+x²/ν)
			// lose about ν·1e-16 relative), plus the underflow floor.
			pdf := dist.PDF(p.x)
			if d := math.Abs(pdf - dens); !(d <= 1e-9*dens+1e-300) {
				v.Failf("%s %+v: PDF(%v) = %.17g, textbook density %.17g", c.Kind, dist, p.x, pdf, dens)
				return
			}
			// The CDF is the integral of the implementation's own PDF.
			var own float64
			if c.Kind == "t" {
				own, ok = refstat.CDFByIntegration(dist.PDF, z, 2e-11)
			} else {
				sig, mu := c.Sigma, c.Mu
				own, ok = refstat.CDFByIntegration(func(u float64) float64 { return sig * dist.PDF(mu+u*sig) }, z, 2e-11)
			}
			if ok {
				// For the normal case with |μ| ≫ σ the argument μ+uσ of the
				// PDF is rounded to ulp(μ), which perturbs the integrand by
				// ulp(μ)/σ relative; allow for it.
				tol := 1e-9
				if c.Kind == "normal" {
					tol += 4 * c12Ulp(math.Abs(c.Mu)+math.Abs(z)*c.Sigma) / c.Sigma
				}
				if d := math.Abs(p.f - own); d > tol && !(c.Kind == "t" && c12TAgree(&v, c.V, p.x, p.f, own, tol)) {
					v.Failf("%s %+v: CDF(%v) = %.17g but the integral of PDF is %.17g (diff %g)", c.Kind, dist, p.x, p.f, own, d)
					return
				}
			}
			if c.Kind == "t" && c.V > 200 {
				phi, ok := refstat.NormCDF(z)
				lim, bound := refstat.TCDFNormalLimit(c.V, z, phi)
				if ok && !c12TAgree(&v, c.V, p.x, p.f, lim, bound+1e-9) {
					v.Failf("t %+v: CDF(%v) = %.17g is not within %g of the normal limit %.17g", dist, p.x, p.f, bound, lim)
					return
				}
				v.Label("normal_limit_checked")
			}
			v.Sub++
		}
	}

	// Inverse distribution functions.
	type inv struct {
		name string
		d    DistCommon
		f    func(float64) float64
	}
	var invs []inv
	if c.Kind == "t" {
		invs = append(invs, inv{"generic", dist, InvCDF(dist)})
	} else {
		invs = append(invs, inv{"closed", dist, InvCDF(dist)})
		w := c12NoInv{dist}
		invs = append(invs, inv{"generic", w, InvCDF(w)})
	}
	// One inverse function used for many probabilities (drawing variates,
	// tabulating quantiles): it must keep inverting. The probabilities are a
	// fixed low-discrepancy sequence; each answer is checked like the others.
	if c.Reuse > 0 {
		v.Label("inverse_reused_>1000x")
		for _, iv := range invs {
			for i := 1; i <= c.Reuse; i++ {
				p := math.Mod(float64(i)*0.6180339887498949, 1)
				x := iv.f(p)
				if i%16 != 0 && c12Finite(x) && math.Abs(x) < 1e300 {
					continue // (every 16th answer, and every suspicious one, is checked in full)
				}
				back := dist.CDF(x)
				tol := 1e-9
				if c.Kind == "normal" && c12Finite(x) {
					tol += 0.4 * c12Ulp(x) / c.Sigma
				}
				if d := math.Abs(back - p); !(d <= tol) {
					if c.Kind == "t" && vcase.KnownListed("C12-a") && c12Finite(x) {
						if m, ok := c12StairModel(c.V, x); ok && math.Abs(back-m) <= 1e-9 {
							v.KnownHit("C12-a")
							continue
						}
					}
					v.Failf("%s %+v: %s inverse, call %d on one inverse function: CDF(InvCDF(%v)) = CDF(%v) = %v (off by %g, tolerance %g)", c.Kind, dist, iv.name, i, p, x, back, d, tol)
					return
				}
			}
		}
	}
	for _, p := range c.Ps {
		for _, iv := range invs {
			x := iv.f(p)
			v.Sub++
			if p < 0 || p > 1 {
				v.Label("p_outside")
				if !math.IsNaN(x) {
					v.Failf("%s %+v: %s InvCDF(%v) = %v, documented NaN", c.Kind, dist, iv.name, p, x)
					return
				}
				continue
			}
			switch {
			case p == 0 || p == 1:
				v.Label("p_end")
			case p < 1e-17:
				v.Label("p<1e-17")
			case p < 0.02425 || p > 1-0.02425:
				v.Label("p_tail")
			default:
				v.Label("p_central")
			}
			if math.IsNaN(x) {
				v.Failf("%s %+v: %s InvCDF(%v) = NaN", c.Kind, dist, iv.name, p)
				return
			}
			if p == 0 && !math.IsInf(x, -1) || p == 1 && !math.IsInf(x, 1) {
				v.Failf("%s %+v: %s InvCDF(%v) = %v, documented ∓Inf for infinite support", c.Kind, dist, iv.name, p, x)
				return
			}
			back := dist.CDF(x)
			// No float64 x can do better than the spacing of the numbers
			// around x times the density: |F(x±ulp) − F(x)| ≤ f_max·ulp(x),
			// f_max = 0.4/σ. That term matters only for |μ| ≫ σ.
			tol := 1e-9
			if iv.name == "closed" {
				// The closed form is a rational approximation (relative error about 1e-9)
				// followed by one refinement step, which is there to remove that error: a
				// tenth of it, relative to the smaller tail, tells a working refinement from a
				// broken one. (Plus a few units of round-off of the distribution function.)
				tol = 1e-10*math.Min(p, 1-p) + 1e-15
			}
			if c.Kind == "normal" && c12Finite(x) {
				tol += 0.4 * c12Ulp(x) / c.Sigma
			}
			if d := math.Abs(back - p); !(d <= tol) {
				// Finding C12-a: the inverse is exact for the implemented
				// (staircase) CDF — x is the smallest float with CDF(x) ≥ p —
				// and the stair at x is the one the finding predicts.
				if c.Kind == "t" && vcase.KnownListed("C12-a") && c12Finite(x) &&
					back >= p && dist.CDF(math.Nextafter(x, math.Inf(-1))) < p {
					if m, ok := c12StairModel(c.V, x); ok && math.Abs(back-m) <= 1e-9 {
						v.KnownHit("C12-a")
						continue
					}
				}
				v.Failf("%s %+v: %s inverse: CDF(InvCDF(%v)) = CDF(%v) = %v (off by %g, tolerance %g)", c.Kind, dist, iv.name, p, x, back, d, tol)
				return
			}
		}
	}

	// Non-triviality (DESIGN.md): ν non-integer or > 100, or an argument
	// beyond 10 (standard deviations).
	if c.Kind == "t" && (c.V != math.Trunc(c.V) || c.V > 100) {
		v.NonTrivial = true
	}
	for _, p := range pts {
		if z := zOf(p.x); math.Abs(z) > 10 && !math.IsInf(z, 0) {
			v.NonTrivial = true
		}
	}
	return v
}

func TestC12Dist(t *testing.T) {
	vcase.Run(t, "C12", "dist", c12GenDist, c12CheckDist)
}
