package stats

// C11: Mann-Whitney U statistics and p-values are exact for small samples.
// In-package (overlay) test; the oracle lives in verif/harness/lib/refstat.

import (
	"fmt"
	"math"
	"testing"

	"pgregory.net/rapid"
	"verif/harness/lib/refstat"
	"verif/harness/lib/vcase"
)

type c11Case struct {
	X1, X2 []float64
	// overrides of the exported limits MannWhitneyExactLimit / MannWhitneyTiesExactLimit
	// for the duration of the case (0 = leave the default 50 / 25)
	Limit, TiesLimit int
}

func c11close(a, b float64) bool {
	if math.IsInf(a, 0) || math.IsInf(b, 0) {
		return a == b
	}
	return math.Abs(a-b) <= 1e-9*math.Max(1, math.Max(math.Abs(a), math.Abs(b))) || math.Abs(a-b) <= 1e-9*math.Abs(b)
}

// c11Check compares MannWhitneyUTest with the reference for all three
// alternatives. exactDist chooses brute-force enumeration (trusted base) when
// small, the DP otherwise.
func c11Check(c c11Case) (v vcase.Verdict) {
	n1, n2 := len(c.X1), len(c.X2)
	t := refstat.TieGroups(c.X1, c.X2)
	hasTies := false
	for _, m := range t {
		if m > 1 {
			hasTies = true
		}
	}
	if hasTies {
		v.Label("ties")
		if len(t) == 2 {
			v.Label("K=2")
		}
	} else {
		v.Label("untied")
	}
	// error cases
	if n1 == 0 || n2 == 0 {
		v.Label("empty_sample")
		for _, alt := range []LocationHypothesis{LocationLess, LocationDiffers, LocationGreater} {
			r, err := MannWhitneyUTest(c.X1, c.X2, alt)
			if err != ErrSampleSize || r != nil {
				v.Failf("empty sample: got (%v, %v), want ErrSampleSize", r, err)
			}
		}
		return
	}
	if len(t) == 1 {
		v.Label("all_equal")
		for _, alt := range []LocationHypothesis{LocationLess, LocationDiffers, LocationGreater} {
			r, err := MannWhitneyUTest(c.X1, c.X2, alt)
			if err != ErrSamplesEqual || r != nil {
				v.Failf("all values equal (%v, %v): got (%+v, %v), want ErrSamplesEqual", c.X1, c.X2, r, err)
			}
		}
		return
	}
	v.NonTrivial = true
	twoU := refstat.TwoU(c.X1, c.X2)
	lim, tlim := 50, 25
	if MannWhitneyExactLimit != 50 || MannWhitneyTiesExactLimit != 25 {
		v.Failf("VERIF-BROKEN: limits not at their defaults at case start")
		return
	}
	if c.Limit > 0 || c.TiesLimit > 0 {
		v.Label("limits_overridden")
		defer func(a, b int) { MannWhitneyExactLimit, MannWhitneyTiesExactLimit = a, b }(MannWhitneyExactLimit, MannWhitneyTiesExactLimit)
		if c.Limit > 0 {
			lim, MannWhitneyExactLimit = c.Limit, c.Limit
		}
		if c.TiesLimit > 0 {
			tlim, MannWhitneyTiesExactLimit = c.TiesLimit, c.TiesLimit
		}
	}
	exact := (!hasTies && n1 <= lim && n2 <= lim) || (hasTies && n1 <= tlim && n2 <= tlim)
	var dist refstat.Dist
	if exact {
		v.Label("exact_path")
		if n1+n2 <= 13 {
			dist = refstat.EnumDist(t, n1)
			v.Label("oracle=enumeration")
		} else {
			dist = refstat.DPDist(t, n1)
			v.Label("oracle=dp")
		}
	} else {
		v.Label("approx_path")
	}
	x1c := append([]float64(nil), c.X1...)
	x2c := append([]float64(nil), c.X2...)
	var pTwo float64
	// every result is looked at again after all later calls: a result describes its
	// own call for as long as the caller keeps it
	var kept []*MannWhitneyUTestResult
	var keptCopy []MannWhitneyUTestResult
	defer func() {
		for i, r := range kept {
			if *r != keptCopy[i] {
				v.Failf("result %d of MannWhitneyUTest(%v, %v) changed after later calls: was %+v, now %+v", i, c.X1, c.X2, keptCopy[i], *r)
				return
			}
		}
	}()
	for _, alt := range []LocationHypothesis{LocationLess, LocationDiffers, LocationGreater} {
		r, err := MannWhitneyUTest(c.X1, c.X2, alt)
		if err != nil || r == nil {
			v.Failf("MannWhitneyUTest(%v, %v, %d): error %v", c.X1, c.X2, alt, err)
			return
		}
		kept, keptCopy = append(kept, r), append(keptCopy, *r)
		if r.N1 != n1 || r.N2 != n2 || r.AltHypothesis != alt {
			v.Failf("N1/N2/alt = %d/%d/%d, want %d/%d/%d", r.N1, r.N2, r.AltHypothesis, n1, n2, alt)
			return
		}
		if r.U*2 != float64(twoU) {
			v.Failf("U(%v, %v) = %v, pair counting gives %v", c.X1, c.X2, r.U, float64(twoU)/2)
			return
		}
		var want float64
		if exact {
			switch alt {
			case LocationLess:
				want = dist.PLE(twoU)
			case LocationGreater:
				want = dist.PGE(twoU)
			default:
				want = dist.TwoSided(twoU)
			}
		} else {
			var ok bool
			want, ok = refstat.NormalApprox(twoU, n1, n2, t, int(alt))
			if !ok {
				v.Failf("VERIF: zero variance in reference")
				return
			}
		}
		if alt == LocationDiffers {
			pTwo = r.P
		}
		tol := c11close(r.P, want)
		if !exact {
			tol = math.Abs(r.P-want) <= 1e-12
		}
		if !tol {
			// Known finding C11-a: two-sided exact p with ties is 2·F(min(U1, n1n2−U1)) with F
			// the distribution function of U1's own (asymmetric) null distribution, uncapped.
			if exact && hasTies && alt == LocationDiffers && vcase.KnownListed("C11-a") {
				small := twoU
				if o := 2*n1*n2 - twoU; o < small {
					small = o
				}
				model := 2 * dist.PLE(small)
				if small == n1*n2 { // U1 == U2: the implementation returns 1 outright
					model = 1
				}
				if c11close(r.P, model) {
					v.KnownHit("C11-a")
					continue
				}
			}
			v.Failf("MannWhitneyUTest(%v, %v, alt=%d): U=%v P=%v, reference %v (exact=%v ties=%v)", c.X1, c.X2, alt, r.U, r.P, want, exact, hasTies)
			return
		}
		if r.P < 0 || r.P > 1+1e-12 {
			v.Failf("P = %v outside [0,1]", r.P)
			return
		}
	}
	// symmetry of the two-sided p under swapping the samples
	r2, err := MannWhitneyUTest(c.X2, c.X1, LocationDiffers)
	if err != nil {
		v.Failf("swapped: %v", err)
		return
	}
	kept, keptCopy = append(kept, r2), append(keptCopy, *r2)
	if !c11close(r2.P, pTwo) && math.Abs(r2.P-pTwo) > 1e-12 {
		if !(exact && hasTies && vcase.KnownListed("C11-a") && len(v.Known) > 0) {
			// (a case already booked under C11-a is asymmetric by the same defect)
			small := twoU
			if o := 2*n1*n2 - twoU; o < small {
				small = o
			}
			tSw := refstat.TieGroups(c.X2, c.X1)
			dSw := dist
			if exact {
				if n1+n2 <= 13 {
					dSw = refstat.EnumDist(tSw, n2)
				} else {
					dSw = refstat.DPDist(tSw, n2)
				}
			}
			modelSw := 2 * dSw.PLE(small)
			if small == n1*n2 {
				modelSw = 1
			}
			if exact && hasTies && vcase.KnownListed("C11-a") && c11close(r2.P, modelSw) {
				v.KnownHit("C11-a")
			} else {
				v.Failf("two-sided p changes when the samples are swapped: %v vs %v (%v, %v)", pTwo, r2.P, c.X1, c.X2)
				return
			}
		}
	}
	if r2.U*2 != float64(2*n1*n2-twoU) {
		v.Failf("swapped U = %v, want %v", r2.U, float64(2*n1*n2-twoU)/2)
		return
	}
	// A caller that refills one buffer with new values (a sliding window): the answer is
	// about the values passed now.
	{
		buf := append([]float64(nil), c.X1...)
		if _, err := MannWhitneyUTest(buf, c.X2, LocationDiffers); err == nil {
			for i := range buf {
				buf[i] = -buf[i] // mirrored: other ranks, same buffer, same length
			}
			wantTwoU := refstat.TwoU(buf, c.X2)
			if r3, err := MannWhitneyUTest(buf, c.X2, LocationDiffers); err == nil && r3.U*2 != float64(wantTwoU) {
				v.Failf("MannWhitneyUTest on a refilled buffer: U(%v, %v) = %v, pair counting gives %v (the buffer held %v before)", buf, c.X2, r3.U, float64(wantTwoU)/2, c.X1)
				return
			}
		}
	}
	// The test looks at the order of the values only: with the largest pooled value replaced by
	// +Inf and the smallest by -Inf (an order-preserving change) every result is the same.
	{
		lo, hi := math.Inf(1), math.Inf(-1)
		for _, x := range append(append([]float64(nil), c.X1...), c.X2...) {
			lo, hi = math.Min(lo, x), math.Max(hi, x)
		}
		stretch := func(xs []float64) []float64 {
			ys := append([]float64(nil), xs...)
			for i, y := range ys {
				switch y {
				case hi:
					ys[i] = math.Inf(1)
				case lo:
					ys[i] = math.Inf(-1)
				}
			}
			return ys
		}
		if lo < hi {
			y1, y2 := stretch(c.X1), stretch(c.X2)
			for i, alt := range []LocationHypothesis{LocationLess, LocationDiffers, LocationGreater} {
				r, err := MannWhitneyUTest(y1, y2, alt)
				if err != nil || r == nil {
					v.Failf("MannWhitneyUTest(%v, %v, %d) (extreme values made infinite): error %v", y1, y2, alt, err)
					return
				}
				if r.U != keptCopy[i].U || !(c11close(r.P, keptCopy[i].P) || math.Abs(r.P-keptCopy[i].P) <= 1e-12) {
					v.Failf("MannWhitneyUTest(%v, %v, alt=%d): U=%v P=%v, but U=%v P=%v for %v, %v, which are in the same order", y1, y2, alt, r.U, r.P, keptCopy[i].U, keptCopy[i].P, c.X1, c.X2)
					return
				}
			}
			v.Label("infinite_extremes")
		}
		// A zero is a zero whatever its sign: with every value moved so that the smallest is 0
		// (exact for the integers used here) and the zeros of the first sample written as -0,
		// every result is again the same.
		whole := true
		for _, x := range append(append([]float64(nil), c.X1...), c.X2...) {
			whole = whole && x == math.Trunc(x) && math.Abs(x) < 1<<40
		}
		if whole && lo < hi {
			y1, y2 := append([]float64(nil), c.X1...), append([]float64(nil), c.X2...)
			nz := 0
			for i := range y1 {
				if y1[i] -= lo; y1[i] == 0 {
					y1[i] = math.Copysign(0, -1)
					nz++
				}
			}
			for i := range y2 {
				y2[i] -= lo
			}
			if nz > 0 {
				for i, alt := range []LocationHypothesis{LocationLess, LocationDiffers, LocationGreater} {
					r, err := MannWhitneyUTest(y1, y2, alt)
					if err != nil || r == nil {
						v.Failf("MannWhitneyUTest(%v, %v, %d) (zeros of the first sample negative): error %v", y1, y2, alt, err)
						return
					}
					if r.U != keptCopy[i].U || !(c11close(r.P, keptCopy[i].P) || math.Abs(r.P-keptCopy[i].P) <= 1e-12) {
						v.Failf("MannWhitneyUTest(%v, %v, alt=%d): U=%v P=%v, but U=%v P=%v for %v, %v, which are the same values shifted by %v", y1, y2, alt, r.U, r.P, keptCopy[i].U, keptCopy[i].P, c.X1, c.X2, lo)
						return
					}
				}
				v.Label("negative_zero")
			}
		}
	}
	for i := range x1c {
		if x1c[i] != c.X1[i] {
			v.Failf("input sample modified")
		}
	}
	for i := range x2c {
		if x2c[i] != c.X2[i] {
			v.Failf("input sample modified")
		}
	}
	return
}

// TestC11Exhaustive enumerates all pairs of multisets over {1..A} with sizes up to S.
func TestC11Exhaustive(t *testing.T) {
	A := vcase.Scale(4, 5)
	S := vcase.Scale(4, 5)
	maxN := vcase.Scale(8, 10)
	shard, nsh := vcase.Shard()
	var multisets [][]float64
	var rec func(start int, cur []float64)
	rec = func(start int, cur []float64) {
		multisets = append(multisets, append([]float64(nil), cur...))
		if len(cur) == S {
			return
		}
		for a := start; a <= A; a++ {
			rec(a, append(cur, float64(a)))
		}
	}
	rec(1, nil)
	vcase.Enum(t, "C11", "exhaustive", true, func(yield func(c11Case) bool) {
		idx := 0
		for _, a := range multisets {
			for _, b := range multisets {
				if len(a)+len(b) > maxN {
					continue
				}
				idx++
				if idx%nsh != shard {
					continue
				}
				if !yield(c11Case{X1: a, X2: b}) {
					return
				}
			}
		}
	}, c11Check)
}

func c11Gen(t *rapid.T) c11Case {
	var c c11Case
	if vcase.OneIn(t, 8, "special") {
		switch rapid.IntRange(0, 2).Draw(t, "specialkind") {
		case 0:
			// all values equal, any sizes (both paths): must be ErrSamplesEqual
			n1, n2 := rapid.IntRange(1, 60).Draw(t, "en1"), rapid.IntRange(1, 60).Draw(t, "en2")
			val := float64(rapid.IntRange(-3, 9).Draw(t, "eval"))
			for i := 0; i < n1; i++ {
				c.X1 = append(c.X1, val)
			}
			for i := 0; i < n2; i++ {
				c.X2 = append(c.X2, val)
			}
			return c
		default:
			// approximate path with U within 1 of its mean: one or two values of the first
			// sample placed around the median of a large untied (or lightly tied) second sample
			n2 := rapid.IntRange(51, 60).Draw(t, "mn2")
			for i := 1; i <= n2; i++ {
				c.X2 = append(c.X2, float64(i))
			}
			n1 := rapid.IntRange(1, 2).Draw(t, "mn1")
			for i := 0; i < n1; i++ {
				pos := float64(n2/2+rapid.IntRange(-1, 1).Draw(t, "mpos")) + rapid.SampledFrom([]float64{0, 0.5}).Draw(t, "mhalf")
				c.X1 = append(c.X1, pos)
			}
			if rapid.Bool().Draw(t, "mswap") {
				c.X1, c.X2 = c.X2, c.X1
			}
			return c
		}
	}
	if vcase.OneIn(t, 10, "limits") {
		// the limits are exported variables; a caller may move them
		c.Limit = rapid.SampledFrom([]int{0, 3, 5, 10, 40, 60}).Draw(t, "limit")
		c.TiesLimit = rapid.SampledFrom([]int{0, 3, 5, 10, 20, 27}).Draw(t, "tieslimit")
	}
	kind := rapid.IntRange(0, 5).Draw(t, "kind")
	size := func(label string) int {
		switch kind {
		case 0, 1: // small
			return rapid.IntRange(1, 8).Draw(t, label)
		case 2: // around the tied limit 25
			return rapid.IntRange(20, 30).Draw(t, label)
		case 3: // around the untied limit 50
			return rapid.IntRange(45, 56).Draw(t, label)
		default:
			return rapid.IntRange(1, 60).Draw(t, label)
		}
	}
	n1, n2 := size("n1"), size("n2")
	tied := rapid.Bool().Draw(t, "tied")
	if kind == 3 {
		tied = vcase.OneIn(t, 4, "tied50")
	}
	gen := func(n int, label string) []float64 {
		xs := make([]float64, n)
		for i := range xs {
			if tied {
				xs[i] = float64(rapid.IntRange(1, rapid.SampledFrom([]int{2, 3, 6, 20}).Draw(t, "pool")).Draw(t, label))
			} else {
				xs[i] = rapid.Float64Range(-1000, 1000).Draw(t, label)
			}
		}
		return xs
	}
	c.X1, c.X2 = gen(n1, "x1"), gen(n2, "x2")
	if !tied {
		// make the values distinct by construction (ties among continuous draws are possible after shrinking)
		seen := map[float64]bool{}
		fix := func(xs []float64) {
			for i := range xs {
				for seen[xs[i]] {
					xs[i] = math.Nextafter(xs[i], math.Inf(1))
				}
				seen[xs[i]] = true
			}
		}
		fix(c.X1)
		fix(c.X2)
	}
	return c
}

func TestC11Rapid(t *testing.T) { vcase.Run(t, "C11", "rapid", c11Gen, c11Check) }

// ---------------------------------------------------------------------------
// UDist directly

type c11DistCase struct {
	N1 int
	T  []int // tie vector (multiplicities); all ones = untied
}

func c11DistCheck(c c11DistCase) (v vcase.Verdict) {
	N := 0
	ties := false
	for _, m := range c.T {
		N += m
		if m > 1 {
			ties = true
		}
	}
	n1, n2 := c.N1, N-c.N1
	if n1 < 1 || n2 < 1 || len(c.T) < 2 {
		return
	}
	v.NonTrivial = true
	var ref refstat.Dist
	if N <= 13 {
		ref = refstat.EnumDist(c.T, n1)
	} else {
		ref = refstat.DPDist(c.T, n1)
	}
	d := UDist{N1: n1, N2: n2, T: c.T}
	if !ties {
		v.Label("untied")
		if vcase.OneIn2(len(c.T)) {
			d.T = nil // callers may leave T nil for the untied distribution
		}
	} else {
		v.Label("ties")
	}
	step := 2 // in units of 2U: whole steps of U when untied
	if ties {
		step = 1
	}
	sum, run := 0.0, 0.0
	for u2 := 0; u2 <= 2*n1*n2; u2 += step {
		U := float64(u2) / 2
		pmf := d.PMF(U)
		cdf := d.CDF(U)
		sum += pmf
		run += pmf
		want := ref[u2]
		if math.Abs(pmf-want) > 1e-9 {
			v.Failf("UDist{%d,%d,%v}.PMF(%v) = %v, reference %v", n1, n2, c.T, U, pmf, want)
			return
		}
		if wantC := ref.PLE(u2); math.Abs(cdf-wantC) > 1e-9 {
			v.Failf("UDist{%d,%d,%v}.CDF(%v) = %v, reference %v", n1, n2, c.T, U, cdf, wantC)
			return
		}
		if math.Abs(run-cdf) > 1e-9 {
			v.Failf("UDist{%d,%d,%v}: running sum of PMF %v != CDF(%v) = %v", n1, n2, c.T, run, U, cdf)
			return
		}
		// between two points of the support the distribution function is flat (what the mass
		// function returns for an argument outside the support is not specified)
		for _, frac := range []float64{0.3, 0.8} {
			x := U + frac*float64(step)/2
			if got := d.CDF(x); math.Abs(got-cdf) > 1e-9 {
				v.Failf("UDist{%d,%d,%v}.CDF(%v) = %v, but CDF(%v) = %v and no mass lies between", n1, n2, c.T, x, got, U, cdf)
				return
			}
		}
		v.Sub++
	}
	if math.Abs(sum-1) > 1e-9 {
		v.Failf("UDist{%d,%d,%v}: PMF sums to %v", n1, n2, c.T, sum)
	}
	if d.CDF(-0.5) != 0 || d.CDF(float64(n1*n2)+1) != 1 {
		v.Failf("CDF outside the support: %v %v", d.CDF(-0.5), d.CDF(float64(n1*n2)+1))
	}
	return
}

func c11DistGen(t *rapid.T) c11DistCase {
	var c c11DistCase
	K := rapid.IntRange(2, 10).Draw(t, "K")
	untied := vcase.OneIn(t, 4, "untied")
	maxm := rapid.SampledFrom([]int{2, 3, 6}).Draw(t, "maxm")
	N := 0
	for i := 0; i < K; i++ {
		m := 1
		if !untied {
			m = rapid.IntRange(1, maxm).Draw(t, "m")
		}
		c.T = append(c.T, m)
		N += m
	}
	c.N1 = rapid.IntRange(1, N-1).Draw(t, "n1")
	return c
}

func TestC11Dist(t *testing.T) { vcase.Run(t, "C11", "dist", c11DistGen, c11DistCheck) }

// TestC11RefSelf cross-checks the DP reference against brute-force enumeration
// (the trusted base) so that the larger rapid cases rest on it.
func TestC11RefSelf(t *testing.T) {
	vcase.Run(t, "C11", "refself", func(t *rapid.T) c11DistCase {
		c := c11DistGen(t)
		for sum(c.T) > 13 {
			c.T = c.T[:len(c.T)-1]
		}
		if len(c.T) < 2 {
			c.T = []int{1, 2}
		}
		if c.N1 >= sum(c.T) {
			c.N1 = sum(c.T) - 1
		}
		return c
	}, func(c c11DistCase) (v vcase.Verdict) {
		a, b := refstat.EnumDist(c.T, c.N1), refstat.DPDist(c.T, c.N1)
		v.NonTrivial = true
		if len(a) != len(b) {
			v.Failf("VERIF: reference DP and enumeration disagree on the support: %v vs %v", a, b)
			return
		}
		for u, p := range a {
			if math.Abs(b[u]-p) > 1e-12 {
				v.Failf("VERIF: reference DP and enumeration disagree at 2U=%d: %v vs %v (T=%v n1=%d)", u, b[u], p, c.T, c.N1)
			}
		}
		return
	})
}

func sum(xs []int) int {
	s := 0
	for _, x := range xs {
		s += x
	}
	return s
}

var _ = fmt.Sprint
