package main

// C13 at the command-line level: the significance threshold given with -alpha
// is the one every comparison carries (a delta is shown exactly when p does
// not exceed it). Uses the same reference pipeline as C14, on cases that
// always set -alpha.

import (
	"testing"

	"pgregory.net/rapid"
	"verif/harness/lib/vcase"
)

func c13CLIGen(t *rapid.T) statCase {
	c := genStatCase(t)
	c.Alpha = rapid.SampledFrom([]float64{0.001, 0.01, 0.1, 0.2, 0.5, 1, -1}).Draw(t, "cli_alpha")
	return c
}

func TestC13CLI(t *testing.T) { vcase.Run(t, "C13", "cli", c13CLIGen, c14Check) }
