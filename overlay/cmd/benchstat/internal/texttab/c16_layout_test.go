package texttab

// C16 (a): the fixed-width layout engine never truncates or overlaps cell
// contents. Validity predicate over the output; no re-implementation of the
// width algorithm.

import (
	"fmt"
	"strings"
	"testing"
	"unicode/utf8"

	"pgregory.net/rapid"
	"verif/harness/lib/vcase"
)

type c16Cell struct {
	Col, Span int
	Pad       string // decoration after the unique token (may be multi-byte); "" with Empty => empty value
	Empty     bool
	Blank     int    // > 0: the value consists of that many blanks (an empty-looking cell)
	Align     int    // 0 left, 1 center, 2 right
	Margin    string // "-" = default margin
}

type c16Case struct {
	Rows   [][]c16Cell
	Shrink []int
}

func (c c16Case) build() (*Table, map[[2]int]string) {
	var t Table
	vals := map[[2]int]string{}
	id := 0
	for ri, row := range c.Rows {
		t.Row()
		for _, cell := range row {
			if cell.Col < t.CurCol() {
				continue
			}
			t.Col(cell.Col)
			val := ""
			if cell.Blank > 0 {
				val = strings.Repeat(" ", cell.Blank)
			} else if !cell.Empty {
				id++
				val = fmt.Sprintf("v%d_%s", id, cell.Pad)
			}
			vals[[2]int{ri, cell.Col}] = val
			var opts []CellOption
			switch cell.Align {
			case 1:
				opts = append(opts, Center)
			case 2:
				opts = append(opts, Right)
			}
			if cell.Margin != "-" {
				opts = append(opts, LeftMargin(cell.Margin))
			}
			t.Span(cell.Span, val, opts...)
		}
	}
	for _, s := range c.Shrink {
		t.SetShrink(s, true)
	}
	return &t, vals
}

func runeLen(s string) int { return utf8.RuneCountInString(s) }

func c16Check(c c16Case) (v vcase.Verdict) {
	t, vals := c.build()
	var sb strings.Builder
	if err := t.Format(&sb); err != nil {
		v.Failf("Format: %v", err)
		return
	}
	out := sb.String()
	lines := strings.Split(strings.TrimSuffix(out, "\n"), "\n")
	fail := func(format string, a ...interface{}) {
		v.Failf(format+"\ncase %+v\noutput:\n%s", append(a, c, out)...)
	}
	for i, l := range lines {
		if strings.TrimRight(l, " \t") != l {
			fail("line %d ends in blanks: %q", i, l)
			return
		}
	}
	// effective cells (those actually added by build)
	type eff struct {
		row, col, span, align int
		val, margin           string
	}
	var cells []eff
	ncols := 0
	shrinkSet := map[int]bool{}
	for _, s := range c.Shrink {
		shrinkSet[s] = true
	}
	for ri, row := range c.Rows {
		cur := 0
		for _, cell := range row {
			if cell.Col < cur {
				continue
			}
			val := vals[[2]int{ri, cell.Col}]
			m := cell.Margin
			if m == "-" {
				m = " "
				if cell.Col == 0 || val == "" {
					m = ""
				}
			}
			cells = append(cells, eff{ri, cell.Col, cell.Span, cell.Align, val, m})
			cur = cell.Col + cell.Span
			if cur > ncols {
				ncols = cur
			}
		}
	}
	// Row() does not advance before the first cell exists: leading rows without cells are not rows.
	if len(cells) > 0 {
		first := cells[0].row
		for i := range cells {
			cells[i].row -= first
		}
	}
	lm := make([]int, ncols+1)
	for _, e := range cells {
		if w := runeLen(e.margin); w > lm[e.col] {
			lm[e.col] = w
		}
	}
	const unknown = -1
	B := make([]int, ncols+1)
	for i := range B {
		B[i] = unknown
	}
	B[0] = 0
	set := func(idx, val int, why string) bool {
		if B[idx] == unknown {
			B[idx] = val
			return true
		}
		if B[idx] != val {
			fail("column boundary %d is at offset %d and at offset %d (%s): columns do not line up", idx, B[idx], val, why)
			return false
		}
		return true
	}
	type placed struct {
		e        eff
		pos, end int
	}
	byRow := map[int][]placed{}
	spanWider, hasShrink := false, len(c.Shrink) > 0
	for _, e := range cells {
		if strings.TrimSpace(e.val) == "" {
			continue
		}
		tok := e.val[:strings.Index(e.val, "_")+1]
		if n := strings.Count(out, tok); n != 1 {
			fail("cell value %q appears %d times in the output", e.val, n)
			return
		}
		if e.row >= len(lines) {
			fail("cell value %q: row %d missing from the output", e.val, e.row)
			return
		}
		bi := strings.Index(lines[e.row], tok)
		if bi < 0 {
			fail("cell value %q is not on line %d", e.val, e.row)
			return
		}
		if !strings.HasPrefix(lines[e.row][bi:], e.val) {
			fail("cell value %q altered on line %d: %q", e.val, e.row, lines[e.row][bi:])
			return
		}
		pos := runeLen(lines[e.row][:bi])
		end := pos + runeLen(e.val)
		// the margin text stands immediately before the value
		if mw := runeLen(e.margin); mw > 0 {
			pre := []rune(lines[e.row][:bi])
			if len(pre) < mw || string(pre[len(pre)-mw:]) != e.margin {
				if e.align == 0 {
					fail("left margin %q of %q does not precede it on line %d", e.margin, e.val, e.row)
					return
				}
			}
		}
		byRow[e.row] = append(byRow[e.row], placed{e, pos, end})
		switch e.align {
		case 0:
			if !set(e.col, pos-lm[e.col], fmt.Sprintf("left-aligned %q starts at %d", e.val, pos)) {
				return
			}
		case 2:
			if !set(e.col+e.span, end, fmt.Sprintf("right-aligned %q ends at %d", e.val, end)) {
				return
			}
		}
	}
	// boundaries are monotone
	last := 0
	for i, b := range B {
		if b == unknown {
			continue
		}
		if b < last {
			fail("column boundary %d at offset %d lies left of an earlier boundary at %d", i, b, last)
			return
		}
		last = b
	}
	lower := func(idx int) int { // greatest known boundary <= idx
		for i := idx; i >= 0; i-- {
			if B[i] != unknown {
				return B[i]
			}
		}
		return 0
	}
	upper := func(idx int) int { // least known boundary >= idx, or -1
		for i := idx; i <= ncols; i++ {
			if B[i] != unknown {
				return B[i]
			}
		}
		return unknown
	}
	for row, ps := range byRow {
		for i, p := range ps {
			if lo := lower(p.e.col); p.pos < lo {
				fail("line %d: %q starts at %d, left of its column (boundary %d)", row, p.e.val, p.pos, lo)
				return
			}
			if hi := upper(p.e.col + p.e.span); hi != unknown && p.end > hi {
				fail("line %d: %q ends at %d, beyond the end of its span (boundary %d)", row, p.e.val, p.end, hi)
				return
			}
			if i > 0 {
				prev := ps[i-1]
				if prev.end+runeLen(strings.TrimLeft(p.e.margin, " ")) > p.pos {
					fail("line %d: %q and %q overlap", row, prev.e.val, p.e.val)
					return
				}
			}
			if p.e.align == 1 && B[p.e.col] != unknown && B[p.e.col+p.e.span] != unknown {
				tw := B[p.e.col+p.e.span] - B[p.e.col] - lm[p.e.col]
				want := B[p.e.col] + lm[p.e.col] + (tw-runeLen(p.e.val))/2
				if p.pos != want {
					fail("line %d: centred %q starts at %d, want %d (span %d..%d)", row, p.e.val, p.pos, want, B[p.e.col], B[p.e.col+p.e.span])
					return
				}
				v.Label("centre_checked")
			}
			if p.e.span > 1 {
				if lo, hi := lower(p.e.col), upper(p.e.col+p.e.span); hi != unknown && hi-lo-lm[p.e.col] <= runeLen(p.e.val) {
					spanWider = true
				}
			}
		}
	}
	allShrinkSpan := false
	for _, e := range cells {
		if e.span > 1 {
			all := true
			for k := e.col; k < e.col+e.span; k++ {
				if !shrinkSet[k] {
					all = false
				}
			}
			if all {
				allShrinkSpan = true
			}
		}
	}
	if allShrinkSpan {
		v.Label("span_over_shrink_only")
	}
	if hasShrink {
		v.Label("shrink")
	}
	if spanWider {
		v.Label("span_wider_than_columns")
	}
	v.NonTrivial = spanWider || hasShrink
	return
}

func c16Gen(t *rapid.T) c16Case {
	var c c16Case
	nrows := rapid.IntRange(1, 12).Draw(t, "nrows")
	ncols := rapid.IntRange(1, 14).Draw(t, "ncols")
	pad := rapid.OneOf(
		rapid.StringOfN(rapid.RuneFrom([]rune("xyz")), 0, 12, -1),
		rapid.StringOfN(rapid.RuneFrom([]rune("x日é±µ")), 0, 8, -1),
	)
	for r := 0; r < nrows; r++ {
		var row []c16Cell
		col := 0
		for col < ncols {
			if vcase.OneIn(t, 5, "skip") {
				col += rapid.IntRange(1, 3).Draw(t, "gap")
				continue
			}
			span := 1
			if vcase.OneIn(t, 4, "spanp") {
				span = rapid.IntRange(2, 6).Draw(t, "span")
			}
			if col+span > ncols {
				span = ncols - col
			}
			cell := c16Cell{Col: col, Span: span, Pad: pad.Draw(t, "pad"), Align: rapid.IntRange(0, 2).Draw(t, "align"), Margin: "-"}
			if vcase.OneIn(t, 8, "empty") {
				cell.Empty = true
				cell.Align = 0 // callers only ever add empty cells left-aligned (rule/edge cells); padding an empty value is not layout
			}
			if vcase.OneIn(t, 3, "margin") {
				cell.Margin = rapid.SampledFrom([]string{" ", " │ ", "  ", "", "|"}).Draw(t, "m")
				if cell.Empty && strings.HasSuffix(cell.Margin, " ") {
					cell.Margin = " │" // a margin-only cell must not end the line in a blank
				}
			}
			if !cell.Empty && (cell.Margin == "-" || strings.TrimSpace(cell.Margin) == "") && vcase.OneIn(t, 10, "blank") {
				// a value of blanks only looks like an empty cell and is laid out like one
				cell.Blank = rapid.IntRange(1, 4).Draw(t, "nblank")
			}
			row = append(row, cell)
			col += span
		}
		c.Rows = append(c.Rows, row)
	}
	ns := rapid.IntRange(0, 4).Draw(t, "nshrink")
	for i := 0; i < ns; i++ {
		c.Shrink = append(c.Shrink, rapid.IntRange(0, ncols-1).Draw(t, "shrink"))
	}
	return c
}

func TestC16Layout(t *testing.T) { vcase.Run(t, "C16", "layout", c16Gen, c16Check) }
