package main

// C16 (c): the text and CSV renderings of the same data describe the same
// tables, and the text is laid out consistently.

import (
	"fmt"
	"math"
	"math/big"
	"pgregory.net/rapid"
	"regexp"
	"sort"
	"strconv"
	"strings"
	"testing"
	"unicode/utf8"
	"verif/harness/lib/refproj"

	"verif/harness/lib/refbench"
	"verif/harness/lib/vcase"
)

var superDigitsC16 = "⁰¹²³⁴⁵⁶⁷⁸⁹"

func isSuperRune(r rune) bool { return strings.ContainsRune(superDigitsC16, r) }

func superToInt(s string) int {
	n := 0
	digits := []rune(superDigitsC16)
	for _, r := range s {
		for d, x := range digits {
			if x == r {
				n = n*10 + d
			}
		}
	}
	return n
}

var siFactors = map[string]*big.Rat{}
var iecFactors = map[string]*big.Rat{}

func init() {
	exp := int64(12)
	for _, p := range []string{"T", "G", "M", "k", "", "m", "µ", "n"} {
		r := new(big.Rat)
		if exp >= 0 {
			r.SetInt(new(big.Int).Exp(big.NewInt(10), big.NewInt(exp), nil))
		} else {
			r.SetFrac(big.NewInt(1), new(big.Int).Exp(big.NewInt(10), big.NewInt(-exp), nil))
		}
		siFactors[p] = r
		exp -= 3
	}
	exp = 40
	for _, p := range []string{"Ti", "Gi", "Mi", "Ki", ""} {
		iecFactors[p] = new(big.Rat).SetInt(new(big.Int).Lsh(big.NewInt(1), uint(exp)))
		exp -= 10
	}
}

var scaledRe = regexp.MustCompile(`^(-?)([0-9]+)(?:\.([0-9]+))?(.*)$`)

// scaledAgrees reports whether the scaled text m·prefix equals val to within
// half a unit of the last printed digit (plus a relative float slack of 2^-50).
func scaledAgrees(text string, val float64, binary bool) (bool, string) {
	m := scaledRe.FindStringSubmatch(text)
	if m == nil {
		return false, "not a scaled number"
	}
	factors := siFactors
	if binary {
		factors = iecFactors
	}
	f, ok := factors[m[4]]
	if !ok {
		return false, "unknown prefix " + strconv.Quote(m[4])
	}
	mant, _ := new(big.Rat).SetString(m[2] + "." + m[3] + "0")
	if m[1] == "-" {
		mant.Neg(mant)
	}
	unit := new(big.Rat).SetFrac(big.NewInt(1), new(big.Int).Exp(big.NewInt(10), big.NewInt(int64(len(m[3]))), nil))
	half := new(big.Rat).Mul(unit, big.NewRat(1, 2))
	half.Mul(half, f)
	got := new(big.Rat).Mul(mant, f)
	want := new(big.Rat).SetFloat64(val)
	if want == nil {
		return false, "csv value not finite"
	}
	diff := new(big.Rat).Sub(got, want)
	diff.Abs(diff)
	slack := new(big.Rat).Mul(new(big.Rat).Abs(want), new(big.Rat).SetFrac(big.NewInt(1), new(big.Int).Lsh(big.NewInt(1), 50)))
	half.Add(half, slack)
	if diff.Cmp(half) > 0 {
		return false, fmt.Sprintf("|%s - %v| exceeds half a unit of the last printed digit", text, val)
	}
	return true, ""
}

func runeIndexAll(line string, target rune) []int {
	var ps []int
	i := 0
	for _, r := range line {
		if r == target {
			ps = append(ps, i)
		}
		i++
	}
	return ps
}

func runeSlice(line string, from, to int) string {
	rs := []rune(line)
	if from > len(rs) {
		from = len(rs)
	}
	if to > len(rs) {
		to = len(rs)
	}
	return string(rs[from:to])
}

var cellRe = regexp.MustCompile(`^\s*(\S+) ±\s+([^\s⁰¹²³⁴⁵⁶⁷⁸⁹]+)((?:\s+[⁰¹²³⁴⁵⁶⁷⁸⁹]+)*)(?:\s+([^\s⁰¹²³⁴⁵⁶⁷⁸⁹]+) \(([^)]*)\)((?:\s+[⁰¹²³⁴⁵⁶⁷⁸⁹]+)*))?\s*$`)
var geoRe = regexp.MustCompile(`^\s*([^\s⁰¹²³⁴⁵⁶⁷⁸⁹?+~-]\S*|-[0-9]\S*)?\s*([+-][0-9.]+%|\?|[+-]?(?:Inf|NaN)%)?((?: *[⁰¹²³⁴⁵⁶⁷⁸⁹]+)*)\s*$`)

type textCellC16 struct {
	center, ci, delta, p string
	sups                 []int
	pmPos, centerEnd     int
	deltaEnd, parenPos   int
}

func c16TextCSV(c statCase) (v vcase.Verdict) {
	dir, cleanup := vcase.ScratchDir("c16-")
	defer cleanup()
	paths, err := c.materialize(dir)
	if err != nil {
		v.Failf("VERIF-BROKEN %v", err)
		return
	}
	text, textErr, e1 := runStat(append(c.flags("text"), paths...))
	csvOut, csvErr, e2 := runStat(append(c.flags("csv"), paths...))
	if e1 != nil || e2 != nil {
		v.Failf("benchstat errors: %v %v", e1, e2)
		return
	}
	fail := func(format string, a ...interface{}) {
		v.Failf(format+"\nargs %q\n--- text\n%s\n--- csv\n%s\n--- csv stderr\n%s", append(a, c.flags("text"), clipS(text), clipS(csvOut), clipS(csvErr))...)
	}
	tables, perr := parseStatCSV(csvOut)
	if perr != nil {
		v.Failf("%v", perr)
		return
	}
	// stderr of the text run carries only input syntax errors (none are generated)
	if strings.TrimSpace(textErr) != "" {
		fail("text run wrote to stderr: %q", textErr)
		return
	}
	lines := strings.Split(strings.TrimSuffix(text, "\n"), "\n")
	if text == "" {
		lines = nil
	}
	isHeader := map[string]bool{}
	for _, t := range tables {
		for _, h := range t.Headers {
			isHeader[h] = true
		}
	}
	for i, l := range lines {
		// ("key: " header lines of a table whose key is missing are not part of the table grid)
		if strings.TrimRight(l, " ") != l && !isHeader[l] {
			fail("text line %d ends in blanks: %q", i+1, l)
			return
		}
	}
	// CSV warnings by output line
	csvWarnByLine := map[int][]string{}
	csvWarnByCell := map[[2]int][]string{} // (output line, 0-based column) for single-letter references
	csvWideRef := map[int]bool{}           // lines with a reference beyond column Z (not decoded here)
	for _, l := range strings.Split(strings.TrimSpace(csvErr), "\n") {
		if l == "" {
			continue
		}
		m := regexp.MustCompile(`^([A-Z]+)([0-9]+): (.*)$`).FindStringSubmatch(l)
		if m == nil {
			fail("unexpected csv stderr line %q", l)
			return
		}
		n, _ := strconv.Atoi(m[2])
		csvWarnByLine[n] = append(csvWarnByLine[n], normWarning(m[3]))
		// spreadsheet column letters: A..Z, AA..AZ, BA.. (bijective base 26)
		colIdx := 0
		for _, ch := range m[1] {
			colIdx = colIdx*26 + int(ch-'A') + 1
		}
		colIdx--
		if len(m[1]) > 1 {
			csvWideRef[n] = true
		}
		k := [2]int{n, colIdx}
		csvWarnByCell[k] = append(csvWarnByCell[k], normWarning(m[3]))
	}
	li := 0
	next := func() (string, bool) {
		if li >= len(lines) {
			return "", false
		}
		li++
		return lines[li-1], true
	}
	ncolsMax := 0
	for ti, t := range tables {
		// header records are shared between the renderings; the blank separator between
		// tables is an empty record in CSV, which the CSV reader may skip
		if ti > 0 && (len(t.Headers) == 0 || t.Headers[0] != "") {
			if l, ok := next(); !ok || l != "" {
				fail("table %d: expected a blank line between tables, got %q", ti, l)
				return
			}
		}
		for _, h := range t.Headers {
			l, ok := next()
			if !ok || l != h {
				fail("table %d: text header line %q, csv header %q", ti, l, h)
				return
			}
		}
		ncols := len(t.ColHdrs)
		if ncols > ncolsMax {
			ncolsMax = ncols
		}
		nlevels := 0
		if ncols > 0 {
			nlevels = len(t.ColHdrs[0])
		}
		var hdrLines []string
		for k := 0; k < nlevels+1; k++ {
			l, ok := next()
			if !ok {
				fail("table %d: text ends inside the column headers", ti)
				return
			}
			hdrLines = append(hdrLines, l)
		}
		unitLine := hdrLines[nlevels]
		bars := runeIndexAll(unitLine, '│')
		if len(bars) != ncols+1 {
			fail("table %d: unit line %q has %d rules, want %d", ti, unitLine, len(bars), ncols+1)
			return
		}
		for k, hl := range hdrLines[:nlevels] {
			hb := runeIndexAll(hl, '│')
			if len(hb) < 2 || hb[0] != bars[0] || hb[len(hb)-1] != bars[ncols] {
				fail("table %d: header line %d %q: outer rules at %v, unit line has them at %d and %d", ti, k, hl, hb, bars[0], bars[ncols])
				return
			}
			// every rule stands at a rule position of the unit line; header cells label exactly the columns between their rules
			bi := 0
			for j, p := range hb {
				for bi <= ncols && bars[bi] != p {
					bi++
				}
				if bi > ncols {
					fail("table %d: header line %d %q has a rule at offset %d where the unit line %q has none", ti, k, hl, p, unitLine)
					return
				}
				if j+1 < len(hb) {
					// columns bi .. (next rule)-1 carry this header value
					val := strings.TrimSpace(runeSlice(hl, p+1, hb[j+1]))
					nb := bi + 1
					for nb <= ncols && bars[nb] != hb[j+1] {
						nb++
					}
					if nb > ncols {
						fail("table %d: header line %d rule at %d not on a column boundary", ti, k, hb[j+1])
						return
					}
					for col := bi; col < nb; col++ {
						if t.ColHdrs[col][k] != val {
							fail("table %d: text header level %d labels column %d with %q, csv says %q", ti, k, col, val, t.ColHdrs[col][k])
							return
						}
					}
					// a merged header cell must be maximal under its parent: the next cell differs or the parent changes
				}
			}
		}
		// unit line: unit centred in each column, "vs base" from the second column on
		for col := 0; col < ncols; col++ {
			seg := strings.TrimSpace(runeSlice(unitLine, bars[col]+1, bars[col+1]))
			want := t.Unit
			if col > 0 {
				want = t.Unit + " vs base"
			}
			if strings.Join(strings.Fields(seg), " ") != want {
				fail("table %d: unit line column %d reads %q, want %q", ti, col, seg, want)
				return
			}
		}
		binary := false
		for _, tok := range refbench.UnitTokens(t.Unit) {
			if !tok.Denom && (tok.Tok == "B" || tok.Tok == "MB" || tok.Tok == "bytes") {
				binary = true
			}
		}
		// data rows
		type colAlign struct{ pm, cEnd, dEnd, paren map[int]bool }
		aligns := make([]colAlign, ncols)
		for i := range aligns {
			aligns[i] = colAlign{map[int]bool{}, map[int]bool{}, map[int]bool{}, map[int]bool{}}
		}
		textWarn := map[int][]int{} // row index (or -1 for geomean) -> superscript numbers
		// (row index or -1, column, 0 = marks after the summary / 1 = marks after the delta) -> superscript numbers
		textWarnCell := map[[3]int][]int{}
		for ri, label := range t.Rows {
			l, ok := next()
			if !ok {
				fail("table %d: text ends before row %q", ti, label)
				return
			}
			if got := strings.TrimRight(runeSlice(l, 0, bars[0]), " "); got != label {
				fail("table %d row %d: text label %q, csv label %q", ti, ri, got, label)
				return
			}
			for col := 0; col < ncols; col++ {
				seg := runeSlice(l, bars[col]+1, bars[col+1]+1)
				if col == ncols-1 {
					seg = runeSlice(l, bars[col]+1, 1<<30)
				}
				csvCell, has := t.Cells[[2]int{ri, col}]
				if strings.TrimSpace(seg) == "" {
					if has {
						fail("table %d row %q column %d: csv has %q, text is empty", ti, label, col, csvCell)
						return
					}
					continue
				}
				if !has {
					fail("table %d row %q column %d: text has %q, csv has no cell", ti, label, col, seg)
					return
				}
				m := cellRe.FindStringSubmatch(seg)
				if m == nil {
					fail("table %d row %q column %d: cannot parse text cell %q (a cell crossing its column?)", ti, label, col, seg)
					return
				}
				var val float64
				if _, err := fmt.Sscan(csvCell[0], &val); err != nil {
					fail("csv center %q", csvCell[0])
					return
				}
				if ok, why := scaledAgrees(m[1], val, binary); !ok {
					fail("table %d row %q column %d: text %q vs csv %v: %s", ti, label, col, m[1], val, why)
					return
				}
				// a row's shared scale shows every non-zero value with at least three significant digits
				// (promised down to 1e-8 of the smallest prefix: 1e-17 for decimal units, 1e-8 for
				// binary ones, which have no prefixes below 1; see C10)
				minMag := 1e-17
				if binary {
					minMag = 1e-8
				}
				if math.Abs(val) >= minMag {
					digits := strings.TrimLeft(strings.NewReplacer("-", "", ".", "").Replace(scaledRe.FindStringSubmatch(m[1])[1]+scaledRe.FindStringSubmatch(m[1])[2]+scaledRe.FindStringSubmatch(m[1])[3]), "0")
					if len(digits) < 3 {
						fail("table %d row %q column %d: %q shows fewer than three significant digits of %v", ti, label, col, m[1], val)
						return
					}
				}
				if m[2] != csvCell[1] {
					fail("table %d row %q column %d: text range %q, csv %q", ti, label, col, m[2], csvCell[1])
					return
				}
				if (m[4] != "") != (len(csvCell) > 2) {
					fail("table %d row %q column %d: text delta %q, csv cell %q", ti, label, col, m[4], csvCell)
					return
				}
				if len(csvCell) > 2 && (m[4] != csvCell[2] || m[5] != csvCell[3]) {
					fail("table %d row %q column %d: text delta %q (%s), csv %q %q", ti, label, col, m[4], m[5], csvCell[2], csvCell[3])
					return
				}
				for _, f := range strings.Fields(m[3] + " " + m[6]) {
					textWarn[ri] = append(textWarn[ri], superToInt(f))
				}
				for _, f := range strings.Fields(m[3]) {
					textWarnCell[[3]int{ri, col, 0}] = append(textWarnCell[[3]int{ri, col, 0}], superToInt(f))
				}
				for _, f := range strings.Fields(m[6]) {
					textWarnCell[[3]int{ri, col, 1}] = append(textWarnCell[[3]int{ri, col, 1}], superToInt(f))
				}
				// alignment evidence (absolute rune offsets)
				base := bars[col] + 1
				segR := []rune(seg)
				for k, r := range segR {
					if r == '±' {
						aligns[col].pm[base+k] = true
						break
					}
				}
				if m[4] != "" {
					idx := strings.Index(seg, m[4]+" (")
					aligns[col].dEnd[base+utf8.RuneCountInString(seg[:idx])+utf8.RuneCountInString(m[4])] = true
					aligns[col].paren[base+utf8.RuneCountInString(seg[:idx])+utf8.RuneCountInString(m[4])+1] = true
				}
			}
		}
		for col, a := range aligns {
			if len(a.pm) > 1 || len(a.dEnd) > 1 || len(a.paren) > 1 {
				fail("table %d column %d: rows are not aligned: ± at %v, delta ends at %v, ( at %v", ti, col, keysOf(a.pm), keysOf(a.dEnd), keysOf(a.paren))
				return
			}
		}
		// summary row (text prints it only for tables with more than one row)
		if len(t.Rows) > 1 {
			l, ok := next()
			if !ok || strings.TrimRight(runeSlice(l, 0, bars[0]), " ") != "geomean" {
				fail("table %d: expected the geomean row, got %q", ti, l)
				return
			}
			for col := 0; col < ncols; col++ {
				seg := runeSlice(l, bars[col]+1, bars[col+1]+1)
				if col == ncols-1 {
					seg = runeSlice(l, bars[col]+1, 1<<30)
				}
				g := t.Geo[col]
				// tokens: scaled summary, ratio ("+1.23%" or "?"), footnote marks
				m := make([]string, 4)
				for _, f := range strings.Fields(seg) {
					r0, _ := utf8.DecodeRuneInString(f)
					switch {
					case isSuperRune(r0):
						m[3] += " " + f
					case strings.HasSuffix(f, "%") || f == "?":
						if m[2] != "" {
							m = nil
						} else {
							m[2] = f
						}
					default:
						if m[1] != "" || m[2] != "" {
							m = nil
						} else {
							m[1] = f
						}
					}
					if m == nil {
						break
					}
				}
				if m == nil {
					fail("table %d geomean column %d: cannot parse %q", ti, col, seg)
					return
				}
				if (m[1] != "") != (g[0] != "") {
					fail("table %d geomean column %d: text %q, csv %q", ti, col, seg, g)
					return
				}
				if g[0] != "" {
					var val float64
					fmt.Sscan(g[0], &val)
					if ok, why := scaledAgrees(m[1], val, binary); !ok {
						fail("table %d geomean column %d: text %q vs csv %v: %s", ti, col, m[1], val, why)
						return
					}
				}
				if col > 0 && m[2] != g[1] {
					fail("table %d geomean column %d: text ratio %q, csv %q", ti, col, m[2], g[1])
					return
				}
				for _, f := range strings.Fields(m[3]) {
					textWarn[-1] = append(textWarn[-1], superToInt(f))
					textWarnCell[[3]int{-1, col, 0}] = append(textWarnCell[[3]int{-1, col, 0}], superToInt(f))
				}
			}
		}
		// footnotes
		foot := map[int]string{}
		for li < len(lines) {
			r, _ := utf8.DecodeRuneInString(lines[li])
			if !isSuperRune(r) {
				break
			}
			num, msg, ok := strings.Cut(lines[li], " ")
			if !ok {
				fail("bad footnote line %q", lines[li])
				return
			}
			foot[superToInt(num)] = msg
			li++
		}
		used := map[int]bool{}
		for ri := -1; ri < len(t.Rows); ri++ {
			var tw []string
			for _, n := range textWarn[ri] {
				msg, ok := foot[n]
				if !ok {
					fail("table %d: footnote %d referenced but not listed", ti, n)
					return
				}
				used[n] = true
				tw = append(tw, normWarning(msg))
			}
			var cw []string
			if ri >= 0 {
				cw = csvWarnByLine[t.RowLine[ri]]
			} else if len(t.Rows) > 1 {
				cw = csvWarnByLine[t.GeoLine]
			}
			sort.Strings(tw)
			sort.Strings(cw)
			if fmt.Sprint(tw) != fmt.Sprint(cw) {
				name := "geomean"
				if ri >= 0 {
					name = t.Rows[ri]
				}
				fail("table %d row %q: text warnings %q, csv warnings %q", ti, name, tw, cw)
				return
			}
			if len(tw) > 0 {
				v.Label("warnings_compared")
			}
		}
		for n := range foot {
			if !used[n] {
				fail("table %d: footnote %d listed but never referenced", ti, n)
				return
			}
		}
		// the same warnings on the same cells: the text marks a summary or a
		// "vs base" entry, the CSV names the spreadsheet cell (summary: the
		// column of the centre; comparison: the "vs base" column)
		for ri := -1; ri < len(t.Rows); ri++ {
			line := t.GeoLine
			name := "geomean"
			if ri >= 0 {
				line, name = t.RowLine[ri], t.Rows[ri]
			} else if len(t.Rows) <= 1 {
				continue
			}
			if csvWideRef[line] {
				v.Label("csv_reference_beyond_column_Z")
			}
			for col := 0; col < ncols; col++ {
				for kind := 0; kind < 2; kind++ {
					if kind == 1 && col == 0 {
						continue // the baseline column has no "vs base" entry
					}
					var tw []string
					for _, n := range textWarnCell[[3]int{ri, col, kind}] {
						tw = append(tw, normWarning(foot[n]))
					}
					cw := append([]string(nil), csvWarnByCell[[2]int{line, csvStartCol(col) + 2*kind}]...)
					sort.Strings(tw)
					sort.Strings(cw)
					if fmt.Sprint(tw) != fmt.Sprint(cw) {
						what := "summary"
						if kind == 1 {
							what = "comparison (vs base)"
						}
						fail("table %d row %q column %d %s: text footnotes %q, csv warnings for spreadsheet cell %s%d %q (all csv warnings of that line: %q)", ti, name, col, what, tw, sheetCol(csvStartCol(col)+2*kind), line, cw, csvWarnByLine[line])
						return
					}
					if len(tw) > 0 {
						v.Label("warning_cells_compared")
					}
				}
			}
		}
		if len(t.Rows) == 1 {
			v.Label("single_row_table")
		}
	}
	if li != len(lines) {
		fail("text has %d lines beyond what the csv describes, starting with %q", len(lines)-li, lines[li])
		return
	}
	v.NonTrivial = ncolsMax >= 2
	if len(tables) > 1 {
		v.Label("multi_table")
	}
	_ = math.Abs
	return
}

func keysOf(m map[int]bool) []int {
	var ks []int
	for k := range m {
		ks = append(ks, k)
	}
	sort.Ints(ks)
	return ks
}

// c16Gen is the shared benchstat generator plus, in one case in six, the whole file
// configuration on the column axis next to another field (the text/CSV comparison needs no
// reference pipeline, so it can use column keys the reference does not model).
func c16Gen(t *rapid.T) statCase {
	st := genStatCase(t)
	if vcase.OneIn(t, 6, "configaxis") {
		st.Table = rapid.SampledFrom([]refproj.Expr{{}, {{Key: "goos"}}, {{Key: "pkg"}}}).Draw(t, "cfgtable")
		st.Col = rapid.SampledFrom([]refproj.Expr{
			{{Key: ".config"}, {Key: ".file"}}, {{Key: ".config"}, {Key: "/size"}}, {{Key: ".file"}, {Key: ".config"}}, {{Key: ".config"}},
		}).Draw(t, "cfgcol")
	}
	return st
}

func TestC16TextCSV(t *testing.T) { vcase.Run(t, "C16", "textcsv", c16Gen, c16TextCSV) }

// sheetCol names a 0-based column the way spreadsheets do (A..Z, AA..).
func sheetCol(i int) string {
	name := ""
	for i >= 0 {
		name = string(rune('A'+i%26)) + name
		i = i/26 - 1
	}
	return name
}
