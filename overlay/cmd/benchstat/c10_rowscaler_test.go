package main

// C10 at the benchstat level: the scale a table row shares is the one
// benchunit.CommonScale gives for all of the row's centers (C10's other units
// judge CommonScale itself), whatever their sign, and missing cells are skipped.

import (
	"math"
	"testing"

	"golang.org/x/perf/benchfmt"
	"golang.org/x/perf/benchmath"
	"golang.org/x/perf/benchproc"
	"golang.org/x/perf/benchunit"
	"golang.org/x/perf/cmd/benchstat/internal/benchtab"
	"pgregory.net/rapid"
	"verif/harness/lib/vcase"
)

type c10RowCase struct {
	Vals    []float64 // finite centers, one per column
	Present []bool    // whether the column has a cell
	Binary  bool
}

func c10RowCheck(c c10RowCase) (v vcase.Verdict) {
	var pp benchproc.ProjectionParser
	colBy, err := pp.Parse("col", nil)
	if err != nil {
		v.Failf("VERIF %v", err)
		return
	}
	rowBy, _ := pp.Parse("row", nil)
	mk := func(p *benchproc.Projection, k, val string) benchproc.Key {
		return p.Project(&benchfmt.Result{Name: benchfmt.Name("X"), Config: []benchfmt.Config{{Key: k, Value: []byte(val), File: true}}})
	}
	row := mk(rowBy, "row", "r")
	tab := &benchtab.Table{Rows: []benchproc.Key{row}, Cells: map[benchtab.TableKey]*benchtab.TableCell{}}
	var present []float64
	neg, zero := false, false
	for i, val := range c.Vals {
		col := mk(colBy, "col", string(rune('a'+i)))
		tab.Cols = append(tab.Cols, col)
		if i < len(c.Present) && !c.Present[i] {
			continue
		}
		tab.Cells[benchtab.TableKey{Row: row, Col: col}] = &benchtab.TableCell{Summary: benchmath.Summary{Center: val}}
		present = append(present, val)
		neg = neg || val < 0
		zero = zero || val == 0
	}
	cls := benchunit.Decimal
	if c.Binary {
		cls = benchunit.Binary
	}
	got := tab.RowScaler(row, cls)
	want := benchunit.CommonScale(present, cls)
	if got != want {
		v.Failf("RowScaler over centers %v (class %v) = %+v, CommonScale of the same values = %+v", present, cls, got, want)
	}
	if neg {
		v.Label("negative_center")
	}
	if zero {
		v.Label("zero_center")
	}
	if len(present) < len(c.Vals) {
		v.Label("missing_cell")
	}
	v.NonTrivial = len(present) >= 2
	return
}

func c10RowGen(t *rapid.T) c10RowCase {
	n := rapid.IntRange(1, 6).Draw(t, "n")
	var c c10RowCase
	for i := 0; i < n; i++ {
		m := math.Pow(10, float64(rapid.IntRange(-12, 14).Draw(t, "mag")))
		f := m * rapid.Float64Range(1, 9.99).Draw(t, "f")
		switch rapid.IntRange(0, 5).Draw(t, "sgn") {
		case 0:
			f = -f
		case 1:
			if vcase.OneIn(t, 3, "zero") {
				f = 0
			}
		}
		c.Vals = append(c.Vals, f)
		c.Present = append(c.Present, !vcase.OneIn(t, 6, "absent"))
	}
	c.Binary = rapid.Bool().Draw(t, "binary")
	return c
}

func TestC10RowScaler(t *testing.T) { vcase.Run(t, "C10", "rowscaler", c10RowGen, c10RowCheck) }
