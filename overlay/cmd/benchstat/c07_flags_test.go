package main

// C07 at the command-line level: a malformed expression given to any of the
// expression-valued flags makes benchstat fail with an error; it is never
// silently accepted; a well-formed one is accepted by every flag alike.

import (
	"os"
	"path/filepath"
	"testing"

	"pgregory.net/rapid"
	"verif/harness/lib/vcase"
)

type c07FlagCase struct {
	Flag string // -filter | -table | -row | -col | -ignore
	Expr string
	Good bool // the expression is well-formed: the invocation must succeed
}

// well-formed expressions, including keys that can only be written quoted
var c07GoodProjections = []string{"goos", `"cpu,rev"`, `goarch,"cpu,rev" pkg`, `"a b"`, "goos@alpha,pkg", `"x@y"`, `"a,b","c,d"`, "goos pkg", `"k(1)",goos`, "città", `"\x2c"`, `goos,"a:b"`}
var c07GoodFilters = []string{"*", "goos:linux", `"cpu,rev":x OR goos:linux`, `-"a b":c`, "goos:(linux OR darwin)", `goos:"li" OR *`, "città:x OR *", `"k(1)":v OR goos:/^l/`}

var c07BadProjections = []string{".unit", "a@nope", "a@(", "a@()", "a@(b", `"abc`, "a@", "a b@num@", "(", "a,,@", ".config@(x y)", `a@"`, "goos@numeric,pkg", "@alpha", "a@(b))"}
var c07BadFilters = []string{"a", "a:", ":b", "a:(b", "a:b)", `a:"b`, "a:/b", ".config:x", ".config:x a:b", "a:b OR", "AND", "a:(b OR)", "-", "a:b (", "a b:c"}

func c07FlagCheck(c c07FlagCase) (v vcase.Verdict) {
	dir, cleanup := vcase.ScratchDir("c07-")
	defer cleanup()
	p := filepath.Join(dir, "in.txt")
	if err := os.WriteFile(p, []byte("goos: linux\nBenchmarkX 1 1 ns/op\nBenchmarkX 1 2 ns/op\n"), 0o644); err != nil {
		v.Failf("VERIF-BROKEN %v", err)
		return
	}
	v.NonTrivial = true
	v.Label("flag=" + c.Flag)
	out, errOut, err := runStat([]string{c.Flag, c.Expr, p})
	if c.Good {
		v.Label("well_formed")
		if err != nil {
			v.Failf("benchstat %s %q failed (%v; stderr %q) although the expression is well-formed", c.Flag, c.Expr, err, clipS(errOut))
		}
		return
	}
	if err == nil {
		v.Failf("benchstat %s %q succeeded (stdout %q, stderr %q) although the expression is malformed", c.Flag, c.Expr, clipS(out), clipS(errOut))
	}
	// the same invocation without the bad flag works
	if _, _, err := runStat([]string{p}); err != nil {
		v.Failf("VERIF: control invocation failed: %v", err)
	}
	return
}

func c07FlagGen(t *rapid.T) c07FlagCase {
	flag := rapid.SampledFrom([]string{"-filter", "-table", "-row", "-col", "-ignore"}).Draw(t, "flag")
	if rapid.Bool().Draw(t, "good") {
		if flag == "-filter" {
			return c07FlagCase{flag, rapid.SampledFrom(c07GoodFilters).Draw(t, "goodf"), true}
		}
		return c07FlagCase{flag, rapid.SampledFrom(c07GoodProjections).Draw(t, "goodp"), true}
	}
	if flag == "-filter" {
		return c07FlagCase{flag, rapid.SampledFrom(c07BadFilters).Draw(t, "bad"), false}
	}
	return c07FlagCase{flag, rapid.SampledFrom(c07BadProjections).Draw(t, "bad"), false}
}

func TestC07Flags(t *testing.T) { vcase.Run(t, "C07", "flags", c07FlagGen, c07FlagCheck) }
