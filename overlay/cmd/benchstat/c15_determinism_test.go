package main

// C15: benchstat output depends only on its inputs, under every schedule.
// Repetition under varying GOMAXPROCS (the runtime re-randomises map
// iteration on every loop), the race detector (the unit is built with -race),
// and the line-permutation metamorphic relation.

import (
	"encoding/json"
	"fmt"
	"math"
	"os"
	"os/exec"
	"path/filepath"
	"runtime"
	"strconv"
	"strings"
	"testing"

	"pgregory.net/rapid"
	"verif/harness/lib/refproj"
	"verif/harness/lib/vcase"
)

type c15Case struct {
	Stat statCase
	Perm []int // drives the permutation of benchmark lines within each block
	Reps int   // repetitions (GOMAXPROCS cycles through a fixed list)
	// another invocation run in between (same files, different -alpha/-confidence/-filter):
	// the output must not depend on which command lines ran earlier in the process
	OtherAlpha, OtherConfidence float64
	Fresh                       bool // also compare with a run in a fresh process
}

type c15ChildIO struct {
	Args           []string
	Stdout, Stderr string
	Err            string
}

// c15FreshRun executes benchstat invocations in a new process (this test
// binary re-executed with TestC15Child).
func c15FreshRun(dir string, argLists [][]string) ([]c15ChildIO, error) {
	in := filepath.Join(dir, "child-in.json")
	out := filepath.Join(dir, "child-out.json")
	var req []c15ChildIO
	for _, a := range argLists {
		req = append(req, c15ChildIO{Args: a})
	}
	b, _ := json.Marshal(req)
	if err := os.WriteFile(in, b, 0o644); err != nil {
		return nil, err
	}
	cmd := exec.Command(os.Args[0], "-test.run", "^TestC15Child$", "-test.count=1")
	cmd.Env = append(os.Environ(), "VERIF_C15_IN="+in, "VERIF_C15_OUT="+out, "VERIF_OUT=", "GORACE=halt_on_error=1")
	if msg, err := cmd.CombinedOutput(); err != nil {
		return nil, fmt.Errorf("child: %v\n%s", err, msg)
	}
	rb, err := os.ReadFile(out)
	if err != nil {
		return nil, err
	}
	var r []c15ChildIO
	if err := json.Unmarshal(rb, &r); err != nil {
		return nil, err
	}
	for _, x := range r {
		if x.Err != "" {
			return nil, fmt.Errorf("child benchstat error: %s", x.Err)
		}
	}
	if len(r) != len(argLists) {
		return nil, fmt.Errorf("child returned %d results for %d invocations", len(r), len(argLists))
	}
	return r, nil
}

func TestC15Child(t *testing.T) {
	in := os.Getenv("VERIF_C15_IN")
	if in == "" {
		t.Skip("helper for TestC15Rapid")
	}
	b, err := os.ReadFile(in)
	if err != nil {
		t.Fatal(err)
	}
	var r []c15ChildIO
	if err := json.Unmarshal(b, &r); err != nil {
		t.Fatal(err)
	}
	for i := range r {
		o, e, rerr := runStat(r[i].Args)
		r[i].Stdout, r[i].Stderr = o, e
		if rerr != nil {
			r[i].Err = rerr.Error()
		}
	}
	ob, _ := json.Marshal(r)
	if err := os.WriteFile(os.Getenv("VERIF_C15_OUT"), ob, 0o644); err != nil {
		t.Fatal(err)
	}
}

var _ = c15ChildIO{}

var c15Procs = []int{1, 2, 3, 4, 8, 16, 32}

// permuteBlocks permutes runs of consecutive benchmark lines.
func permuteBlocks(text string, drv []int) string {
	lines := strings.Split(text, "\n")
	out := make([]string, 0, len(lines))
	var run []string
	k := 0
	flush := func() {
		if len(drv) > 0 {
			for i := len(run) - 1; i > 0; i-- {
				j := drv[k%len(drv)] % (i + 1)
				k++
				run[i], run[j] = run[j], run[i]
			}
		}
		out = append(out, run...)
		run = run[:0]
	}
	for _, l := range lines {
		if strings.HasPrefix(l, "Benchmark") {
			run = append(run, l)
			continue
		}
		flush()
		out = append(out, l)
	}
	flush()
	return strings.Join(out, "\n")
}

func nameDerived(k string) bool {
	return k == ".name" || k == ".fullname" || strings.HasPrefix(k, "/")
}

func cellMap(tables []*csvTable) map[string][]string {
	m := map[string][]string{}
	for _, t := range tables {
		for idx, cell := range t.Cells {
			key := refproj.CanonMap(t.Key) + "#" + t.Unit + "|" + t.Rows[idx[0]] + "|" + fmt.Sprint(t.ColHdrs[idx[1]])
			m[key] = cell
		}
	}
	return m
}

func geoMap(tables []*csvTable) map[string][]string {
	m := map[string][]string{}
	for _, t := range tables {
		for col, cell := range t.Geo {
			m[refproj.CanonMap(t.Key)+"#"+t.Unit+"|"+t.GeoLabel+"|"+fmt.Sprint(t.ColHdrs[col])] = cell
		}
	}
	return m
}

// geoLastBits reports whether two summary-row cells differ only in the last bits of their
// numbers: every element is equal as text or a number (with or without a % sign) that agrees
// to a relative 1e-13 (a percentage: its ratio agrees to a relative 1e-13 or to 0.01 points).
func geoLastBits(a, b []string) bool {
	for i := range a {
		if a[i] == b[i] {
			continue
		}
		x, err1 := strconv.ParseFloat(strings.TrimSuffix(a[i], "%"), 64)
		y, err2 := strconv.ParseFloat(strings.TrimSuffix(b[i], "%"), 64)
		if err1 != nil || err2 != nil || strings.HasSuffix(a[i], "%") != strings.HasSuffix(b[i], "%") {
			return false
		}
		if strings.HasSuffix(a[i], "%") {
			// a ratio printed as a percentage change with two decimals: the ratios are 1+x/100
			x, y = 1+x/100, 1+y/100
			if math.Abs(x-y) > 0.0100001/100 && math.Abs(x-y) > 1e-13*math.Max(math.Abs(x), math.Abs(y)) {
				return false
			}
			continue
		}
		if math.Abs(x-y) > 1e-13*math.Max(math.Abs(x), math.Abs(y)) {
			return false
		}
	}
	return true
}

func c15Check(c c15Case) (v vcase.Verdict) {
	dir, cleanup := vcase.ScratchDir("c15-")
	defer cleanup()
	paths, err := c.Stat.materialize(dir)
	if err != nil {
		v.Failf("VERIF-BROKEN %v", err)
		return
	}
	old := runtime.GOMAXPROCS(0)
	defer runtime.GOMAXPROCS(old)
	reps := c.Reps
	if reps < 2 {
		reps = 2
	}
	type outp struct{ o, e string }
	var first [2]outp
	formats := []string{"text", "csv"}
	procsSeen := map[int]bool{}
	for r := 0; r < reps; r++ {
		p := c15Procs[r%len(c15Procs)]
		procsSeen[p] = true
		runtime.GOMAXPROCS(p)
		for fi, f := range formats {
			o, e, rerr := runStat(append(c.Stat.flags(f), paths...))
			if rerr != nil {
				v.Failf("benchstat error: %v", rerr)
				return
			}
			if r == 0 {
				first[fi] = outp{o, e}
				continue
			}
			if o != first[fi].o || e != first[fi].e {
				v.Failf("%s output differs between run 0 (GOMAXPROCS=%d) and run %d (GOMAXPROCS=%d)\n--- first stdout\n%s\n--- this stdout\n%s\n--- first stderr\n%s\n--- this stderr\n%s\nargs %q",
					f, c15Procs[0], r, p, clipS(first[fi].o), clipS(o), clipS(first[fi].e), clipS(e), c.Stat.flags(f))
				return
			}
		}
	}
	runtime.GOMAXPROCS(old)
	// an unrelated invocation in between must leave no trace
	{
		oc := c.Stat
		oc.Alpha, oc.Confidence = c.OtherAlpha, c.OtherConfidence
		oc.FilterText, oc.Filter = "", nil
		for _, f := range formats {
			if _, _, rerr := runStat(append(oc.flags(f), paths...)); rerr != nil {
				v.Failf("benchstat error: %v", rerr)
				return
			}
		}
		for fi, f := range formats {
			o, e, _ := runStat(append(c.Stat.flags(f), paths...))
			if o != first[fi].o || e != first[fi].e {
				v.Failf("%s output of %q changed after an unrelated invocation with flags %q ran in the same process\n--- before\n%s\n--- after\n%s",
					f, c.Stat.flags(f), oc.flags(f), clipS(first[fi].o), clipS(o))
				return
			}
		}
		v.Label("interleaved_invocation")
	}
	// a fresh process is the reference for "a function of its arguments and file contents
	// alone": whatever ran earlier in this process (other cases, other flags) must not matter
	if c.Fresh {
		var argLists [][]string
		for _, f := range formats {
			argLists = append(argLists, append(c.Stat.flags(f), paths...))
		}
		outs, err := c15FreshRun(dir, argLists)
		if err != nil {
			v.Failf("VERIF-BROKEN fresh-process run: %v", err)
			return
		}
		for fi, f := range formats {
			if outs[fi].Stdout != first[fi].o || outs[fi].Stderr != first[fi].e {
				v.Failf("%s output of %q differs between this process (which ran other invocations before) and a fresh process\n--- this process\n%s\n--- fresh process\n%s\n--- stderr here / fresh\n%s\n%s",
					f, c.Stat.flags(f), clipS(first[fi].o), clipS(outs[fi].Stdout), clipS(first[fi].e), clipS(outs[fi].Stderr))
				return
			}
		}
		v.Label("fresh_process_reference")
	}
	tables, perr := parseStatCSV(first[1].o)
	if perr != nil {
		v.Failf("%v", perr)
		return
	}
	ncells := 0
	for _, t := range tables {
		ncells += len(t.Cells)
	}
	v.NonTrivial = ncells >= 8 && len(tables) >= 2 && len(procsSeen) >= 3
	v.Sub = ncells

	// permutation of benchmark lines within each configuration block
	colStable := true
	for _, f := range c.Stat.effCol() {
		if nameDerived(f.Key) && f.Order == "" {
			colStable = false // first-observation order of a name-derived column key follows line order
		}
	}
	if !colStable {
		v.Label("perm_skipped(col order follows line order)")
		return
	}
	pc := c.Stat
	pc.Files = append([]statFile(nil), c.Stat.Files...)
	changed := false
	for i := range pc.Files {
		nt := permuteBlocks(pc.Files[i].Text, c.Perm)
		if nt != pc.Files[i].Text {
			changed = true
		}
		pc.Files[i].Text = nt
	}
	if !changed {
		return
	}
	v.Label("permuted")
	dir2, cleanup2 := vcase.ScratchDir("c15p-")
	defer cleanup2()
	paths2, err := pc.materialize(dir2)
	if err != nil {
		v.Failf("VERIF-BROKEN %v", err)
		return
	}
	o2, _, rerr := runStat(append(pc.flags("csv"), paths2...))
	if rerr != nil {
		v.Failf("benchstat error on permuted input: %v", rerr)
		return
	}
	t2, perr := parseStatCSV(o2)
	if perr != nil {
		v.Failf("%v", perr)
		return
	}
	// the scratch directory differs between the two runs: normalise it in column headers
	norm := func(m map[string][]string, d string) map[string][]string {
		out := map[string][]string{}
		for k, val := range m {
			out[strings.ReplaceAll(k, d, "DIR")] = val
		}
		return out
	}
	a, b := norm(cellMap(tables), dir), norm(cellMap(t2), dir2)
	if len(a) != len(b) {
		v.Failf("permuting lines within blocks changed the number of cells: %d vs %d\nargs %q", len(a), len(b), c.Stat.flags("csv"))
		return
	}
	for k, ca := range a {
		cb, ok := b[k]
		if !ok || fmt.Sprint(ca) != fmt.Sprint(cb) {
			v.Failf("permuting lines within blocks changed cell %s: %q vs %q\nargs %q\n--- original csv\n%s\n--- permuted csv\n%s", k, ca, cb, c.Stat.flags("csv"), clipS(first[1].o), clipS(o2))
			return
		}
	}
	// the summary row: one cell (and one ratio) per column
	ga, gb := norm(geoMap(tables), dir), norm(geoMap(t2), dir2)
	if len(ga) != len(gb) {
		v.Failf("permuting lines within blocks changed the number of summary-row cells: %d vs %d\nargs %q", len(ga), len(gb), c.Stat.flags("csv"))
		return
	}
	for k, ca := range ga {
		cb, ok := gb[k]
		if ok && fmt.Sprint(ca) == fmt.Sprint(cb) {
			continue
		}
		// C15-b: the geometric mean is a running mean over the rows in their order, so its last
		// bits follow the row order (which follows the line order); the CSV prints all digits
		if ok && len(ca) == len(cb) && vcase.KnownListed("C15-b") && geoLastBits(ca, cb) {
			v.KnownHit("C15-b")
			continue
		}
		v.Failf("permuting lines within blocks changed the summary row %s: %q vs %q\nargs %q\n--- original csv\n%s\n--- permuted csv\n%s", k, ca, cb, c.Stat.flags("csv"), clipS(first[1].o), clipS(o2))
		return
	}
	return
}

func c15Gen(t *rapid.T) c15Case {
	// some inputs hold zero measurements of either sign (-0 and 0 are equal as numbers, but print differently)
	statGenSignedZeros = vcase.OneIn(t, 5, "signedzeros")
	st := genStatCase(t)
	statGenSignedZeros = false
	if vcase.OneIn(t, 6, "configaxis") {
		// the whole file configuration as a column or row axis (the checks that compare with
		// the reference pipeline keep .config in the table key; determinism needs no reference)
		cfg := refproj.Expr{{Key: ".config"}}
		st.Table = rapid.SampledFrom([]refproj.Expr{{}, {{Key: "goos"}}, {{Key: "pkg"}}, {{Key: "goos"}, {Key: "note"}}}).Draw(t, "cfgtable")
		if rapid.Bool().Draw(t, "cfgascol") {
			st.Col = cfg
		} else {
			st.Row = cfg
		}
	}
	return c15Case{
		Stat:            st,
		Perm:            rapid.SliceOfN(rapid.IntRange(0, 1000), 12, 12).Draw(t, "perm"),
		Reps:            vcase.Scale(6, 24),
		OtherAlpha:      rapid.SampledFrom([]float64{0.5, 1, 0.001, 0.2}).Draw(t, "otheralpha"),
		OtherConfidence: rapid.SampledFrom([]float64{0.5, 0.99, 0.8, 0.993, 0.947, 0.903}).Draw(t, "otherconf"),
		Fresh:           vcase.OneIn(t, 10, "fresh"),
	}
}

func TestC15Rapid(t *testing.T) { vcase.Run(t, "C15", "rapid", c15Gen, c15Check) }
