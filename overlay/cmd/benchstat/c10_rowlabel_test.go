package main

// C10 at the benchstat level, second part: every row of a text table is printed in its OWN
// shared scale, also when two different row keys happen to be labelled alike (a row projection
// over two keys of which each result has only one: (a=v, b=) and (a=, b=v) both read "v").

import (
	"fmt"
	"os"
	"path/filepath"
	"strings"
	"testing"

	"golang.org/x/perf/benchunit"
	"pgregory.net/rapid"
	"verif/harness/lib/vcase"
)

type c10LabelCase struct {
	V1, V2 float64 // ns/op of the two rows (positive)
	Unit   string  // "ns/op" (decimal class) or "B/op" (binary class)
	Same   bool    // the two rows carry the same label
}

func c10LabelCheck(c c10LabelCase) (v vcase.Verdict) {
	if !(c.V1 > 0 && c.V2 > 0) || (c.Unit != "ns/op" && c.Unit != "B/op") {
		return
	}
	dir, cleanup := vcase.ScratchDir("c10-")
	defer cleanup()
	l2 := "v"
	if !c.Same {
		l2 = "w"
	}
	var sb strings.Builder
	for i := 0; i < 2; i++ {
		fmt.Fprintf(&sb, "BenchmarkX/a=v 1 %v %s\n", c.V1, c.Unit)
	}
	for i := 0; i < 2; i++ {
		fmt.Fprintf(&sb, "BenchmarkX/b=%s 1 %v %s\n", l2, c.V2, c.Unit)
	}
	p := filepath.Join(dir, "in.txt")
	if err := os.WriteFile(p, []byte(sb.String()), 0o644); err != nil {
		v.Failf("VERIF-BROKEN %v", err)
		return
	}
	out, errOut, err := runStat([]string{"-row", "/a,/b", p})
	if err != nil {
		v.Failf("benchstat: %v (%s)", err, clipS(errOut))
		return
	}
	want := func(val float64) string {
		tv, tu := benchunit.Tidy(val, c.Unit)
		return benchunit.Scale(tv, benchunit.ClassOf(tu))
	}
	w1, w2 := want(c.V1), want(c.V2)
	var rows []string
	for _, ln := range strings.Split(out, "\n") {
		f := strings.Fields(ln)
		if len(f) >= 2 && (f[0] == "v" || f[0] == "w") {
			rows = append(rows, ln)
		}
	}
	if len(rows) != 2 {
		v.Failf("expected two data rows, got %q\n%s", rows, clipS(out))
		return
	}
	for i, w := range []string{w1, w2} {
		if f := strings.Fields(rows[i]); f[1] != w {
			v.Failf("row %d (%v %s alone in its row) is printed as %q, its own scale gives %q\n%s", i, []float64{c.V1, c.V2}[i], c.Unit, f[1], w, clipS(out))
			return
		}
	}
	v.NonTrivial = c.Same && (c.V1 >= 10*c.V2 || c.V2 >= 10*c.V1)
	if c.Same {
		v.Label("rows_labelled_alike")
	}
	return
}

func c10LabelGen(t *rapid.T) c10LabelCase {
	val := func(l string) float64 {
		m := float64(rapid.IntRange(1000, 9999).Draw(t, l+"m")) / 1000
		e := rapid.IntRange(-3, 12).Draw(t, l+"e")
		f := m
		for ; e > 0; e-- {
			f *= 10
		}
		for ; e < 0; e++ {
			f /= 10
		}
		return f
	}
	return c10LabelCase{V1: val("a"), V2: val("b"), Unit: rapid.SampledFrom([]string{"ns/op", "B/op"}).Draw(t, "unit"), Same: rapid.IntRange(0, 3).Draw(t, "same") != 0}
}

func TestC10RowLabel(t *testing.T) { vcase.Run(t, "C10", "rowlabel", c10LabelGen, c10LabelCheck) }
