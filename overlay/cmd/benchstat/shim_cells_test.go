package main

// C14: benchstat puts each measurement in one cell and reports its true
// statistics. The oracle is an independent pipeline: reference reader
// (refbench), reference filter (refexpr), reference projections (refproj);
// the statistics of each expected sample come from benchmath directly (which
// C13 judges), so this check judges the plumbing.

import (
	"fmt"
	"math"
	"regexp"
	"sort"
	"strings"
	"testing"

	"golang.org/x/perf/benchfmt"
	"golang.org/x/perf/benchmath"
	"golang.org/x/perf/benchproc"
	"golang.org/x/perf/benchunit"
	"golang.org/x/perf/cmd/benchstat/internal/benchtab"
	"verif/harness/lib/refbench"
	"verif/harness/lib/refexpr"
	"verif/harness/lib/refproj"
	"verif/harness/lib/vcase"
)

type expCell struct {
	vals    []float64
	results []*refproj.Result
}

type expTable struct {
	tuple  refproj.Tuple
	unit   string
	rows   map[string]refproj.Tuple
	cols   map[string]refproj.Tuple
	cells  map[[2]string]*expCell // row canon, col canon
	colObs []string               // col canons in observation order (for stable reporting)
}

type expected struct {
	ctx        *refproj.Ctx
	tables     map[string]*expTable // by table canon + unit
	tableOrder []string
	units      refbench.Units
	rowRanks   refproj.Ranks
	colRanks   refproj.Ranks
	tabRanks   refproj.Ranks
	cfgOrder   []string // creation order of .config sub-fields of the table projection
	syntaxErrs int
	nMeas      int
}

func fixedOK(e refproj.Expr, t refproj.Tuple) bool {
	vi := 0
	for _, f := range e {
		if f.Key == ".config" {
			continue
		}
		v := t.Vals[vi]
		vi++
		if f.Order == "fixed" {
			ok := false
			for _, w := range f.Fixed {
				if w == v {
					ok = true
				}
			}
			if !ok {
				return false
			}
		}
	}
	return true
}

func computeExpected(c statCase, paths []string) *expected {
	ex := &expected{tables: map[string]*expTable{}, units: refbench.Units{}, rowRanks: refproj.Ranks{}, colRanks: refproj.Ranks{}, tabRanks: refproj.Ranks{}}
	tableE, rowE, colE := c.effTable(), c.effRow(), c.effCol()
	ex.ctx = refproj.NewCtx(tableE, rowE, colE, c.Ignore)
	labels, _ := refbench.FileLabels(paths, true)
	seenCfg := map[string]bool{}
	for pi := range paths {
		text := c.Files[c.Paths[pi]].Text
		for _, rec := range refbench.Read(text, ex.units) {
			if rec.Kind == "error" {
				ex.syntaxErrs++
			}
			if rec.Kind != "result" {
				continue
			}
			r := rec.Result
			pr := &refproj.Result{Name: r.Name, FileCfg: r.Config, Internal: map[string]string{".file": labels[pi]}}
			fr := &refexpr.Result{Name: r.Name, Config: map[string]string{".file": labels[pi]}}
			for k, v := range r.Config {
				fr.Config[k] = v
			}
			for _, m := range r.Values {
				fr.Meas = append(fr.Meas, refexpr.Meas{Unit: m.Unit, OrigUnit: m.OrigUnit})
			}
			tt, rt, ct := ex.ctx.Tuple(tableE, pr), ex.ctx.Tuple(rowE, pr), ex.ctx.Tuple(colE, pr)
			pass := fixedOK(tableE, tt) && fixedOK(rowE, rt) && fixedOK(colE, ct)
			var kept []refbench.Value
			for i, m := range r.Values {
				if pass && (c.Filter == nil || refexpr.Eval(c.Filter, fr, i)) {
					kept = append(kept, m)
				}
			}
			if len(kept) == 0 {
				continue
			}
			// observation orders
			ex.rowRanks.Observe(rt)
			ex.colRanks.Observe(ct)
			ex.tabRanks.Observe(tt)
			if tt.Config != nil {
				for _, k := range r.ConfigOrder {
					if _, in := tt.Config[k]; in && !seenCfg[k] {
						seenCfg[k] = true
						ex.cfgOrder = append(ex.cfgOrder, k)
					}
				}
			}
			for _, m := range kept {
				ex.nMeas++
				if ex.tabRanks[".unit"] == nil {
					ex.tabRanks[".unit"] = map[string]int{}
				}
				if _, ok := ex.tabRanks[".unit"][m.Unit]; !ok {
					ex.tabRanks[".unit"][m.Unit] = len(ex.tabRanks[".unit"])
				}
				tk := tt.Canon() + "#" + m.Unit
				tb := ex.tables[tk]
				if tb == nil {
					tb = &expTable{tuple: tt, unit: m.Unit, rows: map[string]refproj.Tuple{}, cols: map[string]refproj.Tuple{}, cells: map[[2]string]*expCell{}}
					ex.tables[tk] = tb
					ex.tableOrder = append(ex.tableOrder, tk)
				}
				rk, ck := rt.Canon(), ct.Canon()
				if _, ok := tb.cols[ck]; !ok {
					tb.colObs = append(tb.colObs, ck)
				}
				tb.rows[rk], tb.cols[ck] = rt, ct
				cell := tb.cells[[2]string{rk, ck}]
				if cell == nil {
					cell = &expCell{}
					tb.cells[[2]string{rk, ck}] = cell
				}
				// The arithmetic of unit normalisation is C04's business; use the
				// library's own scaling of the written value so that samples agree bit for bit.
				val := m.Value
				if m.OrigUnit != "" {
					val, _ = benchunit.Tidy(m.OrigValue, m.OrigUnit)
				}
				cell.vals = append(cell.vals, val)
				cell.results = append(cell.results, pr)
			}
		}
	}
	return ex
}

func (ex *expected) assumption(unit string) benchmath.Assumption {
	if um := ex.units[[2]string{unit, "assume"}]; um != nil && um.Value == "exact" {
		return benchmath.AssumeExact
	}
	return benchmath.AssumeNothing
}

var csvWarnRe = regexp.MustCompile(`^[A-Z]+([0-9]+): (.*)$`)

func relClose(a, b float64) bool {
	if a == b {
		return true
	}
	if math.IsInf(a, 0) || math.IsInf(b, 0) { // (Inf <= Inf would let an infinite value pass for a finite one)
		return false
	}
	return math.Abs(a-b) <= 1e-12*math.Max(math.Abs(a), math.Abs(b))
}

func c14Check(c statCase) (v vcase.Verdict) {
	dir, cleanup := vcase.ScratchDir("c14-")
	defer cleanup()
	paths, err := c.materialize(dir)
	if err != nil {
		v.Failf("VERIF-BROKEN %v", err)
		return
	}
	out, errOut, rerr := runStat(append(c.flags("csv"), paths...))
	if rerr != nil {
		v.Failf("benchstat returned an error for valid arguments %q: %v", c.flags("csv"), rerr)
		return
	}
	ex := computeExpected(c, paths)
	tables, perr := parseStatCSV(out)
	if perr != nil {
		v.Failf("%v\noutput:\n%s", perr, out)
		return
	}
	fail := func(format string, a ...interface{}) {
		v.Failf(format+"\nargs: %q\ncsv:\n%s", append(a, c.flags("csv"), clipS(out))...)
	}
	tableE, rowE, colE := c.effTable(), c.effRow(), c.effCol()
	th := &benchmath.Thresholds{CompareAlpha: c.effAlpha()}
	conf := c.effConfidence()

	// tables: the same set
	got := map[string]*csvTable{}
	for _, t := range tables {
		k := refproj.CanonMap(t.Key) + "#" + t.Unit
		if got[k] != nil {
			fail("table {%s} unit %s appears twice", refproj.CanonMap(t.Key), t.Unit)
			return
		}
		got[k] = t
	}
	if len(got) != len(ex.tables) {
		var want []string
		for _, tb := range ex.tables {
			want = append(want, refproj.CanonMap(tb.tuple.FieldMap())+"#"+tb.unit)
		}
		sort.Strings(want)
		fail("%d tables in the output, reference expects %d: %v", len(got), len(ex.tables), want)
		return
	}
	var wantWarn []string
	var wantWarnLine []int // the output line (spreadsheet row) each expected warning refers to
	ncells, nbaseline, ncolsMax, nrowsMax := 0, 0, 0, 0
	for _, tb := range ex.tables {
		k := refproj.CanonMap(tb.tuple.FieldMap()) + "#" + tb.unit
		gt := got[k]
		if gt == nil {
			fail("table {%s} unit %s missing from the output", refproj.CanonMap(tb.tuple.FieldMap()), tb.unit)
			return
		}
		// columns
		var colTuples []refproj.Tuple
		for _, ck := range tb.colObs {
			colTuples = append(colTuples, tb.cols[ck])
		}
		sortedCols, colsDefined := refproj.SortDefined(colE, ex.colRanks, nil, colTuples)
		if len(gt.ColHdrs) != len(colTuples) {
			fail("table %s: %d columns, reference %d", k, len(gt.ColHdrs), len(colTuples))
			return
		}
		colIdx := map[string]int{} // col canon -> output column index
		for ci, hdr := range gt.ColHdrs {
			found := ""
			for ck, ct := range tb.cols {
				if fmt.Sprint(ct.Vals) == fmt.Sprint(hdr) {
					found = ck
				}
			}
			if found == "" {
				fail("table %s: output column %d has header %q, no such column in the reference", k, ci, hdr)
				return
			}
			if _, dup := colIdx[found]; dup {
				fail("table %s: column header %q appears twice", k, hdr)
				return
			}
			colIdx[found] = ci
		}
		if colsDefined {
			for i, ct := range sortedCols {
				if colIdx[ct.Canon()] != i {
					fail("table %s: column %q at position %d, documented order puts it at %d", k, ct.Vals, colIdx[ct.Canon()], i)
					return
				}
			}
		} else {
			v.Label("col_order_undefined")
		}
		baseCanon := ""
		for ck, ci := range colIdx {
			if ci == 0 {
				baseCanon = ck
			}
		}
		// rows
		rowIdx := map[string]int{}
		labelToCanon := map[string]string{}
		for rk, rt := range tb.rows {
			if prev, dup := labelToCanon[rt.Label()]; dup && prev != rk {
				v.Label("ambiguous_row_label(skipped)")
				return
			}
			labelToCanon[rt.Label()] = rk
		}
		if len(gt.Rows) != len(tb.rows) {
			fail("table %s: %d rows %q, reference %d", k, len(gt.Rows), gt.Rows, len(tb.rows))
			return
		}
		for ri, lbl := range gt.Rows {
			rk, ok := labelToCanon[lbl]
			if !ok {
				fail("table %s: row %q not expected", k, lbl)
				return
			}
			if _, dup := rowIdx[rk]; dup {
				fail("table %s: row %q appears twice", k, lbl)
				return
			}
			rowIdx[rk] = ri
		}
		var rowTuples []refproj.Tuple
		for _, rt := range tb.rows {
			rowTuples = append(rowTuples, rt)
		}
		if sortedRows, def := refproj.SortDefined(rowE, ex.rowRanks, nil, rowTuples); def {
			for i, rt := range sortedRows {
				if rowIdx[rt.Canon()] != i {
					fail("table %s: row %q at position %d, documented order puts it at %d", k, rt.Label(), rowIdx[rt.Canon()], i)
					return
				}
			}
		} else {
			v.Label("row_order_undefined")
		}
		if len(colTuples) > ncolsMax {
			ncolsMax = len(colTuples)
		}
		if len(tb.rows) > nrowsMax {
			nrowsMax = len(tb.rows)
		}
		// cells
		if len(gt.Cells) != len(tb.cells) {
			fail("table %s: %d non-empty cells, reference %d", k, len(gt.Cells), len(tb.cells))
			return
		}
		assume := ex.assumption(tb.unit)
		if assume == benchmath.AssumeExact {
			v.Label("exact_unit")
		}
		type stat struct {
			sum benchmath.Summary
			smp *benchmath.Sample
		}
		stats := map[[2]string]stat{}
		for key, cell := range tb.cells {
			smp := benchmath.NewSample(append([]float64(nil), cell.vals...), th)
			stats[key] = stat{assume.Summary(smp, conf), smp}
		}
		// independent of benchmath: the printed center is the mode (exact units) or the
		// median (otherwise) of the expected sample
		for key, cell := range tb.cells {
			gc, ok := gt.Cells[[2]int{rowIdx[key[0]], colIdx[key[1]]}]
			if !ok {
				continue
			}
			var center float64
			if _, err := fmt.Sscan(gc[0], &center); err != nil {
				fail("table %s: center %q is not a number", k, gc[0])
				return
			}
			srt := append([]float64(nil), cell.vals...)
			sort.Float64s(srt)
			if assume == benchmath.AssumeExact {
				cnt, best := map[float64]int{}, 0
				for _, x := range srt {
					cnt[x]++
					if cnt[x] > best {
						best = cnt[x]
					}
				}
				if cnt[center] != best {
					fail("table %s: cell (row %q, column %q) center %v occurs %d times in %v, the most frequent value occurs %d times", k, tb.rows[key[0]].Label(), tb.cols[key[1]].Vals, center, cnt[center], srt, best)
					return
				}
			} else {
				n := len(srt)
				med := srt[n/2]
				if n%2 == 0 {
					med = srt[n/2-1]/2 + srt[n/2]/2
				}
				if math.Abs(center-med) > 4*0x1p-52*math.Max(math.Abs(srt[0]), math.Abs(srt[n-1])) {
					fail("table %s: cell (row %q, column %q) center %v, median of %v is %v", k, tb.rows[key[0]].Label(), tb.cols[key[1]].Vals, center, srt, med)
					return
				}
			}
		}
		for key, cell := range tb.cells {
			ncells++
			gc, ok := gt.Cells[[2]int{rowIdx[key[0]], colIdx[key[1]]}]
			if !ok {
				fail("table %s: cell (row %q, column %q) missing", k, tb.rows[key[0]].Label(), tb.cols[key[1]].Vals)
				return
			}
			st := stats[key]
			want := []string{fmt.Sprint(st.sum.Center), st.sum.PctRangeString()}
			cellLine := gt.RowLine[rowIdx[key[0]]]
			for _, w := range st.sum.Warnings {
				wantWarn, wantWarnLine = append(wantWarn, w.Error()), append(wantWarnLine, cellLine)
			}
			if diff := ex.ctx.ResidueDiff(cell.results); len(diff) > 0 {
				wantWarn, wantWarnLine = append(wantWarn, "benchmarks vary in "+strings.Join(diff, ", ")), append(wantWarnLine, cellLine)
				v.Label("residue_warning")
			}
			if key[1] != baseCanon {
				if base, ok := stats[[2]string{key[0], baseCanon}]; ok {
					nbaseline++
					cmp := assume.Compare(base.smp, st.smp)
					want = append(want, cmp.FormatDelta(base.sum.Center, st.sum.Center), cmp.String())
					// independent of benchmath: the sample sizes shown are those of the two expected samples
					nb, nc := len(tb.cells[[2]string{key[0], baseCanon}].vals), len(cell.vals)
					wantN := fmt.Sprintf("n=%d+%d", nb, nc)
					if nb == nc {
						wantN = fmt.Sprintf("n=%d", nb)
					}
					if len(gc) == 4 && !strings.HasSuffix(gc[3], wantN) {
						fail("table %s: cell (row %q, column %q) reports %q, the baseline sample has %d values and this one %d", k, tb.rows[key[0]].Label(), tb.cols[key[1]].Vals, gc[3], nb, nc)
						return
					}
					for _, w := range cmp.Warnings {
						wantWarn, wantWarnLine = append(wantWarn, w.Error()), append(wantWarnLine, cellLine)
					}
				}
			}
			if fmt.Sprint(gc) != fmt.Sprint(want) {
				fail("table %s: cell (row %q, column %q) = %q, reference %q (sample %v)", k, tb.rows[key[0]].Label(), tb.cols[key[1]].Vals, gc, want, cell.vals)
				return
			}
		}
		if len(tb.cells) < len(tb.rows)*len(tb.cols) {
			v.Label("missing_cell")
		}
		// geomean row
		if gt.GeoLabel != "geomean" {
			fail("summary row label %q", gt.GeoLabel)
			return
		}
		nBase := 0
		for rk := range tb.rows {
			if _, ok := tb.cells[[2]string{rk, baseCanon}]; ok {
				nBase++
			}
		}
		for ck, ci := range colIdx {
			var logs []float64
			allPos := true
			var ratios []float64
			zeroBase, nboth := false, 0
			// iterate rows in output order so that rounding follows the same sequence
			order := make([]string, len(gt.Rows))
			for rk, ri := range rowIdx {
				order[ri] = rk
			}
			for _, rk := range order {
				st, ok := stats[[2]string{rk, ck}]
				if !ok {
					continue
				}
				if st.sum.Center <= 0 {
					allPos = false
				}
				logs = append(logs, math.Log(st.sum.Center))
				if ck != baseCanon {
					if base, ok := stats[[2]string{rk, baseCanon}]; ok {
						nboth++
						a, b := st.sum.Center, base.sum.Center
						switch {
						case a == b:
							ratios = append(ratios, 1)
						case b == 0:
							zeroBase = true
						default:
							ratios = append(ratios, a/b)
						}
					}
				}
			}
			g := gt.Geo[ci]
			if allPos {
				m := 0.0
				for _, l := range logs {
					m += l
				}
				wantG := math.Exp(m / float64(len(logs)))
				var gotG float64
				if _, err := fmt.Sscan(g[0], &gotG); err != nil || math.Abs(gotG-wantG) > 1e-9*wantG {
					fail("table %s column %q: geomean %q, reference %v", k, tb.cols[ck].Vals, g[0], wantG)
					return
				}
			} else {
				v.Label("geomean_nonpositive")
				wantWarn, wantWarnLine = append(wantWarn, "summaries must be >0 to compute geomean"), append(wantWarnLine, gt.GeoLine)
				if g[0] != "" {
					fail("table %s column %q: geomean %q although a center is not positive", k, tb.cols[ck].Vals, g[0])
					return
				}
			}
			if ck != baseCanon {
				if nBase != nboth {
					wantWarn, wantWarnLine = append(wantWarn, "benchmark set differs from baseline; geomeans may not be comparable"), append(wantWarnLine, gt.GeoLine)
					v.Label("benchmark_set_differs")
				}
				wantR := "?"
				if !zeroBase {
					ok := true
					m := 0.0
					for _, r := range ratios {
						if r <= 0 {
							ok = false
						}
						m += math.Log(r)
					}
					if len(ratios) == 0 {
						ok = false
					}
					if ok {
						wantR = fmt.Sprintf("%+.2f%%", (math.Exp(m/float64(len(ratios)))-1)*100)
					} else {
						wantWarn, wantWarnLine = append(wantWarn, "ratios must be >0 to compute geomean"), append(wantWarnLine, gt.GeoLine)
					}
				}
				if g[1] != wantR {
					// a rounding boundary of the two-decimal rendering
					var a, b float64
					fmt.Sscanf(g[1], "%f%%", &a)
					fmt.Sscanf(wantR, "%f%%", &b)
					// (and, for huge ratios, the last bits of exp(mean(log r)) computed in another order)
					if wantR == "?" || g[1] == "?" || math.Abs(a-b) > 0.011+1e-12*math.Max(math.Abs(a), math.Abs(b)) {
						fail("table %s column %q: geomean ratio %q, reference %q", k, tb.cols[ck].Vals, g[1], wantR)
						return
					}
				}
			}
		}
	}
	// table order
	{
		type tk struct {
			t refproj.Tuple
			u string
		}
		var tts []refproj.Tuple
		for _, key := range ex.tableOrder {
			tb := ex.tables[key]
			t2 := tb.tuple
			t2.Vals = append(append([]string(nil), t2.Vals...), tb.unit)
			t2.Names = append(append([]string(nil), t2.Names...), ".unit")
			tts = append(tts, t2)
		}
		eWithUnit := append(append(refproj.Expr(nil), tableE...), refproj.FieldSpec{Key: ".unit"})
		// .config sub-fields are flattened at the position of .config; .unit comes last
		if sortedT, def := refproj.SortDefined(eWithUnit, ex.tabRanks, ex.cfgOrder, tts); def {
			for i, t2 := range sortedT {
				unit := t2.Vals[len(t2.Vals)-1]
				t3 := t2
				t3.Vals, t3.Names = t2.Vals[:len(t2.Vals)-1], t2.Names[:len(t2.Names)-1]
				wantKey := refproj.CanonMap(t3.FieldMap()) + "#" + unit
				gotKey := refproj.CanonMap(tables[i].Key) + "#" + tables[i].Unit
				if wantKey != gotKey {
					fail("table %d is %s, documented order puts %s there", i, gotKey, wantKey)
					return
				}
			}
			v.Label("table_order_checked")
		} else {
			v.Label("table_order_undefined")
		}
	}
	// warnings (stderr), as multisets of messages
	var gotWarn []string
	for _, line := range strings.Split(strings.TrimSpace(errOut), "\n") {
		if line == "" {
			continue
		}
		m := csvWarnRe.FindStringSubmatch(line)
		if m == nil {
			if ex.syntaxErrs > 0 {
				continue // file:line: syntax error lines
			}
			fail("unexpected line on stderr: %q", line)
			return
		}
		gotWarn = append(gotWarn, "row "+m[1]+": "+normWarning(m[2]))
	}
	for i := range wantWarn {
		wantWarn[i] = fmt.Sprintf("row %d: %s", wantWarnLine[i], normWarning(wantWarn[i]))
	}
	sort.Strings(gotWarn)
	sort.Strings(wantWarn)
	if fmt.Sprint(gotWarn) != fmt.Sprint(wantWarn) {
		fail("warnings differ:\n got  %q\n want %q", gotWarn, wantWarn)
		return
	}

	// struct level: every measurement counted once (Builder through the same plumbing as main)
	if msg := c14StructLevel(c, paths, ex); msg != "" {
		fail("%s", msg)
		return
	}

	nonDefault := c.Table != nil || c.Row != nil || c.Col != nil || c.Ignore != nil || c.FilterText != "" || c.Alpha != 0 || c.Confidence != 0
	v.NonTrivial = ncolsMax >= 2 && nrowsMax >= 2 && nonDefault && nbaseline > 0
	if c.Row != nil || c.Col != nil {
		v.Label("custom_row_col")
	}
	if c.Table != nil {
		v.Label("custom_table")
	}
	if c.Ignore != nil {
		v.Label("ignore")
	}
	if c.FilterText != "" {
		v.Label("filter")
	}
	if len(c.Paths) > len(c.Files) {
		v.Label("dup_path")
	}
	if len(ex.tables) > 1 {
		v.Label("multi_table")
	}
	if ncells == 0 {
		v.Label("empty_output")
	}
	v.Sub = ncells
	return
}

// c14StructLevel replays main's loop against benchtab.Builder and compares
// every cell's sample values with the expected multiset.
func c14StructLevel(c statCase, paths []string, ex *expected) string {
	filterText := c.FilterText
	if filterText == "" {
		filterText = "*"
	}
	filter, err := benchproc.NewFilter(filterText)
	if err != nil {
		return "NewFilter: " + err.Error()
	}
	var parser benchproc.ProjectionParser
	tableBy, _, err := parser.ParseWithUnit(c.effTable().Text(), filter)
	if err != nil {
		return err.Error()
	}
	rowBy, err := parser.Parse(c.effRow().Text(), filter)
	if err != nil {
		return err.Error()
	}
	colBy, err := parser.Parse(c.effCol().Text(), filter)
	if err != nil {
		return err.Error()
	}
	if c.Ignore != nil {
		if _, err := parser.Parse(c.Ignore.Text(), filter); err != nil {
			return err.Error()
		}
	}
	residue := parser.Residue()
	stat := benchtab.NewBuilder(tableBy, rowBy, colBy, residue)
	files := benchfmt.Files{Paths: paths, AllowLabels: true}
	for files.Scan() {
		if rec, ok := files.Result().(*benchfmt.Result); ok {
			if ok, _ := filter.Apply(rec); ok {
				stat.Add(rec)
			}
		}
	}
	th := benchmath.DefaultThresholds
	tabs := stat.ToTables(benchtab.TableOpts{Confidence: c.effConfidence(), Thresholds: &th, Units: files.Units()})
	total := 0
	var gotSamples, wantSamples []string
	for _, tb := range tabs.Tables {
		for key, cell := range tb.Cells {
			total += len(cell.Sample.Values)
			vs := append([]float64(nil), cell.Sample.Values...)
			sort.Float64s(vs)
			gotSamples = append(gotSamples, fmt.Sprintf("%s|%s|%s|%v", tb.Unit, key.Row.StringValues(), key.Col.StringValues(), vs))
		}
	}
	for _, tb := range ex.tables {
		for key, cell := range tb.cells {
			vs := append([]float64(nil), cell.vals...)
			sort.Float64s(vs)
			wantSamples = append(wantSamples, fmt.Sprintf("%s|%s|%s|%v", tb.unit, tb.rows[key[0]].Label(), tb.cols[key[1]].Label(), vs))
		}
	}
	if total != ex.nMeas {
		return fmt.Sprintf("cells hold %d measurements in total, %d measurements pass the filter", total, ex.nMeas)
	}
	sort.Strings(gotSamples)
	sort.Strings(wantSamples)
	if fmt.Sprint(gotSamples) != fmt.Sprint(wantSamples) {
		for i := range gotSamples {
			if i >= len(wantSamples) || gotSamples[i] != wantSamples[i] {
				w := ""
				if i < len(wantSamples) {
					w = wantSamples[i]
				}
				return fmt.Sprintf("cell samples differ: got %s, reference %s", gotSamples[i], w)
			}
		}
		return "cell samples differ"
	}
	return ""
}

func TestC14Rapid(t *testing.T) { vcase.Run(t, "C14", "rapid", genStatCase, c14Check) }
