package main

// Shared by the C14, C15 and C16 checks (overlay tests compiled into
// cmd/benchstat): structural generation of benchstat inputs and flags, a
// runner for the real entry point, and a CSV reader.

import (
	"bytes"
	"encoding/csv"
	"fmt"
	"io"
	"math"
	"os"
	"path/filepath"
	"regexp"
	"runtime"
	"runtime/debug"
	"sort"
	"strconv"
	"strings"
	"time"

	"pgregory.net/rapid"
	"verif/harness/lib/refexpr"
	"verif/harness/lib/refproj"
	"verif/harness/lib/vcase"
)

type statFile struct {
	Label string // non-empty: passed as label=path
	Text  string
	// twoSp (generation only): the scaled spelling of a metric this file writes in two spellings
	twoSp string
}

type statCase struct {
	Files      []statFile
	Paths      []int // argument order; indices into Files (duplicates allowed)
	Bare       []int // positions in Paths given without the file's label (a file can be named both ways)
	Table      refproj.Expr
	Row        refproj.Expr
	Col        refproj.Expr
	Ignore     refproj.Expr
	Filter     *refexpr.Node
	FilterText string
	Alpha      float64 // 0 = flag omitted (default 0.05); -1 = "-alpha 0" (a legal threshold: nothing is significant)
	Confidence float64 // 0 = flag omitted (default 0.95)
}

func (c statCase) effTable() refproj.Expr {
	if c.Table == nil {
		return refproj.Expr{{Key: ".config"}}
	}
	return c.Table
}
func (c statCase) effRow() refproj.Expr {
	if c.Row == nil {
		return refproj.Expr{{Key: ".fullname"}}
	}
	return c.Row
}
func (c statCase) effCol() refproj.Expr {
	if c.Col == nil {
		return refproj.Expr{{Key: ".file"}}
	}
	return c.Col
}
func (c statCase) effAlpha() float64 {
	if c.Alpha == -1 {
		return 0
	}
	if c.Alpha == 0 {
		return 0.05
	}
	return c.Alpha
}
func (c statCase) effConfidence() float64 {
	if c.Confidence == 0 {
		return 0.95
	}
	return c.Confidence
}

// materialize writes the files and returns the path arguments (after the flags).
func (c statCase) materialize(dir string) (paths []string, err error) {
	real := make([]string, len(c.Files))
	for i, f := range c.Files {
		real[i] = filepath.Join(dir, fmt.Sprintf("f%d.txt", i))
		if err := os.WriteFile(real[i], []byte(f.Text), 0o644); err != nil {
			return nil, err
		}
	}
	for i, pi := range c.Paths {
		p := real[pi]
		bare := false
		for _, b := range c.Bare {
			bare = bare || b == i
		}
		if c.Files[pi].Label != "" && !bare {
			p = c.Files[pi].Label + "=" + p
		}
		paths = append(paths, p)
	}
	return paths, nil
}

func (c statCase) flags(format string) []string {
	var a []string
	if c.Table != nil {
		a = append(a, "-table", c.Table.Text())
	}
	if c.Row != nil {
		a = append(a, "-row", c.Row.Text())
	}
	if c.Col != nil {
		a = append(a, "-col", c.Col.Text())
	}
	if c.Ignore != nil {
		a = append(a, "-ignore", c.Ignore.Text())
	}
	if c.FilterText != "" {
		a = append(a, "-filter", c.FilterText)
	}
	if c.Alpha == -1 {
		a = append(a, "-alpha", "0")
	} else if c.Alpha != 0 {
		a = append(a, "-alpha", strconv.FormatFloat(c.Alpha, 'g', -1, 64))
	}
	if c.Confidence != 0 {
		a = append(a, "-confidence", strconv.FormatFloat(c.Confidence, 'g', -1, 64))
	}
	a = append(a, "-format", format)
	return a
}

// runStat runs the real benchstat entry point in-process.
//
// An invocation on these inputs takes milliseconds. One that has not returned
// after runStatPatience is examined: if every goroutine working for it is
// parked (channel operation, semaphore, WaitGroup, mutex, select) and the set
// of their stacks does not change over three looks two seconds apart, nothing
// can wake it up any more and it is reported as an error "blocked for good" —
// for benchstat that is an observable outcome like any other (no output), not
// a timing measurement. While some goroutine of it is still running or
// runnable (a slow, loaded machine) the wait goes on, up to runStatCap.
const (
	runStatPatience = 20 * time.Second
	runStatCap      = 20 * time.Minute
)

var runStatParked = regexp.MustCompile(`^goroutine \d+ \[(chan receive|chan send|select|semacquire|sync\.WaitGroup\.Wait|sync\.Mutex\.Lock|sync\.RWMutex\.R?Lock|sync\.Cond\.Wait)(, \d+ minutes)?\]:$`)

// runStatGoroutines returns the stacks (state line first) of the goroutines
// that have a frame of the benchstat invocation on them, with the waiting time
// removed from the state line, and whether all of them are parked.
func runStatGoroutines() (stacks []string, allParked bool) {
	buf := make([]byte, 1<<20)
	for {
		n := runtime.Stack(buf, true)
		if n < len(buf) {
			buf = buf[:n]
			break
		}
		buf = make([]byte, 2*len(buf))
	}
	allParked = true
	for _, g := range strings.Split(string(buf), "\n\n") {
		if !strings.Contains(g, "main.benchstat(") && !strings.Contains(g, "/benchtab.") && !strings.Contains(g, "/benchproc.") && !strings.Contains(g, "/benchmath.") && !strings.Contains(g, "/benchfmt.") {
			continue
		}
		if strings.Contains(g, "main.runStatGoroutines(") {
			continue
		}
		head, _, _ := strings.Cut(g, "\n")
		if !runStatParked.MatchString(head) {
			allParked = false
		}
		if k := strings.Index(head, ", "); k >= 0 && strings.HasSuffix(head, " minutes]:") {
			g = head[:k] + "]:" + g[len(head):]
		}
		stacks = append(stacks, g)
	}
	sort.Strings(stacks)
	return stacks, allParked && len(stacks) > 0
}

func runStat(args []string) (stdout, stderr string, err error) {
	type res struct {
		o, e string
		err  error
	}
	done := make(chan res, 1)
	go func() {
		var o, e bytes.Buffer
		defer func() {
			// a panic on the invocation's own goroutine is an outcome of the invocation
			// (one on a goroutine it started still kills the process; the driver then
			// re-runs the worker with case tracing to find the case)
			if p := recover(); p != nil {
				st := string(debug.Stack())
				if len(st) > 2500 {
					st = st[:2500]
				}
				done <- res{o.String(), e.String(), fmt.Errorf("panic: %v\n%s", p, st)}
			}
		}()
		err := benchstat(&o, &e, args)
		done <- res{o.String(), e.String(), err}
	}()
	start := time.Now()
	wait := runStatPatience
	stable, last := 0, ""
	for {
		select {
		case r := <-done:
			return r.o, r.e, r.err
		case <-time.After(wait):
		}
		wait = 2 * time.Second
		stacks, parked := runStatGoroutines()
		cur := strings.Join(stacks, "\n\n")
		if parked && cur == last {
			stable++
		} else {
			stable = 0
		}
		last = cur
		if stable >= 2 {
			return "", "", fmt.Errorf("benchstat is blocked for good after %v (GOMAXPROCS=%d): all %d goroutines of the invocation are parked and nothing changes; first of them:\n%s\nargs %q",
				time.Since(start).Round(time.Second), runtime.GOMAXPROCS(0), len(stacks), clipS(stacks[0]), args)
		}
		if time.Since(start) > runStatCap {
			return "", "", fmt.Errorf("benchstat did not return within %v (GOMAXPROCS=%d, %d goroutines alive), args %q", runStatCap, runtime.GOMAXPROCS(0), runtime.NumGoroutine(), args)
		}
	}
}

// ---------------------------------------------------------------------------
// CSV reading

type csvTable struct {
	Key      map[string]string // full table key (running header values), empties dropped
	Unit     string
	ColHdrs  [][]string          // per column: values of the column-key rows
	Rows     []string            // row labels in order
	Cells    map[[2]int][]string // (row index, column index) -> center, CI[, delta, p]
	Geo      map[int][]string    // column index -> [summary][, ratio]  ("" when absent)
	GeoLabel string
	NRows    int
	Headers  []string // the header records ("key: value", "" separators) printed before this table, in order
	RowLine  []int    // 1-based output line of each data row
	GeoLine  int      // 1-based output line of the summary row
}

// startCol in the CSV layout: label, then per column center, CI and, from the
// second column on, delta and p.
func csvStartCol(exp int) int {
	if exp == 0 {
		return 1
	}
	return 1 + 2 + (exp-1)*4
}

func csvColOf(idx int) (exp, off int, ok bool) {
	if idx < 1 {
		return 0, 0, false
	}
	if idx < 3 {
		return 0, idx - 1, true
	}
	exp = 1 + (idx-3)/4
	return exp, (idx - 3) % 4, true
}

func parseStatCSV(out string) ([]*csvTable, error) {
	r := csv.NewReader(strings.NewReader(out))
	r.FieldsPerRecord = -1
	var recs [][]string
	var lineOf []int
	for {
		rec, err := r.Read()
		if err == io.EOF {
			break
		}
		if err != nil {
			return nil, err
		}
		ln, _ := r.FieldPos(0)
		recs = append(recs, rec)
		lineOf = append(lineOf, ln)
	}
	var tables []*csvTable
	running := map[string]string{}
	i := 0
	for i < len(recs) {
		// header lines: single field "key: value" or "" separators
		var hdrs []string
		for i < len(recs) && len(recs[i]) == 1 && recs[i][0] != "geomean" {
			h := recs[i][0]
			hdrs = append(hdrs, h)
			if h != "" {
				k, v, ok := strings.Cut(h, ": ")
				if !ok {
					if strings.HasSuffix(h, ":") { // "key: " with empty value is written as "key: "
						k, v, ok = strings.TrimSuffix(h, ":"), "", true
					} else {
						return nil, fmt.Errorf("csv: unexpected single-field record %q", h)
					}
				}
				running[k] = v
			}
			i++
		}
		if i >= len(recs) {
			break
		}
		t := &csvTable{Key: map[string]string{}, Cells: map[[2]int][]string{}, Geo: map[int][]string{}, Headers: hdrs}
		for k, v := range running {
			if v != "" {
				t.Key[k] = v
			}
		}
		// column-key rows up to the unit row (field 2 == "CI")
		var hdrRows [][]string
		for i < len(recs) && !(len(recs[i]) >= 3 && recs[i][2] == "CI" && recs[i][0] == "") {
			if recs[i][0] != "" {
				return nil, fmt.Errorf("csv: expected a column-key row, got %q", recs[i])
			}
			hdrRows = append(hdrRows, recs[i])
			i++
		}
		if i >= len(recs) {
			return nil, fmt.Errorf("csv: no unit row")
		}
		unitRow := recs[i]
		i++
		t.Unit = unitRow[1]
		ncols := 0
		for exp := 0; csvStartCol(exp) < len(unitRow); exp++ {
			if unitRow[csvStartCol(exp)] != t.Unit {
				return nil, fmt.Errorf("csv: unit row %q inconsistent", unitRow)
			}
			ncols++
		}
		t.ColHdrs = make([][]string, ncols)
		for _, hr := range hdrRows {
			for exp := 0; exp < ncols; exp++ {
				v := ""
				if csvStartCol(exp) < len(hr) {
					v = hr[csvStartCol(exp)]
				}
				t.ColHdrs[exp] = append(t.ColHdrs[exp], v)
			}
		}
		// data rows until the geomean row
		for i < len(recs) && recs[i][0] != "geomean" {
			rec := recs[i]
			if len(rec) == 1 {
				return nil, fmt.Errorf("csv: table without geomean row before %q", rec)
			}
			ri := len(t.Rows)
			t.Rows = append(t.Rows, rec[0])
			t.RowLine = append(t.RowLine, lineOf[i])
			for exp := 0; exp < ncols; exp++ {
				s := csvStartCol(exp)
				if s >= len(rec) || rec[s] == "" {
					continue
				}
				w := 2
				if exp > 0 {
					w = 4
				}
				cell := []string{}
				for j := 0; j < w && s+j < len(rec); j++ {
					cell = append(cell, rec[s+j])
				}
				// trailing empties of delta/p mean "no baseline"
				for len(cell) > 2 && cell[len(cell)-1] == "" {
					cell = cell[:len(cell)-1]
				}
				t.Cells[[2]int{ri, exp}] = cell
			}
			i++
		}
		if i >= len(recs) {
			return nil, fmt.Errorf("csv: missing geomean row")
		}
		g := recs[i]
		t.GeoLine = lineOf[i]
		i++
		t.GeoLabel = g[0]
		for exp := 0; exp < ncols; exp++ {
			s := csvStartCol(exp)
			var vals []string
			if s < len(g) {
				vals = append(vals, g[s])
			} else {
				vals = append(vals, "")
			}
			if exp > 0 {
				if s+2 < len(g) {
					vals = append(vals, g[s+2])
				} else {
					vals = append(vals, "")
				}
			}
			t.Geo[exp] = vals
		}
		tables = append(tables, t)
	}
	return tables, nil
}

// ---------------------------------------------------------------------------
// generation

var (
	stBases  = []string{"Encode", "Decode", "Sort", "Copy", "Hash", "Parse", "Ab", "A", "Merge", "Scan", "Walk", "Zip"}
	stSizes  = []string{"1k", "4k", "64", "c", "bc"}
	stKinds  = []string{"ka", "kb"}
	stProcs  = []string{"", "-4", "-8"}
	stUnits  = []string{"ns/op", "B/op", "MB/s", "widgets", "x-bytes"}
	stCfgKey = []string{"goos", "goarch", "pkg", "note", "commit"}
	stCfgVal = map[string][]string{
		"goos": {"linux", "darwin"}, "goarch": {"amd64", "arm64"}, "pkg": {"p/a", "p/b"},
		"note": {"n1", "n2", "50%s x%d"}, "commit": {"c1", "c2", "c3"},
	}
)

// statGenSignedZeros makes the generator produce zero measurements of either sign and NaN
// measurements (a check whose oracle does not depend on which zero a median or a most frequent
// value is, nor on what the statistics of a sample with a NaN are, sets it).
var statGenSignedZeros bool

func genStatValue(t *rapid.T, center float64, constant bool) float64 {
	if constant {
		return center
	}
	if statGenSignedZeros && vcase.OneIn(t, 6, "signedzero") {
		if vcase.OneIn(t, 4, "nanvalue") {
			return math.NaN() // "NaN" is a number the format accepts
		}
		return math.Copysign(0, float64(rapid.IntRange(-1, 1).Draw(t, "zerosign")))
	}
	if vcase.OneIn(t, 30, "zero") {
		return 0
	}
	if vcase.OneIn(t, 30, "negative") {
		// differences and custom metrics can be negative
		return -center * (1 + float64(rapid.IntRange(-8, 8).Draw(t, "nnoise"))/100)
	}
	if vcase.OneIn(t, 40, "tiny") {
		return center / 1e6
	}
	switch rapid.IntRange(0, 9).Draw(t, "vk") {
	case 0:
		return center
	default:
		// a few percent of noise on a coarse grid so that ties occur
		return center * (1 + float64(rapid.IntRange(-8, 8).Draw(t, "noise"))/100)
	}
}

func genStatFile(t *rapid.T, scale float64, constant bool, baseOff int, many, collide bool) statFile {
	var sb strings.Builder
	var f statFile
	if vcase.OneIn(t, 4, "label") {
		f.Label = rapid.SampledFrom([]string{"old", "new", "exp"}).Draw(t, "lbl")
	}
	if vcase.OneIn(t, 3, "unitmeta") {
		sb.WriteString(rapid.SampledFrom([]string{
			"Unit widgets assume=exact better=higher\n", "Unit x-bytes assume=exact\n", "Unit ns/op better=lower\n", "Unit MB/s assume=nothing better=higher\n", "Unit B/op assume=exact\n",
		}).Draw(t, "um"))
	}
	nblocks := rapid.IntRange(1, 3).Draw(t, "nblocks")
	nbases := rapid.IntRange(1, 4).Draw(t, "nbases")
	if many {
		nbases = rapid.IntRange(8, 12).Draw(t, "nbasesmany")
	}
	// (baseOff > 0: this file's benchmarks are disjoint from the first file's)
	bases := make([]string, 0, nbases)
	for i := 0; i < nbases; i++ {
		bases = append(bases, stBases[(baseOff+i)%len(stBases)])
	}
	if vcase.OneIn(t, 6, "collidebases") && nbases >= 2 {
		bases[0], bases[1] = "Ab", "A" // with sizes "c"/"bc": tuples whose concatenations coincide
	}
	withSize := rapid.Bool().Draw(t, "withsize")
	if collide {
		// (.name=Ab,/size=c) and (.name=A,/size=bc) concatenate to the same text; their
		// result lines interleave below
		if nbases < 2 {
			bases = append(bases, "")
		}
		bases[0], bases[1] = "Ab", "A"
		withSize = true
	}
	withKind := vcase.OneIn(t, 3, "withkind")
	// a part whose key merely starts like a projectable key (/size): it is not that key
	withLook := vcase.OneIn(t, 5, "lookalikepart")
	proc := rapid.SampledFrom(stProcs).Draw(t, "proc")
	// names so long that a result line fills most of (or more than) one 4 KiB read window of the
	// line scanner: consecutive lines then occupy the same bytes of its buffer
	longPart := ""
	if vcase.OneIn(t, 25, "longnames") {
		longPart = "/pad=" + strings.Repeat("p", rapid.SampledFrom([]int{1300, 2040, 2100, 3000, 4090, 5000}).Draw(t, "longlen"))
	}
	units := []string{"ns/op"}
	for _, u := range stUnits[1:] {
		if vcase.OneIn(t, 3, "unit") {
			units = append(units, u)
		}
	}
	if vcase.OneIn(t, 8, "twospellings") {
		// one metric written in a scaled unit on some lines and in its base unit on others,
		// where the base unit still contains a scalable component in the denominator
		tw := rapid.SampledFrom([]string{"ns/MB|sec/MB", "MB/ns|B/ns", "ns/ns|sec/ns", "MB/s|B/s", "ns/frame|sec/frame"}).Draw(t, "twosp")
		units = append(units, tw)
		f.twoSp = tw[:strings.Index(tw, "|")]
	}
	// some lines carry a second measurement in a unit they already have (another spelling of the
	// same unit included): both belong to the cell
	repeatUnit := vcase.OneIn(t, 12, "repeatunit")
	for b := 0; b < nblocks; b++ {
		nk := rapid.IntRange(0, 3).Draw(t, "ncfg")
		if b == 0 {
			// (sometimes the first results come before any configuration line)
			nk = rapid.IntRange(0, 3).Draw(t, "ncfg0")
		}
		for i := 0; i < nk; i++ {
			k := rapid.SampledFrom(stCfgKey).Draw(t, "ck")
			if b > 0 && vcase.OneIn(t, 6, "del") {
				sb.WriteString(k + ":\n")
				continue
			}
			sb.WriteString(k + ": " + rapid.SampledFrom(stCfgVal[k]).Draw(t, "cv") + "\n")
		}
		sb.WriteString("\n")
		nsamples := rapid.IntRange(1, 8).Draw(t, "nsamples")
		for s := 0; s < nsamples; s++ {
			for bi, base := range bases {
				if vcase.OneIn(t, 8, "skipbench") {
					continue
				}
				name := base
				mult := float64(bi + 1)
				if withSize {
					sz := rapid.SampledFrom(stSizes).Draw(t, "size")
					if collide && bi < 2 && sz != "c" && sz != "bc" {
						sz = []string{"c", "bc"}[bi]
					}
					name += "/size=" + sz
					mult *= float64(len(sz))
				}
				if withLook {
					name += rapid.SampledFrom([]string{"/sizeclass=8", "/sizeclass=9", "/sizes", "/kinds=x"}).Draw(t, "look")
				}
				if withKind {
					name += "/kind=" + rapid.SampledFrom(stKinds).Draw(t, "kind")
				}
				name += longPart + proc
				fmt.Fprintf(&sb, "Benchmark%s %d", name, rapid.IntRange(1, 1000).Draw(t, "iters"))
				for ui, u := range units {
					if ui > 0 && vcase.OneIn(t, 6, "skipunit") {
						continue
					}
					c := scale * mult * float64(ui*7+3) * 10
					val := genStatValue(t, c, constant)
					if scaled, base, two := strings.Cut(u, "|"); two {
						u = base
						if rapid.Bool().Draw(t, "spelling") {
							u = scaled
							if strings.HasPrefix(scaled, "ns") {
								val *= 1e9
							} else {
								val /= 1e6
							}
						}
					}
					if vcase.OneIn(t, 60, "oddspelling") {
						// spellings that leave the number parser's fast paths: exact ties between two
						// floats, values rounding up to a power of two, 17 and more digits, a capital E
						fmt.Fprintf(&sb, " %s %s", rapid.SampledFrom([]string{"4503599627370496.5", "9007199254740993.0", "4503599627370497.5", "1.2345678901234567E+02", "3.9999999999999999999", "0.99999999999999999",
							"1.00000000000000011102230246251565404236316680908203125", "1.2345678901234567890123E5", "1023.99999999999999999", "2.5E-30", "12345678901234567890"}).Draw(t, "oddsp"), u)
						continue
					}
					if vcase.OneIn(t, 80, "int64edge") {
						// plain integers around 2^63, where an integer fast path has to give up
						fmt.Fprintf(&sb, " %s %s", rapid.SampledFrom([]string{"9223372036854775807", "9223372036854775808", "9223372036854775809", "922337203685477580"}).Draw(t, "edgeint"), u)
						continue
					}
					fmt.Fprintf(&sb, " %v %s", val, u)
					if repeatUnit && rapid.IntRange(0, 2).Draw(t, "repeathere") == 0 {
						v2, u2 := genStatValue(t, c, constant), u
						if u == "ns/op" && rapid.Bool().Draw(t, "repeatbase") {
							v2, u2 = v2/1e9, "sec/op"
						}
						fmt.Fprintf(&sb, " %v %s", v2, u2)
					}
				}
				sb.WriteString("\n")
			}
		}
	}
	if vcase.OneIn(t, 150, "manyunits") {
		// more distinct units than the reader's table of shared strings holds (1024)
		nu := rapid.IntRange(1030, 1100).Draw(t, "nmanyunits")
		for rep := 0; rep < 2; rep++ {
			for i := 0; i < nu; i++ {
				fmt.Fprintf(&sb, "BenchmarkMany 1 %d mu%d\n", 100+i+rep, i)
			}
		}
	}
	if vcase.OneIn(t, 12, "wide") {
		// a result line with more measurements than one mask word of the filter holds
		nw := rapid.SampledFrom([]int{32, 33, 40, 64, 65}).Draw(t, "nwide")
		for rep := 0; rep < 2; rep++ {
			sb.WriteString("BenchmarkWide 1")
			for i := 0; i < nw; i++ {
				fmt.Fprintf(&sb, " %d u%d", 10+i+rep, i)
			}
			sb.WriteString("\n")
		}
	}
	f.Text = sb.String()
	return f
}

func genStatExpr(t *rapid.T, pool []string, label string, maxFields int) refproj.Expr {
	n := rapid.IntRange(1, maxFields).Draw(t, label+"_n")
	var e refproj.Expr
	used := map[string]bool{}
	for i := 0; i < n; i++ {
		k := rapid.SampledFrom(pool).Draw(t, label+"_k")
		if used[k] {
			continue
		}
		used[k] = true
		f := refproj.FieldSpec{Key: k}
		switch rapid.IntRange(0, 5).Draw(t, label+"_ord") {
		case 0:
			f.Order = "alpha"
		case 1:
			if k == "/size" || k == "/gomaxprocs" {
				f.Order = "num"
			}
		case 2:
			if vals, ok := stCfgVal[k]; ok && vcase.OneIn(t, 2, label+"_fixed") {
				f.Order = "fixed"
				f.Fixed = append([]string(nil), vals[:rapid.IntRange(1, len(vals)).Draw(t, label+"_nfx")]...)
			}
		}
		e = append(e, f)
	}
	return e
}

func genStatCase(t *rapid.T) statCase {
	var c statCase
	nfiles := rapid.IntRange(1, 4).Draw(t, "nfiles")
	if vcase.OneIn(t, 12, "manyfiles") {
		// seven and more columns: CSV fields beyond spreadsheet column Z
		nfiles = rapid.IntRange(7, 9).Draw(t, "nmanyfiles")
	}
	// constant mode: every measurement of a benchmark/unit is the same number in every file
	// (the comparison then cannot run a test: "all samples are equal")
	constant := vcase.OneIn(t, 8, "constant")
	disjoint := vcase.OneIn(t, 10, "disjoint") // files without any benchmark in common
	many := vcase.OneIn(t, 12, "manyrows")     // ten or more rows (and, with exact units, as many distinct warnings)
	collide := vcase.OneIn(t, 10, "collide")   // distinct two-field row keys whose field values concatenate alike
	for i := 0; i < nfiles; i++ {
		scale := 1 + float64(i)*0.06
		if constant {
			scale = 1
		}
		off := 0
		if disjoint && i > 0 {
			off = 4 * i
		}
		c.Files = append(c.Files, genStatFile(t, scale, constant, off, many, collide))
	}
	for i := range c.Files {
		c.Paths = append(c.Paths, i)
	}
	if vcase.OneIn(t, 6, "duppath") {
		c.Paths = append(c.Paths, rapid.IntRange(0, nfiles-1).Draw(t, "dup"))
		if rapid.Bool().Draw(t, "dupbare") {
			// the same file once under its label and once by its path alone
			c.Bare = append(c.Bare, len(c.Paths)-1)
		}
	}
	if vcase.OneIn(t, 3, "customcol") {
		c.Col = genStatExpr(t, []string{".file", "goos", "goarch", "/kind", "/size", "commit", "/gomaxprocs"}, "col", 3)
	}
	if vcase.OneIn(t, 3, "customrow") {
		c.Row = genStatExpr(t, []string{".fullname", ".name", "/size", "/kind", "pkg"}, "row", 2)
	}
	if collide && !vcase.OneIn(t, 4, "collidefree") {
		c.Row = refproj.Expr{{Key: ".name"}, {Key: "/size"}}
	}
	if vcase.OneIn(t, 3, "customtable") {
		c.Table = genStatExpr(t, []string{".config", "goos", "pkg", "goarch", "note"}, "table", 2)
		if vcase.OneIn(t, 6, "emptytable") {
			c.Table = refproj.Expr{} // -table "": everything in one table per unit
		}
	}
	if vcase.OneIn(t, 3, "ignore") {
		c.Ignore = genStatExpr(t, []string{"goarch", "note", "commit", "/size", "/gomaxprocs", ".file", "pkg", ".fullname", ".config", ".name"}, "ign", 2)
		for i := range c.Ignore {
			c.Ignore[i].Order, c.Ignore[i].Fixed = "", nil
		}
	}
	if vcase.OneIn(t, 3, "filter") {
		c.Filter = genStatFilter(t, 2)
		c.FilterText = refexpr.Print(t, c.Filter)
	}
	for _, f := range c.Files {
		if f.twoSp != "" && rapid.Bool().Draw(t, "filtertwosp") {
			// a filter naming the scaled spelling of a metric that the input writes in both
			// spellings: every measurement of the metric passes, however it was written
			c.Filter = &refexpr.Node{Op: "match", Key: ".unit", Vals: []refexpr.Term{{Lit: f.twoSp}}}
			if rapid.Bool().Draw(t, "filtertwospor") {
				c.Filter = &refexpr.Node{Op: "or", Kids: []*refexpr.Node{c.Filter, {Op: "match", Key: ".unit", Vals: []refexpr.Term{{Lit: "B/op"}}}}}
			}
			c.FilterText = refexpr.Print(t, c.Filter)
			break
		}
	}
	if vcase.OneIn(t, 4, "alpha") {
		c.Alpha = rapid.SampledFrom([]float64{0.001, 0.01, 0.1, 0.5, 1, -1}).Draw(t, "alphav")
	}
	if vcase.OneIn(t, 4, "conf") {
		c.Confidence = rapid.SampledFrom([]float64{0.5, 0.8, 0.9, 0.99}).Draw(t, "confv")
	}
	return c
}

func genStatFilter(t *rapid.T, depth int) *refexpr.Node {
	leaf := func() *refexpr.Node {
		switch rapid.IntRange(0, 4).Draw(t, "fleaf") {
		case 0:
			return &refexpr.Node{Op: "match", Key: ".unit", Vals: []refexpr.Term{{Lit: rapid.SampledFrom([]string{"ns/op", "sec/op", "B/op", "MB/s", "B/s", "widgets", "u0", "u20", "u31", "u32", "u33", "u63", "u64"}).Draw(t, "fu")}}}
		case 1:
			return &refexpr.Node{Op: "match", Key: ".name", Vals: []refexpr.Term{{Lit: rapid.SampledFrom(stBases[:3]).Draw(t, "fn")}}}
		case 2:
			return &refexpr.Node{Op: "list", Key: "/size", Vals: []refexpr.Term{{Lit: "1k"}, {Lit: rapid.SampledFrom(stSizes).Draw(t, "fs")}}}
		case 3:
			k := rapid.SampledFrom(stCfgKey[:3]).Draw(t, "fk")
			return &refexpr.Node{Op: "match", Key: k, Vals: []refexpr.Term{{Lit: rapid.SampledFrom(stCfgVal[k]).Draw(t, "fv")}}}
		default:
			return &refexpr.Node{Op: "match", Key: ".fullname", Vals: []refexpr.Term{{Re: rapid.SampledFrom([]string{"^E", "code", "size=4k", "-8$"}).Draw(t, "fre")}}}
		}
	}
	if depth == 0 || rapid.Bool().Draw(t, "fleafp") {
		return leaf()
	}
	switch rapid.IntRange(0, 2).Draw(t, "fop") {
	case 0:
		return &refexpr.Node{Op: "not", Kids: []*refexpr.Node{genStatFilter(t, depth-1)}}
	case 1:
		return &refexpr.Node{Op: "and", Kids: []*refexpr.Node{genStatFilter(t, depth-1), genStatFilter(t, depth-1)}}
	}
	return &refexpr.Node{Op: "or", Kids: []*refexpr.Node{genStatFilter(t, depth-1), genStatFilter(t, depth-1)}}
}

func clipS(s string) string {
	if len(s) > 2500 {
		return s[:2500] + "…"
	}
	return s
}

func normWarning(msg string) string {
	if rest, ok := strings.CutPrefix(msg, "benchmarks vary in "); ok {
		ks := strings.Split(rest, ", ")
		sort.Strings(ks)
		return "benchmarks vary in " + strings.Join(ks, ", ")
	}
	return msg
}
