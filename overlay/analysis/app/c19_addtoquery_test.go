package app

// C19 (Mode B): a label value quoted by the analysis front end's query builder
// (addToQuery, used by the "filter by this value" links of the compare page) is
// split back into exactly the original word — by query.SplitWords directly, and
// along the front end's real path parseQueryString -> prefix + " " + query ->
// SplitWords on the storage server.

import (
	"strings"
	"testing"

	"golang.org/x/perf/storage/query"
	"pgregory.net/rapid"
	"verif/harness/lib/vcase"
)

type c19AddCase struct {
	Key   string   `json:"key"`
	Val   string   `json:"val"`
	Query string   `json:"query"`           // the query the filter is added to
	Words []string `json:"words,omitempty"` // informational: the words Query was built from
}

func c19Same(a, b []string) bool {
	if len(a) != len(b) {
		return false
	}
	for i := range a {
		if a[i] != b[i] {
			return false
		}
	}
	return true
}

func c19CheckAdd(c c19AddCase) (v vcase.Verdict) {
	add := c.Key + ":" + c.Val
	out := addToQuery(c.Query, add)

	// 1. Directly: the first word is the added filter, the earlier words are
	// preserved (addToQuery inserts the "|" prefix separator when the query
	// has none; that separator is a word of its own).
	words := query.SplitWords(out)
	old := query.SplitWords(c.Query)
	if len(words) == 0 || words[0] != add {
		v.Failf("SplitWords(addToQuery(%q, %q) = %q) = %q: first word is not %q", c.Query, add, out, words, add)
		return
	}
	rest := words[1:]
	if !strings.Contains(c.Query, "|") {
		if len(rest) == 0 || rest[0] != "|" {
			v.Failf("SplitWords(addToQuery(%q, %q) = %q) = %q: no separator word after the filter", c.Query, add, out, words)
			return
		}
		rest = rest[1:]
	}
	if !c19Same(rest, old) {
		v.Failf("SplitWords(addToQuery(%q, %q) = %q) = %q: earlier words %q not preserved", c.Query, add, out, words, old)
		return
	}

	// 2. Along the front end's path: every storage query derived from the new
	// text has the words of the corresponding old storage query plus the filter
	// as one word, in front.
	oldPrefix, oldQueries := parseQueryString(c.Query)
	newPrefix, newQueries := parseQueryString(out)
	if len(newQueries) != len(oldQueries) {
		v.Failf("parseQueryString(%q) has %d queries, parseQueryString(%q) had %d", out, len(newQueries), c.Query, len(oldQueries))
		return
	}
	for i := range newQueries {
		full := func(prefix, q string) []string {
			if prefix != "" {
				q = prefix + " " + q
			}
			return query.SplitWords(q)
		}
		have := full(newPrefix, newQueries[i])
		want := append([]string{add}, full(oldPrefix, oldQueries[i])...)
		if !c19Same(have, want) {
			v.Failf("query %d of %q sends words %q to the storage server, want %q (old query %q)", i, out, have, want, c.Query)
			return
		}
	}

	quoted := strings.ContainsAny(add, " \t\\\"")
	v.NonTrivial = quoted
	if quoted {
		v.Label("value_needs_quoting")
	}
	if strings.ContainsAny(add, "\\\"") {
		v.Label("value_has_quote_or_backslash")
	}
	if strings.Contains(c.Query, "|") {
		v.Label("query_has_prefix")
	}
	if strings.Contains(c.Query, " vs ") {
		v.Label("query_has_vs")
	}
	if c.Query == "" {
		v.Label("empty_query")
	}
	if strings.Contains(add, "|") {
		v.Label("value_has_bar")
	}
	for _, r := range add {
		if r > 0x7f {
			v.Label("non_ascii")
			break
		}
	}
	return
}

func c19Quote(w string) string {
	if strings.ContainsAny(w, " \t\\\"") {
		w = strings.ReplaceAll(w, `\`, `\\`)
		w = strings.ReplaceAll(w, `"`, `\"`)
		return `"` + w + `"`
	}
	return w
}

func c19GenAdd(t *rapid.T) c19AddCase {
	var c c19AddCase
	c.Key = rapid.SampledFrom([]string{"goos", "pkg", "upload", "upload-file", "name", "é", "k9", "by"}).Draw(t, "key")
	switch rapid.IntRange(0, 3).Draw(t, "valkind") {
	case 0: // any string without line breaks (label values cannot contain them)
		c.Val = strings.Map(func(r rune) rune {
			if r == '\n' || r == '\r' {
				return '_'
			}
			return r
		}, rapid.StringN(1, 12, -1).Draw(t, "anyval"))
	default:
		c.Val = string(rapid.SliceOfN(rapid.SampledFrom([]rune{'a', 'b', ' ', ' ', '\t', '"', '"', '\\', '\\', '|', ':', 'é', '日', '\'', 'v', 's'}), 1, 10).Draw(t, "val"))
	}
	if c.Val == "" {
		c.Val = "x"
	}
	// the existing query: words joined by blanks, optionally "prefix | a vs b".
	// Its words contain no '|': addToQuery takes any '|' in the old text for the
	// prefix separator, which decides where the filter is placed, not how it is
	// quoted, and is outside this property.
	word := func(label string) string {
		k := rapid.SampledFrom([]string{"goos", "pkg", "commit", "upload"}).Draw(t, label+"k")
		op := rapid.SampledFrom([]string{":", ":", "<", ">"}).Draw(t, label+"op")
		val := string(rapid.SliceOfN(rapid.SampledFrom([]rune{'a', 'b', '1', ' ', '"', '\\', 'é'}), 0, 5).Draw(t, label+"v"))
		w := k + op + val
		c.Words = append(c.Words, w)
		return c19Quote(w)
	}
	group := func(label string) string {
		n := rapid.IntRange(1, 3).Draw(t, label+"n")
		var ws []string
		for i := 0; i < n; i++ {
			ws = append(ws, word(label))
		}
		return strings.Join(ws, " ")
	}
	switch rapid.IntRange(0, 5).Draw(t, "shape") {
	case 0:
		c.Query = ""
	case 1, 2:
		c.Query = group("g")
	case 3:
		c.Query = group("a") + " vs " + group("b")
	case 4:
		c.Query = group("p") + " | " + group("a")
	default:
		c.Query = group("p") + " | " + group("a") + " vs " + group("b")
	}
	return c
}

func TestC19AddToQuery(t *testing.T) {
	vcase.Run(t, "C19", "addtoquery", c19GenAdd, c19CheckAdd)
}
