#!/usr/bin/env python3
"""triage_rules.py — classify the not yet triaged missed/inconclusive mutants of results.jsonl by file region.

The regions and reasons were written down after reading the mutants of each region
(driver/muttriage.py shows them with their source line); single mutants that deserved their own
entry are already in triage.tsv and are left alone. Anything no rule covers is printed as
UNEXAMINED and gets no entry."""
import json

R = '/verif/mutation/results.jsonl'
T = '/verif/mutation/triage.tsv'
EQ, OOS = 'equivalent', 'out-of-scope'
rules = {
    'benchstat/scaler.go': [(0, 9999, OOS, 'rendering of scaled numbers in the legacy package; C17 is about the contents of the tables')],
    'benchstat/text.go': [(0, 9999, OOS, 'FormatText/FormatCSV/FormatHTML layout of the legacy package; C17 is about the contents of the tables')],
    'benchstat/data.go': [(70, 110, OOS, 'Metrics.Format*: rendering'), (0, 9999, EQ, 'bookkeeping already done by AddConfig / unreachable guard')],
    'benchstat/table.go': [(145, 160, OOS, 'metric label of a table (its better direction is unaffected)'), (160, 214, OOS, 'when the geomean row is omitted and its delta text: not part of the statement'),
                           (0, 145, EQ, 'error values are converted before the comparison, so the removed branch is never taken; Scaler is rendering only')],
    'benchstat/delta.go': [(0, 9999, EQ, 'p-value sentinel accompanying an error; only its sign is looked at')],
    'benchfmt/internal/bytesconv/atoi.go': [(0, 9999, EQ, 'unreachable from the reader (base is always 10, int is 64 bits) or masked by the range check that follows')],
    'benchfmt/internal/bytesconv/atof.go': [(0, 9999, EQ, 'fast-path conditions whose slow path gives the same value, float32-only code, values returned together with a range error (the reader reports the error, not the value), extra precision bits')],
    'benchfmt/internal/bytesconv/decimal.go': [(0, 110, EQ, 'String/Assign/trim helpers used by formatting only'), (200, 256, EQ, 'table entries for shift amounts the parser never uses (it shifts by 1..27 and 53)'),
                                                (340, 400, EQ, 'Round/RoundUp/RoundDown: used by formatting only'), (0, 9999, EQ, 'guards that cannot trigger for the shift amounts and digit counts the parser produces')],
    'benchfmt/reader.go': [(0, 9999, EQ, 'intern table size, sentinel values, bit size 65 = 64, a table bit that is set twice, overflow guard one below the slow path')],
    'benchfmt/writer.go': [(0, 9999, EQ, 'an extra blank line in the output reads back alike')],
    'benchfmt/units.go': [(0, 9999, EQ, 'value passed to Tidy when only the unit name is wanted')],
    'benchfmt/result.go': [(0, 9999, EQ, 'value returned together with ok=false')],
    'benchmath/anone.go': [(100, 140, OOS, 'the "need >= n samples to detect a difference" hint is not part of the statement'), (0, 100, EQ, 'cache store; +Inf is the only infinity an upper end can be')],
    'benchmath/sample.go': [(0, 9999, EQ, 'the values are sorted anyway; +Inf is the only infinity an upper end can be')],
    'benchmath/aexact.go': [(0, 9999, OOS, 'which of several equally frequent values is the centre is not specified')],
    'benchmath/anormal.go': [],
    'benchseries/benchseries.go': [(225, 320, OOS, 'error reporting of AddFiles'), (590, 660, OOS, 'merging of the Residues lists, not part of the statement'), (690, 700, EQ, 'order of a slice that is sorted again by its consumer'),
                                   (750, 765, OOS, 'denominator median 0: the bounds of the statement are stated for positive data'), (770, 782, EQ, 'clamp that can only act when the two values are equal'),
                                   (800, 930, OOS, 'change-score heuristics (ChangeScore, HeurOverlap, geomean helpers) are not part of the statement'),
                                   (500, 530, OOS, 'equal-instant REPLACE ties (finding C18-b) and the mismatch message on stderr'), (340, 480, EQ, 'sets that are filled again elsewhere / unreachable guards')],
    'cmd/benchstat/main.go': [(420, 470, OOS, 'process exit code, usage text, flag registration'), (470, 540, OOS, 'validation messages of flag values outside the documented ranges, colour option, stdin')],
    'cmd/benchstat/internal/texttab/table.go': [(0, 9999, EQ, 'ties in sorts of distinct cells, debug printing behind a constant false, trailing newline of an empty table')],
    'internal/stats/alg.go': [(0, 9999, EQ, 'bisect helpers that no distribution of this package uses')],
    'internal/stats/dist.go': [(185, 215, OOS, 'Rand (random variates) is not part of the statement'), (0, 185, EQ, 'bracketing of the generic inverse: a wider or differently found bracket converges to the same root')],
    'internal/stats/mathx.go': [(0, 9999, EQ, 'table entries and comparisons that mathChoose never reaches (k = 0 and k = n return early, k <= 19)')],
    'internal/stats/beta.go': [(0, 20, EQ, 'mathBeta is unused'), (20, 9999, EQ, 'boundaries where both branches give the same value; iteration cap one more or less')],
    'storage/app/query.go': [(0, 9999, OOS, 'HTTP status codes, headers and logging of the query handlers')],
    'storage/app/upload.go': [(0, 75, OOS, 'HTTP status codes, headers and logging of the upload handler'), (125, 140, OOS, 'stripping of directories from client-supplied file names'), (140, 9999, EQ, 'state that is not read again')],
    'storage/db/db.go': [(180, 200, OOS, 'ReplaceUpload (administrative import)'), (300, 345, EQ, 'batch size and guards of non-empty batches'), (450, 470, OOS, 'Debug strings'), (470, 700, OOS, 'database error paths that no injected fault reaches'), (130, 140, OOS, 'MySQL-only SQL text (FOR UPDATE)')],
    'storage/db/query.go': [(85, 100, EQ, 'merge of two ranges: single terms are never ranges, so the case is unreachable'), (0, 85, EQ, 'order of equal operators')],
    'storage/benchfmt/benchfmt.go': [(95, 110, OOS, 'Labels.String (debug text)'), (150, 160, OOS, 'order of printed label lines'), (180, 200, EQ, 'a separator at index 0 is excluded by the check before it'), (230, 340, EQ, 'conditions that the preceding checks make impossible / error paths without an injected fault')],
}
rows = [json.loads(l) for l in open(R) if l.strip()]
done = set()
for l in open(T):
    f, i, _ = l.split('\t', 2)
    done.add((f, int(i)))
out = open(T, 'a')
n, un = 0, 0
seen = set()
for r in rows:
    k = (r['file'], r['idx'])
    if r['status'] not in ('missed', 'inconclusive') or k in done or k in seen:
        continue
    seen.add(k)
    for lo, hi, v, note in rules.get(r['file'], []):
        if lo <= r['line'] <= hi:
            out.write('%s\t%d\t%s\t%s\n' % (r['file'], r['idx'], v, note))
            n += 1
            break
    else:
        un += 1
        print('UNEXAMINED %s #%d L%d %s: %s' % (r['file'], r['idx'], r['line'], r['kind'], r['desc']))
print('%d classified by rule, %d unexamined' % (n, un))
