#!/usr/bin/env python3
"""seedcheck.py <dir-with-patch.diff,demo_test.go,meta.json> [--tier quick] [--props C01,C02]
Confirms a seeded change in a scratch copy of /repo (outside /repo and /verif):
  1. clean copy + demo  -> demo passes
  2. patched copy       -> builds, full test suite passes (demo absent)
  3. patched copy + demo-> demo fails
then runs the quick check of the property (and any extra ones) against the patched copy and
stores everything as /verif/seeded/<property>-<k>/ (patch.diff, demo, meta.json with the results)."""
import json, os, shutil, subprocess, sys, tempfile, time

src = os.path.abspath(sys.argv[1])
args = sys.argv[2:]
tier = "quick"
extra = []
tag = ""
i = 0
while i < len(args):
    if args[i] == "--tier":
        tier = args[i + 1]; i += 1
    elif args[i] == "--props":
        extra = args[i + 1].split(","); i += 1
    elif args[i] == "--tag":
        tag = args[i + 1]; i += 1
    i += 1
meta = json.load(open(os.path.join(src, "meta.json")))
pid, k = meta["property"], meta["change"]
tag = tag or meta.get("round_tag", "")
sid = "%s-%s%s" % (pid, (tag + "-") if tag else "", k)
env = dict(os.environ, GOFLAGS="-mod=mod", GOPROXY="off", GOSUMDB="off", GOTOOLCHAIN="local")
d = tempfile.mkdtemp(prefix="seed-%s-%s-" % (pid, k), dir="/tmp")
repo = os.path.join(d, "repo")
subprocess.check_call(["rsync", "-a", "--exclude", ".git", "/repo/", repo + "/"])
demo_dir = os.path.join(repo, meta["demo_package_dir"])
demo_dst = os.path.join(demo_dir, "zz_seeded_demo_test.go")
res = {"confirmed": False}

def run(cmd, cwd=repo, timeout=1800):
    p = subprocess.run(cmd, cwd=cwd, env=env, stdout=subprocess.PIPE, stderr=subprocess.STDOUT, text=True, errors="replace", timeout=timeout)
    return p.returncode, p.stdout

try:
    shutil.copy(os.path.join(src, "demo_test.go"), demo_dst)
    rc, out = run(["go", "test", "-count=1", "-vet=off", "-run", "^%s$" % meta["demo_test"], "./" + meta["demo_package_dir"]])
    res["clean_demo_passes"] = rc == 0
    os.remove(demo_dst)
    rc, out = run(["git", "apply", "--unsafe-paths", "--directory=" + repo, os.path.join(src, "patch.diff")], cwd="/")
    if rc != 0:
        rc, out = run(["patch", "-p1", "-s", "-i", os.path.join(src, "patch.diff")])
    res["patch_applies"] = rc == 0
    if rc != 0:
        res["patch_output"] = out[-500:]
    rc, out = run(["go", "build", "./..."])
    res["patched_builds"] = rc == 0
    rc, out = run(["go", "test", "-count=1", "-vet=off", "./..."])
    res["patched_suite_passes"] = rc == 0
    if rc != 0:
        res["suite_output"] = "\n".join(l for l in out.splitlines() if not l.startswith("ok") and "no test files" not in l)[-800:]
    shutil.copy(os.path.join(src, "demo_test.go"), demo_dst)
    rc, out = run(["go", "test", "-count=1", "-vet=off", "-run", "^%s$" % meta["demo_test"], "./" + meta["demo_package_dir"]])
    res["patched_demo_fails"] = rc != 0
    os.remove(demo_dst)
    res["confirmed"] = all(res.get(x) for x in ("clean_demo_passes", "patch_applies", "patched_builds", "patched_suite_passes", "patched_demo_fails"))
    checks = {}
    for p in [pid] + [e for e in extra if e != pid]:
        t0 = time.time()
        e2 = dict(env, VERIF_REPO=repo, VERIF_BUILD=os.path.join(d, "build-" + p))
        pr = subprocess.run(["/verif/vcheck", "-p", p, "-tier", tier], env=e2, stdout=subprocess.PIPE, stderr=subprocess.STDOUT, text=True, errors="replace")
        viol = [l for l in pr.stdout.splitlines() if l.strip().startswith("violation in")]
        checks[p] = {"exit": pr.returncode, "caught": pr.returncode == 1, "wall_s": round(time.time() - t0, 1),
                     "first_violation": (viol[0].strip()[:400] if viol else "")}
    res["checks"] = checks
finally:
    shutil.rmtree(d, ignore_errors=True)

out = dict(meta)
out["confirmation"] = res
out["ran"] = "driver/seedcheck.py: scratch copy of /repo at %s; demo on clean copy; full `go test ./...` on patched copy; demo on patched copy; `vcheck -p %s -tier %s` with VERIF_REPO=<patched copy>" % (
    subprocess.run(["git", "-C", "/repo", "log", "--format=%h", "-1"], stdout=subprocess.PIPE, text=True).stdout.strip(), pid, tier)
if res["confirmed"]:
    dst = "/verif/seeded/" + sid
    out["round_tag"] = tag
    os.makedirs(dst, exist_ok=True)
    if os.path.abspath(dst) != src:
        shutil.copy(os.path.join(src, "patch.diff"), dst)
        shutil.copy(os.path.join(src, "demo_test.go"), dst)
    json.dump(out, open(os.path.join(dst, "meta.json"), "w"), indent=1)
print(json.dumps({"id": sid, "confirmed": res["confirmed"], **{k2: v for k2, v in res.items() if k2 != "checks"},
                  "checks": res.get("checks")}, indent=None))
