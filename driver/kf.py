#!/usr/bin/env python3
"""kf.py add <id> <property> <known|fixed> <commit-or--> <what...>  — edits /verif/known_findings.json in place."""
import json, sys
p = '/verif/known_findings.json'
d = json.load(open(p))
_, cmd, fid, prop, status, commit, *what = sys.argv
what = " ".join(what)
d["findings"] = [f for f in d["findings"] if f["id"] != fid]
e = {"id": fid, "property": prop, "status": status, "what": what}
if status == "fixed":
    e["commit"] = commit
    e["record"] = "fixed: property=%s %s %s" % (prop, commit, what)
else:
    e["record"] = "known: property=%s %s" % (prop, what)
d["findings"].append(e)
d["findings"].sort(key=lambda f: f["id"])
json.dump(d, open(p, "w"), indent=1)
open(p, "a").write("\n")
