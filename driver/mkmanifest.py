#!/usr/bin/env python3
"""Regenerates /verif/MANIFEST.json from driver/units.py."""
import json, os, sys
here = os.path.dirname(os.path.abspath(__file__))
sys.path.insert(0, here)
from units import PROPS as ALLPROPS, NOT_APPLICABLE, CLAIMED
PROPS = {k: v for k, v in ALLPROPS.items() if k in CLAIMED}

BASELINE_OFF = ("cd /repo && go build ./... && go test -vet=off -count=1 -timeout 25m ./...")

m = {
    "version": 1,
    "setup_cmd": "./vcheck setup",
    "hooks": {
        "guard": "verif",
        "enable": "no source hooks: checks compile in-package test files into /repo packages with `go test -overlay` and an alternate -modfile (see DESIGN.md §2); a hook, if ever needed, would be a //go:build verif file",
        "baseline_off_cmd": BASELINE_OFF,
        "source_commits": [],
        "add_only": True,
    },
    "engines": [
        {"name": "vcheck", "path": "vcheck", "serves_properties": sorted(PROPS),
         "kind_free_text": "Python driver: builds per-package Go test binaries against /repo's working tree, runs rapid (pgregory.net/rapid v1.3.0) property tests and deterministic enumerations as sharded processes, native go fuzzing in the thorough tier, merges evidence"},
    ],
    "checks": [],
    "not_applicable": NOT_APPLICABLE,
    "notes": "Exit 2 from a check means inconclusive/broken (build failure, timeout, worker death), never a verdict. known_findings.json lists genuine defects recorded rather than repaired, and fixed ones.",
}
for pid in sorted(PROPS):
    p = PROPS[pid]
    m["checks"].append({
        "property_id": pid,
        "quick_cmd": "./vcheck -p %s -tier quick" % pid,
        "thorough_cmd": "./vcheck -p %s -tier thorough" % pid,
        "evidence_file": "evidence/%s.json" % pid,
        "replay_cmd_template": "./vcheck -p %s -replay {path}" % pid,
        "engine": "vcheck",
        "level_claimed": {"category": p["level"], "text": p["level_text"], "design_ref": p.get("design_ref", "DESIGN.md §5 " + pid)},
        "level_note": p["level_note"],
        "technique": p["technique"],
    })
with open(os.path.join(here, "..", "MANIFEST.json"), "w") as f:
    json.dump(m, f, indent=1)
    f.write("\n")
print("wrote MANIFEST.json with %d checks, %d not_applicable" % (len(m["checks"]), len(NOT_APPLICABLE)))
