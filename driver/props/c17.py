from helpers import R, E, F

PROP = dict(
    id="C17",
    level="exploration",
    level_text="tbd",
    level_note="tbd",
    technique="property-based differential testing against an exact-arithmetic reference recomputation",
    rule="tbd",
    assumptions=["tbd"],
    units=[
        R("rapid", "A", "./c17", "TestC17Rapid", (2500, 16), (100000, 16)),
    ],
)
