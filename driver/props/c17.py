from helpers import R, E, F

PROP = dict(
    id="C17",
    level="exploration",
    level_text=("Differential property-based testing of the legacy benchstat library (Collection.AddConfig/AddResults, "
                "Tables, UTest/TTest/NoDeltaTest, ByName/ByDelta/Reverse, AddGeoMean, FormatText/FormatCSV) against an "
                "independent reference recomputation on generated collections of 1-4 configurations; searches for a "
                "counterexample, does not prove absence."),
    level_note=("Trusted: math/big (exact quartiles, fences, means, variances), strconv (value texts), math.Lgamma/Pow/Sin/Log/Exp "
                "(Student-t tail by tanh-sinh quadrature, geometric mean), encoding/csv. The reference quadrature and the "
                "rank-sum counting recurrence are cross-checked against closed forms (nu = 1, 2, 3, 4, normal limit, the 5% point "
                "at nu = 10) and against brute-force enumeration by TestC17OracleSelf. Values are finite and non-negative, as "
                "benchmark output is."),
    technique="property-based differential testing against an exact-arithmetic reference recomputation",
    rule=("Case = 1-4 distinctly named configurations (weighted towards 2), each a sequence of benchmark lines "
          "'Benchmark<name> <iters> <value> <unit>...' over 1-16 benchmark names (1-8 normally, 7-16 in the 'wide' class that "
          "makes sort stability observable) and 1-3 units among ns/op, B/op, MB/s, x-ns/op, widgets/op, allocs/op, 1-25 values "
          "per (configuration, benchmark, unit) drawn from per-benchmark plans (noisy with relative spread 0.1%-30%, constant, "
          "all zero, mostly zero, small integer grid; per-configuration effect factor 0.5-2; injected outliers x/÷ 1.5-10), "
          "optional missing benchmarks/units/empty configurations, verbatim repeated lines, noise lines, 'pkg:'/'goos:' file "
          "labels and /key=value, /sub and -N name labels, lines in benchmark-by-benchmark, suite-repeated or shuffled order; "
          "fed through AddConfig (text) or AddResults (hand-built results); settings DeltaTest in {nil, UTest, TTest, "
          "NoDeltaTest}, Alpha in {0, 0.01, 0.05, 0.5}, SplitBy in {none, pkg, size, pkg+gomaxprocs, sub1, name, goos}, Order in "
          "{nil, ByName, ByDelta, Reverse(ByName), Reverse(ByDelta), Reverse(Reverse(ByDelta))}, AddGeoMean, CSV norange. "
          "Tables() is called exactly once per Collection. Checked per case: (1) one table per unit that has rows, in unit "
          "first-appearance order, Configs in input order; (2) every cell: Values = input values in input order; RValues = the "
          "values inside [Q1-1.5 IQR, Q3+1.5 IQR] (Hyndman-Fan type 8 quartiles, exact rational arithmetic, inclusive) in input "
          "order, where a value within 1e-9 (relative to the largest magnitude involved) of a fence with IQR != 0 follows the "
          "library's decision (labelled near_fence_skipped); Min/Max = min/max of the retained values exactly, Mean within "
          "1e-12 relative of their exact mean and min-2ulp <= mean <= max+2ulp; (3) rows = (group, benchmark) pairs in "
          "first-appearance order (groups first, then benchmarks within the group), with two configurations only the pairs "
          "present in both; rows with no value at all for the unit are tolerated in 1- and >=3-configuration tables; under an "
          "Order the rows must equal the stable (insertion) sort of that order by name or by |PctDelta|*Change; (4) two "
          "configurations: if the test cannot be computed (U: all pooled retained values equal -> '(all equal)'; t: a retained "
          "sample of <= 1 value -> '(too few samples)', both retained samples constant -> '(zero variance)') delta '~', "
          "PctDelta 0, Change 0 and that note; otherwise a percentage delta appears iff the library's own DeltaTest p-value on "
          "the row's metrics is < alpha (alpha 0 = 0.05; NoDeltaTest: p = -1, always shown, empty note), and iff the independent "
          "p-value is < alpha: Welch t statistic from exact means/variances with the Student-t tail by numerical integration "
          "(compared within 1e-6 plus the float64 conditioning of the t statistic; gate not asserted inside that band around "
          "alpha), and for the U-test the exact two-sided permutation p-value min(1, 2 min(P(U<=u), P(U>=u))) by enumerating all "
          "group assignments (n1+n2 <= 14) or by a rank-sum counting recurrence (larger), compared within 1e-9 and against "
          "alpha in exact integer arithmetic. The independent U-test comparison is restricted to UNTIED pooled retained samples: "
          "the library's two-sided exact p-value with ties is a known-wrong quantity (can be 0 or exceed 1), so for tied samples "
          "only the consistency relations (delta iff the library's own p < alpha, note shows that p and the retained sizes) "
          "are checked. A shown delta must satisfy PctDelta = (new mean/old mean - 1)*100 (1e-9 relative, against the reported "
          "and the reference means; +Inf when the old mean is 0), the Delta text must show PctDelta to two decimals, Change = "
          "+1 iff the new mean moved in the better direction (higher only for unit MB/s, lower for every other unit), equal "
          "means give PctDelta 0; next to '~' the note must be '(p=P n=a+b)' with P the p-value to the printed decimals and "
          "a, b the retained sample sizes (also checked when present next to a shown delta); (5) a '[Geo mean]' row only with "
          "AddGeoMean, last, required when >= 2 benchmarks have non-zero means, each cell = geometric mean of the non-zero "
          "means of that configuration (1e-9 relative; with two configurations either over all benchmarks or over the "
          "displayed rows, both readings accepted), its PctDelta = (new/old - 1)*100; (6) FormatText and FormatCSV do not "
          "panic, contain in order exactly one line/record per table row (first column = benchmark name), CSV mean columns "
          "show the means to 1e-5. Non-trivial = two configurations, >= 2 benchmark names, at least one (group, benchmark, unit) "
          "with >= 4 values on both sides. Classes include lines separated by single tabs and 60-75 benchmarks of 1e6-1e9 with the geomean row. Distinct = distinct case JSON (64-bit FNV), capped at 300000 per shard."),
    assumptions=[
        "math/big, strconv, math and encoding/csv of the Go standard library are correct (trusted by the reference)",
        "group names are rendered as 'label:value' pairs joined by one space (observed format, used only to identify rows of a group)",
        "rows are identified by the literal benchmark name '[Geo mean]' for the geomean row; generated benchmark names start with an upper-case letter and contain no white space or ':'",
        "values within 1e-9 relative of an outlier fence are not decided by the reference (float64 rounding of the fence may go either way); about 3-4% of cases contain such a value",
        "the two-sided exact Mann-Whitney p-value with ties is known to be wrong in this code base; tied samples are checked for internal consistency only, never against an independent p-value",
        "t-test p-values are compared within 1e-6 + 50 n 2^-53 kappa (kappa = amplification of mean/variance rounding in Welch's t); the significance gate is not asserted when the reference p lies within twice that of alpha",
        "inputs avoid what the format documents as special: no blank line before the first benchmark line (permanent file header), no iteration count 0, no malformed values, no negative values, distinct configuration names",
    ],
    units=[
        R("rapid", "A", "./c17", "TestC17Rapid", (2000, 16), (60000, 16)),
    ],
)
