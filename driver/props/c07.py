from helpers import R, E, F
PROP = dict(
    id="C07",
    level="exploration",
    level_text=("Round-trip/validity property testing of the expression syntax: every generated string, written as a double-quoted Go "
                "literal (three escape styles) or as a bare word when the documented grammar allows, must parse as key and as value and "
                "denote exactly that string (checked by matching results holding it); arbitrary texts must parse or fail with a positioned "
                "syntax error without panic or hang; destructive edits of valid expressions from the property's list must be rejected. "
                "All strings over {backslash, quote, a, space} up to length 5 are enumerated."),
    level_note=("Trusted: strconv.Quote/Unquote (the quoted form is checked to unquote to the string), reference extraction in lib/refbench. "
                "Bare words conservatively exclude all Unicode white space, AND/OR, and a leading '/' in value position. Texts are capped at "
                "4 KiB (the parser recurses per '-' and '('; stack exhaustion is a resource limit, not the property)."),
    technique="property-based round-trip and robustness testing (rapid) + exhaustive short-string enumeration; native fuzzing in thorough",
    rule=("words unit: strings from random bytes, special-character soups, word-like strings and rapid.String, in forms quote / \\\\xNN / mixed "
          "escapes / bare; non-trivial = the string contains a documented special character, a backslash, a non-UTF-8 byte or is empty. "
          "enum unit: every string over {\\\\,\\\",a,space} of length <=5 plus ~60 hostile strings x 4 forms (exhaustive). texts unit: random "
          "bytes, token soups, valid expressions and destructive edits (unbalanced parenthesis, unterminated quote/regexp, term without ':' "
          "or value, empty fixed list, unknown order, .unit in projection, .config in filter, an empty quoted key alone or in front of any of these, empty or blank order names); keys include look-alikes of the reserved names (.configs, .config dir, .units); non-trivial = a destructive edit. Distinct = "
          "distinct case JSON. pairs unit: two terms of one filter whose key and value texts coincide when glued together, or the same text as literal and as regexp, in six combinations, evaluated on 16 configurations each (exhaustive list). flags unit: malformed projection/filter expressions given to benchstat's -filter/-table/-row/-col/-ignore must make the entry point return an error, and well-formed ones (including keys that can only be written quoted) must be accepted by all five flags. words/enum: every word that survives the file format is also put into a six-result stream read by ONE Reader, alternating with a same-length neighbour; the fixed list and the literal filter keep exactly the word's results."),
    assumptions=["strconv.Quote produces a valid double-quoted Go string literal"],
    units=[
        E("enum", "A", "./c07", "TestC07Enum", 1, 1),
        E("pairs", "A", "./c07", "TestC07Pairs", 1, 1),
        R("words", "A", "./c07", "TestC07Words", (8000, 4), (300000, 16)),
        R("texts", "A", "./c07", "TestC07Texts", (10000, 4), (300000, 16)),
        R("flags", "B", "./cmd/benchstat", "TestC07Flags", (300, 1), (2000, 2)),
        F("fuzz", "./c07", "FuzzC07", 120),
    ],
)
