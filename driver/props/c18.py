from helpers import R, E, F

PROP = dict(
    id="C18",
    level="exploration",
    level_text=("Property-based testing of benchseries through its public API: generated result sets are added to a Builder "
                "in 2-4 random orders (as Result values and as benchmark-format text split over files) and the comparison "
                "series are compared with an independent grouping model and with each other; bootstrap summaries are checked "
                "for reproducibility, ordering and attainable-ratio bounds; NormalizeDateString is checked on generated "
                "instants in both accepted formats. Searches for a counterexample, does not prove absence."),
    level_note=("Trusted: Go standard library (time.Unix/calendar fields to print instants, sort, strconv), benchfmt.Reader for the "
                "text-mode orders (C02-C05 check it), rapid. Map iteration order inside the library is not controlled: a case is "
                "evaluated once per insertion order, so order dependence caused by map order is found only with the probability "
                "that two of the 2-4 builds differ. Three known findings are booked by signature, see known_findings.json."),
    technique="property-based testing: reference grouping model + insertion-order metamorphic relation + bootstrap sanity invariants",
    rule=("series: result sets over 1-2 units, 0-2 table keys (1-3 tables), 1-4 benchmarks, 1-4 experiments (stamps in "
          "20060102T150405 and RFC 3339 form with zone offsets/fractions, close together), 1-3 series stamps each with one "
          "(numerator hash, denominator hash), roles numerator/denominator/other/absent, 1-6 measurements per role; added in 2-4 "
          "permutations, 1/3 of them as text split into 1-4 files; REPLACE and COMBINE; optional unit filter. Oracle: grouping by "
          "(unit, table, benchmark, experiment, series, role) written from the property text; REPLACE = experiment with the latest "
          "instant, COMBINE = concatenation; samples compared as sorted multisets; Series (chronological), HashPairs, Date, "
          "Benchmarks (sandwich + equal across orders) and AddSummaries(0.8, 20) equal across orders. Non-trivial = some point has "
          ">= 2 experiments AND two insertion orders differ AND numerator and denominator samples both present. "
          "bootstrap: 1-3 benchmarks with 1-8 numerator and denominator measurements, confidence in (0,1) incl. 5e-324 and 1-2^-53, "
          "N in {1,2,7,100,500}; built three times (same order twice, one permutation): bit-identical summaries, "
          "low <= centre <= high (4 ulp), all within [min(num)/max(den), max(num)/min(den)] (4 ulp) for positive data; non-trivial = "
          "a sample with > 1 value, the permutation differs, N > 1. dates: pairs of instants (equal, 1 ns/1 s apart, within a day, "
          "independent; years 0001-9999) written in both forms; equal instants -> equal strings, earlier -> smaller string, "
          "normalised string is a fixed point, constructed non-dates are errors; non-trivial = the two texts differ. "
          "direct-mode orders may build the series once after k results and throw them away; bootstrap: every point is also summarised on its own and must give the same numbers; a subnormal value kind; series: lines padded to 29-71 measurements under a unit filter, integer measurements written with all digits (2^63 among them); series also checks the exported Summaries matrix cell by cell against SummaryAt. Distinct = distinct case JSON (64-bit FNV), capped at 300000 per shard."),
    assumptions=[
        "Inputs respect the functional dependencies of real data: one series stamp (instant) and one (numerator hash, denominator hash) pair per numerator hash, all series measured in one experiment share the denominator hash; otherwise the library prints a mismatch warning and keeps either",
        "Table key values are non-empty and free of spaces; a table is identified by ComparisonSeries.Unit = unit followed by the table key values separated by spaces (observed naming, pinned for the no-table case by TestBasic)",
        "Benchmarks is only required to be sorted, to contain every benchmark that has a point and nothing without a result in the table, and to be equal across insertion orders (the statement does not say whether a benchmark with only 'other' results is listed)",
        "A series for which some contributing experiment has no denominator results may report an empty denominator hash (the library flags this as a mismatch itself)",
        "The compact stamp form 20060102T150405 denotes UTC; instants are restricted to calendar years 0001-9999 in UTC and in the written zone; zone offsets up to +-23:59; at most 9 fractional digits",
        "Measurements are finite; the ratio bounds are checked for strictly positive measurements only; signed/zero measurements are checked for ordering and reproducibility only",
        "C18-a is booked only when confidence*N <= 1 (+1e-12 for the library's own rounding) and the deviation is exactly low > centre with centre <= high, low <= high, bounds and reproducibility intact; C18-b only for REPLACE when two insertion orders disagree on a point that has >= 2 experiments of the same latest instant and each output equals one of the tied experiments; C18-c only for COMBINE when a point has >= 2 experiments one of which lacks denominator results and the outcome is a nil-dereference panic inside AllComparisonSeries",
        "ComparisonSeries.ratios (the bootstrap replicates) are unexported, so 'low lies between the two middle replicates' is not checked directly",
    ],
    units=[
        R("series", "A", "./c18", "TestC18Series", (2000, 16), (20000, 16)),
        R("bootstrap", "A", "./c18", "TestC18Bootstrap", (8000, 4), (40000, 16)),
        R("dates", "A", "./c18", "TestC18Dates", (40000, 4), (200000, 16)),
    ],
)
