from helpers import R, E, F



PROP = dict(
    id="C03",
    level="exploration",
    level_text=("Differential property-based testing of the reader's number parsing against strconv on generated numeric "
                "texts aimed at rounding boundaries (exact decimal midpoints computed with math/big), range edges and "
                "near-miss spellings; searches for a counterexample, does not prove absence."),
    level_note="Trusted: Go standard library strconv (oracle for validity everywhere and for values up to 700 digits), math/big (midpoint construction; value oracle beyond 700 digits). Inputs are single white-space-free fields below the scanner's line limit.",
    technique="property-based differential testing (rapid) + enumerated hostile constants + native fuzzing in thorough",
    rule=("One-line inputs 'BenchmarkX 1 <txt> <unit>' / 'BenchmarkX <txt> 1 u' (unit 'u' or, in a quarter of the value cases, one of ten units with components that need no rescaling such as sec/ns, B/MB, optionally after another reader has read the unit that rescales into it) with <txt> from four aimed generators "
          "(numeric grammar incl. hex/underscore/inf/nan spellings; float-derived texts incl. exact decimal midpoints "
          "between adjacent floats and their neighbours; range-edge constants; integers around 2^53/2^63/2^64 and the "
          "fast-path guard; hexadecimal texts on and next to rounding boundaries incl. the subnormal border; digit strings next to powers of five; more than 800 significant digits) plus single-edit mutations; oracle strconv.ParseFloat/Atoi bit-for-bit, except that plain decimal texts of more than 700 digits are judged against big.Rat rounding because strconv itself misplaces the decimal point beyond 800 digits. Non-trivial = strconv "
          "accepts the text and it is not a plain <=15-digit integer (value) / <=9-digit integer (iters), or strconv rejects "
          "it with ErrRange. Distinct = distinct case JSON (64-bit FNV), capped at 300000 per shard."),
    assumptions=["strconv.ParseFloat and strconv.Atoi of the Go standard library are correct (trusted oracle)"],
    units=[
        R("rapid", "A", "./c03", "TestC03Rapid", (60000, 4), (1500000, 16)),
        E("fixed", "A", "./c03", "TestC03Fixed", 1, 1),
        F("fuzz", "./c03", "FuzzC03", 120),
    ],
)


