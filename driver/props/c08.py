from helpers import R, E, F
PROP = dict(
    id="C08",
    level="exploration",
    level_text=("Model-based property testing of benchproc projections: generated sets of 1-4 projection expressions parsed by one parser "
                "in two different orders, a stream of results over a growing/shrinking configuration, re-projection of earlier results; "
                "key identity, Key.Get, group exclusions, residue, NonSingularFields and the 'nothing lost' equivalence are compared with "
                "an independent reference tuple computed from the documentation."),
    level_note=("Trusted: reference extraction/decomposition in lib/refbench and the reference tuple in the check. Documented preconditions "
                "respected: all Parse calls precede the first Project, Residue is called once and last, keys of different projections are "
                "never compared. Internal configuration keys are dotted names disjoint from file keys (as real tools produce them). The "
                "'nothing lost' iff is asserted only for streams whose names have distinct sub-name keys, as the property states."),
    technique="model-based property testing (rapid): reference tuples + parse-order metamorphic relation",
    rule=("1-4 expressions over {.config, .fullname, .name, /size, /kind, /gomaxprocs, file keys, .file} with orders; a random second parse "
          "order; optionally one expression parsed with ParseWithUnit and projected with ProjectValues; 2-50 results whose file "
          "configuration evolves (keys appear, change, get empty values via struct literal, disappear), names with and without duplicate "
          "sub-name keys; 0-3 earlier results projected again at the end. Non-trivial = >=3 distinct keys, a configuration key first seen "
          "after the first result, and >=2 expressions. Key pools include a file key containing a slash (cpu/model) and sub-name values containing =; names ending in a dash and GOMAXPROCS values containing 9; FlattenedFields must equal Fields with tuples expanded; sub-name keys one of which is a prefix of another (/s, /size), two-digit values with a leading zero. One case in four asks for the residue after the first expression already (only projections are then checked against the reference); one in five first offers the parser the invalid .config@(x y). Unit manykeys: one projection hands out 1000 ... 70001 (thorough 200000) distinct Keys, then 150-odd early, late and scattered tuples are projected again and must give the identical Key. Distinct = distinct case JSON."),
    assumptions=["reference tuple reflects the documented meaning of .config/.fullname groups with exclusions"],
    units=[
        R("rapid", "A", "./c08", "TestC08Rapid", (3000, 16), (60000, 16)),
        E("manykeys", "A", "./c08", "TestC08ManyKeys", 1, 1),
    ],
)
