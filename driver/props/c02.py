from helpers import R, E, F
PROP = dict(
    id="C02",
    level="exploration",
    level_text=("Property-based differential testing of benchfmt.Reader and benchfmt.Files against an independent line-by-line "
                "interpreter of the benchmark format (lib/refbench) on generated texts mixing valid, near-valid and hostile lines; "
                "also checks clone independence, termination (watchdog) and no panics. Searches for counterexamples."),
    level_note=("Trusted: the reference interpreter in harness/lib/refbench (written from the format proposal and the package "
                "documentation), strconv for numbers (C03 judges number parsing). Syntax errors are compared per line (has error or not), "
                "not by message or count. Lines are kept below bufio.Scanner's 64 KiB token limit."),
    technique="property-based differential testing (rapid) against a reference interpreter; native fuzzing in thorough",
    rule=("Texts of up to 60 lines drawn from a weighted line grammar (config set/delete, near-miss config lines, unit lines valid and "
          "malformed, benchmark lines valid and malformed with odd separators incl. U+00A0/U+2003/U+0085, foreign lines, byte noise; "
          "LF/CRLF/CRCRLF/no final newline; a >1024-keys mode that overflows the intern table), read through one Reader, through one "
          "Reader re-Reset over 1-4 texts, or through benchfmt.Files with duplicate and labelled paths (labels allowed or not, file names with and without '='); lines of 4-60 KiB (1 in 40), a tool label goos=linux on every second input (a label whose key the file sets or removes no longer counts), iteration counts include forms of 19 and more characters, values include slow-path forms (ties between adjacent floats, upper-case exponents, 17-digit shortest forms); in reset mode an input may be abandoned after k records (also in the middle of a line's records) before the Reset. Non-trivial = the text yields "
          ">=2 results with a config deletion/overwrite between them, or a syntax error followed by a valid result. Distinct = distinct case JSON."),
    assumptions=["reference interpreter reflects the documented format rules", "inputs contain no line of 64 KiB or more"],
    units=[
        R("rapid", "A", "./c02", "TestC02Rapid", (2500, 16), (40000, 16)),
        F("fuzz", "./c02", "FuzzC02", 120),
    ],
)
