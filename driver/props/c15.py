from helpers import R, E, F
PROP = dict(
    id="C15",
    level="exploration",
    level_text=("Repetition-based property testing of the benchstat entry point under the race detector: every generated input/flag "
                "combination is run 6 (quick) / 24 (thorough) times in text and CSV format with GOMAXPROCS cycling through "
                "1,2,3,4,8,16,32; stdout and stderr must be byte-identical; the binary is built with -race and any race report is a "
                "violation; a variant with benchmark lines permuted within each configuration block must yield the same cells."),
    level_note=("Goroutine interleavings are sampled, not enumerated (Go gives a test no control over the scheduler); map iteration "
                "order is re-randomised by the runtime on every loop, so repetition does explore it; the race detector flags "
                "unsynchronised accesses even when the bad interleaving does not occur. A purely logical order dependence that needs a "
                "rare interleaving over synchronised accesses could be missed. The permutation relation is applied only when the "
                "column order cannot depend on line order (no name-derived column key with first-observation order)."),
    technique="repetition under varying GOMAXPROCS + race detector + line-permutation metamorphic relation (rapid-generated inputs)",
    rule=("C14's generator of files and flags, in one case in six with .config as the column or row axis; each case is executed Reps x {text,csv}, then once more after an unrelated invocation with other -alpha/-confidence values, and (one case in ten) compared with a run in a fresh process; an invocation whose goroutines are all parked with unchanging stacks (looked at after 20 s, three times) is an error; then benchmark lines are permuted within runs of "
          "consecutive benchmark lines and the CSV cells compared by (table, unit, row label, column header), the summary (geomean) row by (table, unit, column header) - a last-bits difference there is known finding C15-b. One case in five holds zero measurements of both signs. Non-trivial = >=8 cells in "
          ">=2 tables and >=3 different GOMAXPROCS values. Distinct = distinct case JSON."),
    assumptions=["the Go race detector reports unsynchronised conflicting accesses that are executed"],
    units=[
        R("rapid", "B", "./cmd/benchstat", "TestC15Rapid", (120, 8), (1000, 16), race=True),
    ],
)
