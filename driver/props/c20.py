from helpers import R, E, F


PROP = dict(
    id="C20",
    level="fault_enumeration",
    level_text=("Single-fault enumeration against a real in-process storage server (storage/app.App on a file-backed sqlite "
                "database and a fault-injecting fs.FS around MemFS / the local-disk store): for five fixed representative "
                "uploads every file-store call (NewWriter/Write/Close; plain, partial and sticky failures), every file as the "
                "one without benchmark lines, every position of an unexpected form field and every client abort point are "
                "enumerated completely in both tiers, and every truncation offset of the multipart body with every delivery "
                "mode (clean end, read error, loopback half-close; every 5th offset also with a hard connection close) in the thorough tier "
                "(quick: every 7th offset with one delivery mode plus all offsets within 3 bytes of a part boundary, header end or line end with clean end and read error). "
                "Generated uploads (1-3 files, 1-6 benchmark lines each, label changes, other text, optional wide label sets that "
                "force a database flush before the fault) after 0-3 earlier uploads get one fault at a position drawn uniformly "
                "over all positions of that upload. After every scenario all queries, listings and the file store are compared "
                "with a model holding the successful uploads only, and one more upload must succeed. Upload IDs: stateful "
                "property testing of NewUpload/InsertRecord/Commit/Abort histories inside package db with the package clock bound "
                "to generated non-decreasing instants (reported in non-UTC zones) that cross UTC midnights, and stress rounds of "
                "2-16 goroutines on one database under the race detector."),
    level_note=("Exhaustive only for the five representative uploads (units enum_faults: both tiers; enum_trunc: thorough tier); "
                "for generated uploads the fault position is sampled. Single faults only. Goroutine interleavings are sampled by "
                "repetition with varied GOMAXPROCS, not enumerated; sqlite I/O faults are not injected. Whether a request "
                "succeeded is read from the HTTP status; whether it was allowed to succeed is decided from the bytes sent "
                "(a truncated body counts as complete only if it still contains the closing delimiter)."),
    technique="single-fault enumeration over generated uploads + model-based comparison; stateful property testing of ID allocation; race-detector stress",
    rule=("Scenario = history of 0-3 successful uploads, one upload with a single fault {body truncated at offset b (4 delivery "
          "modes) | k-th file-store call fails | file i without benchmark line (3 variants) | unexpected form field before/between/"
          "after the files | storage.Client.Abort after j files (+m rows of the next)}, then one fault-free upload. Oracle: a faulty "
          "request is not answered 2xx; afterwards Query(\"\"), Query(\"upload>\"), upload:/upload-part:/tag: queries, ListUploads "
          "(three query forms) and GET /uploads, /search equal the model of the successful uploads (exact result multisets, counts "
          "within [label runs, lines]); nothing is queryable under the failed upload's id, parts or tag; the file being written at "
          "the fault and all later files are absent from the store and any earlier file of the failed upload that remains is complete; "
          "after success every file exists once = sorted server metadata block + blank line + uploaded bytes; all observed IDs match "
          "^\\d{8}\\.[1-9]\\d*$, are pairwise distinct and increase within a day. Non-trivial = the fault strikes after at least one "
          "complete benchmark line of the failing upload was delivered (at least one record handed to the database layer), or (ID units) "
          "the history crosses a UTC midnight or contains an aborted upload, or (concurrency) >= 2 goroutines obtained >= 2 IDs. "
          "Faults include a file with a line of more than 64 KiB (either outcome, never a partial 2xx); after every step each successful upload is queried through each of its labels, including those derived from benchmark names (name, gomaxprocs, sub<i>, key=value parts; names with a dash before the -N suffix are in the pool); a file ending in a benchmark whose name part repeats a label key (the database refuses the record at commit: either outcome, never a partial commit); label lines aligned with tabs, benchmark lines separated by tabs only, per cent signs in file and user names; a quarter of the jumping ID histories have a clock that also steps back (creation may be refused, IDs never repeat, committed uploads keep their records). Distinct = distinct case JSON (64-bit FNV)."),
    assumptions=[
        "single faults only: one failing file-store call / one truncation / one invalid file / one stray field / one abort per upload",
        "goroutine schedules are sampled (repetition, GOMAXPROCS 1-16, race detector), not enumerated",
        "no sqlite I/O faults are injected; the database file lives on the sandbox file system; Mode A and the sequential ID unit open it with synchronous=OFF (durability across power loss is not part of the property)",
        "a failed fs.Writer.Close stores nothing (fs.Writer contract); the injected NewWriter/Write failures leave the underlying store untouched except for an optional half-accepted write",
        "errors such as 'database is locked' from concurrent NewUpload/Commit are allowed and counted; an error saying the generated ID already exists (UNIQUE constraint) is counted as a duplicate ID",
        "Mode A uses the wall clock only through the server (ID day, upload-time); no assertion depends on its value",
    ],
    units=[
        R("rapid", "A", "./c20", "TestC20Rapid", (600, 12), (4000, 16)),
        E("enum_trunc", "A", "./c20", "TestC20EnumTrunc", 6, 16),
        E("enum_faults", "A", "./c20", "TestC20EnumFaults", 2, 4),
        R("ids", "B", "./storage/db", "TestC20IDHistory", (400, 2), (4000, 8)),
        R("ids_concurrent", "B", "./storage/db", "TestC20IDConcurrent", (25, 4), (120, 16), race=True),
    ],
)
