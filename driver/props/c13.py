from helpers import R, E, F
PROP = dict(
    id="C13",
    level="exploration",
    level_text=("Property-based testing of benchmath's three assumptions: summaries are checked against validity predicates (median, "
                "order-statistic interval ends, exact binomial coverage for n<=30, documented warnings; mode; mean and t interval via an "
                "independent t distribution function), comparisons against metamorphic laws (swap, reorder, power-of-two rescaling), the "
                "enumerated exact permutation p-value for small samples, an independent Welch t-test, the carried threshold, and the "
                "documented rendering rules."),
    level_note=("Trusted: harness/lib/refstat (exact rational moments, enumerated U distribution, t distribution function by numerical "
                "integration). benchmath delegates to go-moremath (module cache, outside /repo); defects there can only be recorded. "
                "Tolerances: median/mean 4 ulp of max|x| (x n for the mean); binomial coverage 1e-12; t-based quantities 1e-6 and only "
                "for samples whose standard deviation exceeds 1e-6 of their magnitude."),
    technique="property-based testing (rapid): validity predicates, metamorphic relations and differential comparison with enumerated/exact references",
    rule=("Two samples of 1-70 finite values (few-valued pools with ties, integers incl. zero and negatives, near-constant, continuous; "
          "magnitudes 1e-9..1e12), confidence from common levels, dyadic thresholds 1-2^(1-n) +- delta, uniform (0,1) and levels 1-u*1e-12 / 1-10^-e (e<=13.5) where 30-50 and more samples are needed (the warning is probed against Summary itself there), alpha from "
          "{0,.001,.01,.05,.1,.5,1,1/3,1/35}, assumption nothing/exact/normal, a reordering and a power-of-two rescaling. Non-trivial = "
          "both samples have >=2 values and differ as multisets. Distinct = distinct case JSON. A second confidence level a few 1e-8 away from the first (around the binomial coverage steps of the sample size) is evaluated right afterwards in a third of the cases. One case in twelve holds values near the top of the float range (order-statistic models only). A warning that more samples are needed to detect a difference must be true for the two sample sizes (2/C(n1+n2,n1) > alpha). In a third of the cases the rendered range is also checked on a summary given directly (lo <= centre <= hi from zero, +-1, subnormals, +-1e308, +-MaxFloat64, +-Inf and random bit patterns). cli unit: the C14 reference pipeline on benchstat invocations that always set -alpha."),
    assumptions=["go-moremath is the pinned dependency version of /repo/go.mod"],
    units=[
        R("rapid", "A", "./c13", "TestC13Rapid", (3000, 16), (80000, 16)),
        R("cli", "B", "./cmd/benchstat", "TestC13CLI", (300, 4), (4000, 8)),
    ],
)
