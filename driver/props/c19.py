from helpers import R, E, F


PROP = dict(
    id="C19",
    level="exploration",
    level_text=("Model-based (stateful) property testing: generated histories of uploads, queries and upload listings are run "
                "against an in-process storage server (storage/app + storage/db on a file-backed sqlite database + fs.MemFS, "
                "served by httptest on loopback, driven through storage.Client) and against an in-memory reference store and "
                "query evaluator written from the property text; the two are compared after every step. Plus differential "
                "testing of query.SplitWords against a reference state machine and an in-package round-trip test of the "
                "analysis front end's addToQuery. Searches for a counterexample; does not prove absence."),
    level_note=("Trusted: Go standard library (net/http, mime/multipart, encoding/json, time.Parse for the RFC 3339 check), "
                "sqlite3 via mattn/go-sqlite3 (the only database engine exercised; MySQL is not), the reference model in "
                "/verif/harness/c19/model_test.go. One upload time per upload is learned from the server (it is the only "
                "stored value the model cannot know) and only required to be RFC 3339 and identical on all records of the upload."),
    technique="model-based (stateful) property testing against an in-memory reference store and query evaluator",
    rule=("Unit 'machine': a case is a history of 3-14 steps executed on a fresh server. upload = 1-3 files given to "
          "Client.NewUpload/CreateFile/Commit, each a label history (header lines, optional blank line, then result lines "
          "interleaved with `key: value` sets, overwrites, `key:` deletions, blank and non-benchmark lines, attempts to set the "
          "server's own keys) over small key/value pools (values with blanks, tabs, quotes, backslashes, non-ASCII, trailing "
          "blank, digit strings where bytewise and numeric order differ, values of 50-1200 bytes); benchmark names with /key=value and positional "
          "sub-names, empty sub-values, -N suffix; runs of results with identical labels; optional uploader name, file names "
          "with a directory part or empty. Model record = file labels + upload, upload-part (id/<file index>), upload-file "
          "(base name), by, upload-time + name-derived labels + the verbatim line. After every upload the upload is read back "
          "with upload:<id> and compared record by record. query = 0-5 terms k:v, k<v, k>v, k> aimed at a stored record "
          "(values = stored value, value +-1 in the last byte, proper prefix, one-byte extension; another stored value of the "
          "key), several terms on one key (redundant and contradictory), absent keys, upload / upload-part / upload-time "
          "terms resolved against the ids the server assigned, four quoting styles; the answer must equal, as a multiset of "
          "(labels, name labels, line), the model records for which every term's label exists and compares bytewise as stated "
          "(k> with empty value = label present). list = ListUploads(q, extra labels, limit): must be (upload id, number of "
          "matching stored records = maximal runs of consecutive results with identical labels within a file) for every "
          "upload with a match, newest first, cut to limit; each requested extra label must be reported iff some record of "
          "the upload has it, with one of that upload's values. Words without an operator or with an upper-case letter / "
          "white space in the key must be rejected by both calls (generated first in the query, about 2.5% of queries). "
          "key:\"\" (documented as unimplemented) may be rejected, answered literally or answered with nothing. Uploads are "
          "kept to at most 240 label rows so that the server's batched label insert (flush at 248 rows) never splits a run; "
          "about 4% of uploads are larger, for those the listing count may lie between the number of runs and the number of "
          "matching results (query answers are still compared exactly). Non-trivial = at the time of a query or listing "
          "there are >= 2 uploads, the query has >= 2 terms of which >= 1 is a range, and the set of matching results is "
          "neither empty nor everything stored. Unit 'regress': the same comparison on fixed histories — the minimal "
          "reproducers of the two defects this check found (C19-a: ListUploads answered a query with contradictory terms on "
          "one key with the error EOF; C19-b: Labels.Equal took a missing key for an empty value, so results with different "
          "name labels were stored as one record; both fixed) and hand-written edge histories (empty store, header block / "
          "overwrite / deletion / server keys in the file, digit strings, ranges over server-assigned ids, limits). Unit 'splitwords': query.SplitWords against a reference state machine from "
          "its doc comment (blank/tab separate; double quotes and backslash escape; empty words dropped) on random strings "
          "over quotes, backslashes, blanks, tabs, operators, non-ASCII, and on texts built by quoting known words in four "
          "styles (which must come back exactly); non-trivial = contains a quote or backslash and yields >= 2 words. Unit "
          "'addtoquery' (in-package): for keys k, non-empty values v (arbitrary strings without line breaks; soups of blanks, "
          "tabs, quotes, backslashes, '|', 'vs') and existing queries of the shapes '', 'a', 'a vs b', 'p | a', 'p | a vs b': "
          "SplitWords(addToQuery(q, k:v)) = [k:v] + ['|' if q had no '|'] + SplitWords(q), and every storage query derived "
          "by parseQueryString from the new text has the words of the corresponding old storage query with k:v as one word "
          "in front; non-trivial = k:v needs quoting. Distinct = distinct case JSON (64-bit FNV), capped at 300000 per shard."),
    assumptions=[
        "only the sqlite3 backend is exercised (file-backed database with synchronous=OFF and an in-memory journal: durability is not part of the property); MySQL collation/ordering is out of reach offline",
        "`k>` with an empty value means 'label present' (pinned by storage/db tests), also for labels whose value is empty (name sub-values)",
        "labels the server adds cannot be overridden or deleted by the file (benchfmt.Reader.AddLabels: permanent labels), upload-part is <upload id>/<0-based file index> and upload-file is the base name, as storage/app's tests and comments state",
        "an upload whose name-derived label keys collide with file label keys, or whose file sets a key twice in one benchmark name, is outside the generated domain (the first is rejected by the database's primary key)",
        "key:\"\" on an ordinary key is documented as unimplemented; any of error / literal answer / empty answer is accepted there",
        "the /search handler rejects an empty q, so the zero-term query is sent as a single blank; ListUploads takes the empty string",
        "uploads above 240 label rows are only required to report a count between the number of stored runs and the number of matching results, because the label batch flush in storage/db splits runs (DESIGN C19 risk ii)",
        "invalid words are placed first in the query: the server stops parsing at the first contradiction between two terms on one key and may then never look at a later invalid word",
        "single client, sequential requests; upload ids are only required to be non-empty and distinct here (their format and atomicity are C20)",
    ],
    units=[
        R("machine", "A", "./c19", "TestC19Machine", (300, 16), (5000, 16)),
        E("regress", "A", "./c19", "TestC19Regress", 1, 1),
        R("splitwords", "A", "./c19", "TestC19SplitWords", (40000, 2), (600000, 16)),
        R("addtoquery", "B", "./analysis/app", "TestC19AddToQuery", (30000, 2), (450000, 16)),
        R("listorder", "B", "./storage/db", "TestC19ListOrder", (400, 2), (6000, 8)),
    ],
)
