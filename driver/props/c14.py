from helpers import R, E, F
PROP = dict(
    id="C14",
    level="exploration",
    level_text=("Differential property-based testing of the benchstat entry point (CSV output and warnings) and of benchtab.Builder "
                "(cell samples) against an independent pipeline - reference reader, reference filter evaluator, reference projections "
                "with group exclusions, residue and documented sort orders - on structurally generated input files and flag combinations. "
                "Cell statistics are obtained by calling benchmath on the expected samples (benchmath is judged by C13), so this check "
                "judges cell assignment, baselines, geomean rows, table/row/column arrangement and warnings."),
    level_note=("Trusted: harness/lib/refbench, refexpr, refproj; benchmath for per-sample statistics. Orders are compared only where the "
                "documented order is strict for every pair (otherwise labelled *_order_undefined). Cases whose row labels would be "
                "ambiguous (two different row tuples with the same printed label) are skipped and counted. Geomeans to 1e-9 relative; the "
                "two-decimal geomean ratio may differ by one unit in the last printed place."),
    technique="property-based differential testing (rapid) of the CLI entry point against a reference pipeline",
    rule=("1-4 generated files (1-3 configuration blocks over goos/goarch/pkg/note/commit incl. deletions, optional unit metadata, 1-4 "
          "benchmarks x sub-name keys /size,/kind,-N x 1-5 units, 1-8 samples with ties and zeros), optional duplicate and labelled paths, "
          "and optional -table/-row/-col/-ignore projections (orders alpha/num/fixed), -filter from the filter grammar, -alpha, "
          "-confidence; duplicate paths (labelled, or the same file once labelled and once bare), results before any configuration line, -table "", one metric in two spellings, >1024 distinct units (1 in 150), configuration values containing % verbs, plain integers around 2^63, name parts that merely start like a projectable key; each expected warning is compared together with the output row it refers to. Non-trivial = >=2 columns, >=2 rows, >=1 non-default flag and >=1 cell with a baseline. Distinct = distinct case JSON."),
    assumptions=["benchmath computes correct per-sample statistics (C13)", "reference models in harness/lib reflect the documentation"],
    units=[
        R("rapid", "B", "./cmd/benchstat", "TestC14Rapid", (1200, 16), (12000, 16)),
    ],
)
