from helpers import R, E, F


PROP = dict(
    id="C10",
    level="exploration",
    level_text=("Property-based testing of benchunit.Scale / CommonScale / Scaler.Format / ClassOf / NoOpScaler against a validity "
                "predicate evaluated in exact rational arithmetic (math/big), plus an exhaustive sweep of every float64 within "
                "+-512 ulps (thorough: +-4096) of every magnitude at which the printed form changes shape, both signs, both unit "
                "classes. The sweep is complete for those neighbourhoods only; elsewhere the check searches for a counterexample "
                "and does not prove absence."),
    level_note=("Trusted: math/big (exact arithmetic), strconv.ParseFloat (read-back and shortest-decimal check), the SI/IEC "
                "prefix symbols and factors as standardised (T..n = 10^12..10^-9; Ti..Ki = 2^40..2^10), the reference unit "
                "tokeniser refbench.UnitTokens. The implementation's threshold tables are not consulted by the oracle. Domain: "
                "finite float64 only (NaN/Inf excluded), valid UTF-8 unit strings."),
    technique="property-based testing with a big.Rat validity oracle + exhaustive ulp-neighbourhood enumeration",
    rule=("Oracle on the printed string s = [-]mantissa prefix of value v: prefix belongs to the class; '-' iff v<0; "
          "|mantissa*factor - |v|| <= 1/2 unit of the last printed digit * factor (+ |v|*n*2^-53*(1+2^-40), n = number of float "
          "roundings in v/float64(factor): 0 for powers of two, 1 for exactly representable factors, 2 otherwise); mantissa >= 1 "
          "must be < 1000 (decimal) / < 1024 (binary) unless the prefix is the largest, and has exactly four significant digits "
          "when < 1000 (d.ddd, dd.dd, ddd.d; binary [1000,1024) prints dddd.d); the four digits are digits of the value: a form "
          "with fewer decimals is accepted only once the finer one would round out of its range, i.e. dd.dd needs |v| >= 9.9995*factor, "
          "ddd.d needs |v| >= 99.995*factor, and a prefix other than the smallest needs |v| >= 0.99995*factor, where each boundary "
          "is the exact rational or the float64 nearest to it, whichever is lower (no other tolerance; this is what makes the check "
          "ulp-exact at every threshold); mantissa < 1 only with the smallest prefix and then "
          ">= 3 significant digits whenever |v| >= 1e-8 of that prefix. CommonScale(vs) must equal CommonScale({smallest non-zero "
          "|v|}), Format(min) must pass the predicate above, and every value formatted with the shared scale must use the same "
          "prefix and decimals, be correctly rounded, keep its sign and show >= 3 significant digits. ClassOf(u) == Binary iff "
          "refbench.UnitTokens(u) has a numerator component equal to B, MB or bytes. NoOpScaler.Format(v) has no prefix, reads "
          "back (strconv.ParseFloat) to the same bits, and neither of the two decimals with one significant digit fewer that "
          "bracket |v| reads back to v. Units: 'ulps' = exhaustive enumeration around every threshold (mantissa 0.99995, 9.9995, "
          "99.995, 999.95[, 1023.95] of each prefix, 9.9995e-k (k=1..9), 1e-8, 9.995e-9 etc. of the smallest prefix, and the "
          "points above the largest prefix), non-trivial = within 4 ulps of the threshold. 'scale' = rapid over log-uniform "
          "1e-20..1e20, random finite bit patterns, exact half-unit rounding points of the printed mantissa +-3 ulps, threshold "
          "neighbourhoods up to 2^32 ulps, round numbers, sub-smallest-prefix magnitudes and extremes (subnormals, MaxFloat64, "
          "+-0); non-trivial = non-zero and printed mantissa outside [10,100) (a decade adjacent to a prefix change). 'common' = "
          "multisets of 1-8 values with zeros, duplicates and sign flips; non-trivial = at least two distinct non-zero "
          "magnitudes. 'classof' = generated unit strings (components incl. B/MB/bytes and near misses, separators / * - and "
          "Unicode white space, leading/trailing/double separators, alphabet soup, real benchmark units); non-trivial = B, MB or "
          "bytes occurs as a component on either side. 'noop' = finite floats (random bits, short decimals, integers, powers of "
          "two, subnormals); non-trivial = at least two significant digits printed. Distinct = distinct case JSON (64-bit FNV), "
          "capped at 300000 per shard. Unit rowlabel: benchstat -row /a,/b on a file whose two row keys (a=v,b=) and (a=,b=v) are labelled alike and differ in magnitude; each row is printed in the scale of its own value."),
    assumptions=[
        "math/big rational arithmetic and strconv.ParseFloat of the Go standard library are correct (trusted oracle base)",
        "the prefix symbols mean their standard SI / IEC factors and the supported range is T..n (decimal) and Ti..none (binary), as documented in benchunit/scale.go",
        "binary mantissas in [1000,1024) are expected as dddd.d (five significant digits), reading 'four significant digits' as a minimum there",
        "only finite float64 inputs are in scope; -0 may print with or without a sign",
        "a float64 that is the nearest float to a decimal rounding boundary (e.g. the float written 999.95, which is slightly below 999.95) may be treated as being on the boundary, as the property's own example does",
        "multisets for CommonScale are generated with magnitudes <= 1e299: with a sub-unit prefix (m, µ, n) chosen from a small value, Scaler.Format of a value above MaxFloat64*factor divides to +Inf and prints e.g. \"+Infm\" (finding C10-a, minimal input CommonScale({0.5, 1e306}, Decimal).Format(1e306)); the generator includes such multisets, and the check books them as known hits, only when C10-a is listed in known_findings.json - otherwise that output is reported as a violation if reached (replay/fuzz)",
        "refbench.UnitTokens is a correct reading of the unit grammar ('/' to the denominator, '*' back to the numerator, '-' and white space keep the side)",
    ],
    units=[
        E("ulps", "A", "./c10", "TestC10Ulps", 8, 16),
        R("scale", "A", "./c10", "TestC10Scale", (150000, 8), (2000000, 16)),
        R("common", "A", "./c10", "TestC10Common", (50000, 4), (500000, 16)),
        R("classof", "A", "./c10", "TestC10ClassOf", (100000, 2), (400000, 16)),
        R("noop", "A", "./c10", "TestC10NoOp", (80000, 2), (400000, 16)),
        R("rowscaler", "B", "./cmd/benchstat", "TestC10RowScaler", (20000, 2), (300000, 8)),
        R("rowlabel", "B", "./cmd/benchstat", "TestC10RowLabel", (300, 2), (4000, 8)),
        F("fuzz", "./c10", "FuzzC10", 60),
    ],
)
