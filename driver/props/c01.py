from helpers import R, E, F
PROP = dict(
    id="C01",
    level="exploration",
    level_text=("Round-trip property testing of benchfmt.Writer/Reader: (a) generated histories of API edits (set file/internal, "
                "delete, re-add, file<->internal flips, struct-literal results, unit metadata, special floats, rescaled units) "
                "written through one Writer and read back; (b) generated texts parsed, written, and read back. The oracle is the "
                "round trip itself (records given to Write vs. records read from its output)."),
    level_note=("Trusted: benchfmt.Reader as the inverse (judged separately against a reference model by C02/C03/C04). Domain limits "
                "imposed by the format: names, units without white space; >=1 measurement; file keys syntactically valid; values "
                "non-empty, no newline, no leading blank; API-built values do not end in CR."),
    technique="round-trip property-based testing (rapid), history generation through the API + text generation",
    rule=("api unit: 2-24 steps over {setfile, setinternal, delete, write, unitmeta, fresh struct literal} on a running Result with keys "
          "from a small pool (frequent collisions, deletions, re-adds, flips), 1-70 measurements per write from special and random "
          "floats in rescaled and plain units; non-trivial = a write happens after a deletion, re-add or file/internal flip. text unit: "
          "1-3 generated texts (see C02 grammar) read through one Reader (optionally with tool-supplied labels), every record written; "
          "non-trivial = two results whose file configuration differs. Iteration counts up to MaxInt64 (API unit) and long counts in texts; numbers built around the parser's boundaries (short mantissa x 10^15..45, integers 2^53..2^64 in full, prefixes of powers of five, 17-digit forms). Texts include lines of 4-60 KiB (1 in 40) and values at the top of the float range; a reader failure on an input whose lines are all short is a violation. Distinct = distinct case JSON."),
    assumptions=["benchfmt.Reader is a faithful inverse (checked independently by C02-C04)"],
    units=[
        R("api", "A", "./c01", "TestC01API", (4000, 12), (100000, 16)),
        R("text", "A", "./c01", "TestC01Text", (2000, 10), (50000, 16)),
    ],
)
