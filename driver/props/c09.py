from helpers import R, E, F
PROP = dict(
    id="C09",
    level="exploration",
    level_text=("Property-based testing of key ordering: generated projections mixing default (first observation), alpha, num and "
                "fixed-list fields incl. .config groups, generated observation histories, and several arrangements of the distinct "
                "keys. Checks the strict-total-order axioms on all pairs/triples, agreement with an independent statement of the "
                "documented order wherever that defines a strict order, and that SortKeys returns the same sorted permutation for "
                "every arrangement."),
    level_note=("Trusted: reference order in the check (first-observation ranks per flattened field incl. each .config sub-key; bytewise; "
                "numeric via big.Rat with SI/IEC suffixes for unambiguous spellings only; list position). Nothing is imposed where the "
                "documentation does not define a strict order: ties, ambiguous numeric spellings (e.g. 'x1', '1m'), values listed twice in "
                "a fixed list, missing values of .config sub-keys, numeric margins below 1e-9 relative."),
    technique="property-based testing (rapid): order axioms + reference comparator + permutation metamorphic relation",
    rule=("1-4 fields from {/size,/kind,goos,pkg,note,.config} with orders {first, alpha, num, fixed list}; 5-40 results whose values come "
          "from unambiguous numeric spellings (12, 1.5, 2k, 1Mi, 3GiB, 1e3, NaN, inf, words), ambiguous ones (x1, 1k2, .., 1m) and words; "
          ".config sub-keys appear late; 1-3 random arrangements of the distinct keys are sorted. Non-trivial = >=4 distinct keys, >=2 "
          "different order kinds among the flattened fields, and a pair of keys separated only by a later field. NonSingularFields is asked about all keys and adjacent pairs between the pairwise comparisons and the sorts; every Less must stay what it was. Numeric values include plain numbers beyond float32 precision and range and zero-padded integers. One case in five uses a unit projection (ParseWithUnit; results projected per measurement or as a whole; .unit is a first-observation field). Prefixed numbers followed by a unit word (10Mbit, 2Gbit/s) are numbers; texts without a digit are not. Distinct = distinct case JSON."),
    assumptions=["reference comparator reflects the documented orders"],
    units=[
        R("rapid", "A", "./c09", "TestC09Rapid", (3000, 16), (60000, 16)),
    ],
)
