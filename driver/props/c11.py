from helpers import R, E, F
PROP = dict(
    id="C11",
    level="exploration",
    level_text=("Differential testing of MannWhitneyUTest and UDist against the exact null distribution obtained by brute-force "
                "enumeration of all group assignments (trusted base; a DP cross-checked against it serves larger samples): an "
                "exhaustive sweep over all pairs of multisets over {1..4} with sizes <=4 (thorough: {1..5}, sizes <=5, n1+n2<=10), "
                "all three alternatives, plus rapid-generated larger samples on both sides of the exact/approximate switches and "
                "random tie vectors for UDist.PMF/CDF. The approximate path is compared with an independent evaluation of the "
                "tie- and continuity-corrected normal formula."),
    level_note=("Trusted: brute-force enumeration in harness/lib/refstat (EnumDist), math.Erfc for the normal reference. Tolerance "
                "1e-9 relative on exact p-values (the implementation divides by floating binomials), 1e-12 absolute on the normal "
                "approximation. UDist is exercised with >=2 tie groups (MannWhitneyUTest rejects the single-group case before "
                "constructing it); the untied PMF is summed over integer U only, as documented."),
    technique="exhaustive small-multiset enumeration + property-based differential testing (rapid) against an enumerated exact distribution",
    rule=("exhaustive unit: every ordered pair of multisets over {1..4} with 0..4 elements each (incl. empty and all-equal pairs for the "
          "error cases), all alternatives; rapid unit: sizes 1-60 concentrated around the limits 25 (ties) and 50 (no ties), values from "
          "small pools (ties) or distinct reals; dist unit: UDist with 2-10 tie groups of multiplicity 1-6, every half step (ties) or whole "
          "step (no ties) of U; refself unit: DP reference vs enumeration. Non-trivial = both samples non-empty and not all values equal. "
          "One rapid case in ten moves the exported limits MannWhitneyExactLimit/TiesExactLimit (3..60 / 3..27) for its duration; with the values shifted so that the smallest is 0 and the first sample's zeros written as -0 all results are unchanged; the distribution function is also queried between support points (flat); every result is re-read after all later calls of the case; with the largest pooled value replaced by +Inf and the smallest by -Inf (same order) U and all p-values must be unchanged; the first sample is mirrored in place and tested again (refilled buffer). Distinct = distinct case JSON."),
    assumptions=["brute-force enumeration of group assignments defines the exact null distribution"],
    exhaustive_whole=False,
    units=[
        E("exhaustive", "B", "./internal/stats", "TestC11Exhaustive", 8, 16),
        R("rapid", "B", "./internal/stats", "TestC11Rapid", (1500, 4), (30000, 16)),
        R("dist", "B", "./internal/stats", "TestC11Dist", (1500, 2), (30000, 16)),
        R("refself", "B", "./internal/stats", "TestC11RefSelf", (500, 1), (5000, 4)),
    ],
)
