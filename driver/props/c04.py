from helpers import R, E, F
PROP = dict(
    id="C04",
    level="exploration",
    level_text=("Property-based differential testing of unit normalisation against an independent unit tokeniser/rewriter "
                "and big.Float scaling, through the reader, benchunit.Tidy, the unit-metadata map and .unit filters; "
                "searches for counterexamples over generated units x special float values, plus an exhaustive grid of "
                "all units of <=3 components over a 6-component alphabet."),
    level_note=("Trusted: reference tokeniser in harness/lib/refbench (written from the benchunit documentation), math/big, strconv. "
                "Value tolerance (k+2) ulp for k rewritten components (the implementation multiplies by a float factor built by "
                "repeated multiplication/division). Units given to the reader contain no white space (they are fields)."),
    technique="property-based differential testing (rapid) + exhaustive small-unit grid; native fuzzing in thorough",
    rule=("Units of 1-6 components from a pool containing ns, MB, look-alikes (nsec, ans, MBs, xMB), bytes, words, joined by "
          "'/', '*', '-' (and blanks for direct Tidy calls), optional leading/trailing/doubled separators; 1-3 values from "
          "{0,-0,+-Inf,NaN,min subnormal,max,1,random bits,ordinary}. Each case is checked through Tidy, the Reader, "
          "UnitMetadataMap.Get/GetAssumption/GetBetter and .unit filters by written and base unit. Non-trivial = the written unit "
          "contains 'ns' or 'MB' as component or substring. Values are written in shortest, plain-decimal or 17-digit form or as the exact midpoint to the next float (a tie); both names of a unit in one disjunction select the measurement once and the empty name nothing; one case in six pads every line with 1-100 further measurements before/after the one under test (31, 32, 33, 63, 64, 65 in all among the sizes) and reads the filter's Match of every result only after all results were matched. Optionally the unit metadata is declared a second time under the base unit's name (no error, no new record). Unit 'history': 1-3 inputs of 1-4 lines with 1-4 measurements each "
          "(14 units, one metric possibly written twice on a line in scaled and base form) through ONE Reader with Reset between "
          "inputs, optionally trimmed in place between Scans by a literal/regexp/negated .unit filter; every measurement must be the "
          "normalised form of its own text with the original kept exactly when something was normalised (non-trivial = more than one "
          "input, trimming, or a metric twice on a line). Distinct = distinct case JSON."),
    assumptions=["reference tidier in lib/refbench reflects the documented normalisation (numerator ns->sec x1e-9, MB->B x1e6)"],
    units=[
        R("rapid", "A", "./c04", "TestC04Rapid", (15000, 4), (400000, 16)),
        R("history", "A", "./c04", "TestC04History", (6000, 2), (200000, 8)),
        E("grid", "A", "./c04", "TestC04Grid", 1, 1),
        F("fuzz", "./c04", "FuzzC04", 60),
    ],
)
