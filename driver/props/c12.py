from helpers import R, E, F

PROP = dict(
    id="C12",
    level="exploration",
    level_text="tbd",
    level_note="tbd",
    technique="property-based testing against exact big-number / numerical-integration reference + metamorphic laws",
    rule="tbd",
    assumptions=[],
    units=[
        R("dist", "B", "./internal/stats", "TestC12Dist", (4000, 4), (200000, 16)),
        R("beta", "B", "./internal/stats", "TestC12Beta", (6000, 2), (300000, 16)),
        R("ttest", "B", "./internal/stats", "TestC12TTest", (3000, 4), (100000, 16)),
        R("descr", "B", "./internal/stats", "TestC12Descr", (3000, 4), (100000, 16)),
    ],
)
