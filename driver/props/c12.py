from helpers import R, E, F

PROP = dict(
    id="C12",
    level="exploration",
    level_text=("Property-based testing of internal/stats (compiled into the package through the overlay): generated "
                "distribution arguments, degrees of freedom, beta parameters and samples are checked against an independent "
                "reference (exact rational moments and R8 quantiles via math/big, adaptive Gauss-Kronrod integration of the "
                "textbook densities, textbook t statistics in 256-bit floats) and against metamorphic laws (range, monotonicity, "
                "symmetry, reflection, inverse round trip, order independence). Searches for a counterexample over a sampled "
                "continuous domain; does not prove absence."),
    level_note=("Trusted: Go standard library math (Lgamma, Exp, Log, Erfc on normal-range arguments), math/big, sort; the reference "
                "package /verif/harness/lib/refstat (self-tested against closed forms: t CDF for nu=1,2, I_x(1,b), I_x(a,1), "
                "I_x(2,2), values pinned in golang/perf's own tests). Tolerances are those of DESIGN.md (1e-9 integration and "
                "inverse round trip, 1e-12 symmetry, 1e-10 reflection, 8*n*eps*scale moments); four are made precise from the "
                "algorithms' error analysis and stated in comments next to the comparison: monotonicity of the t CDF 1e-13 + nu*eps "
                "(a power nu/2 of a rounded argument), reflection 1e-10 + 4*eps*L (L = size of the log-terms of the beta prefactor, "
                "matters only for a,b > 1e3), geometric mean 8*n*eps*max(1,max|ln x|) relative, T/DoF by first-order propagation of "
                "the moment tolerances; a variance below its own tolerance may be reported as ErrZeroVariance."),
    technique="property-based testing against exact big-number / numerical-integration reference + metamorphic laws",
    rule=("Four rapid units. dist: one distribution (Student-t with nu from integers 1..100, half-integers, reals, log-uniform and "
          "integer values up to 1e5, edge constants; or normal with grid/real mu and sigma 1e-6..1e6) with 1-8 arguments (grid k/8, "
          "uniform, 10^[-3,6], 10^[-12,-2], tiny to 1e-320, huge to MaxFloat64, +-Inf) and their mirror images, 0-4 inverse arguments "
          "(uniform, 10^-k down to subnormal, 1-10^-k, Acklam region edges, 0, 1, outside [0,1]); every fourth case also runs the "
          "integration oracle (textbook density and the implementation's own PDF) and, for nu>200, the normal limit with first-order "
          "correction. beta: (a,b)=(nu/2,1/2) with x formed from t in both ways the t CDF forms it, and general a,b in [0.5,5e4] with "
          "x around the mean, near 0/1 and uniform, always with exact complement 1-x; integration reference for a,b>=1, a+b<=1e4. "
          "ttest: Welch (2/5), pooled, paired, one-sample on samples of 0-300 values from eight pools (small integers with ties, "
          "base+relative noise 1..1e-6, constant, mixed magnitudes to 1e60, dyadic grid, 3-significant-digit benchmark-like, few "
          "distinct values), second sample independent / copy / shifted-rescaled resample; all three alternatives per case. descr: "
          "samples of 1-500 values from the same pools with magnitudes to 1e300, ascending/descending/random order, Sorted flag set "
          "only for sorted data, 1-6 percentile arguments (uniform, next to the R8 break points, common levels, 0/1 and beyond), one "
          "case in six with strictly positive weights (Weight, Mean, Bounds only). Non-trivial = nu non-integer or >100 or an argument "
          "beyond 10 standard deviations (dist, beta: also a or b >50 or not a half-integer); n>=3 and non-constant first sample "
          "(ttest, descr). More than 6.5 sigma below the mean the normal CDF is compared relatively with the asymptotic tail series. One dist case in 800 first uses its inverse functions for 1100-1600 further probabilities (one object, many calls). Distinct = distinct case JSON (64-bit FNV), capped at 300000 per shard."),
    assumptions=[
        "math.Lgamma, math.Exp, math.Log, math.Log1p, math.Erfc, math.Sinh/Cosh of the Go standard library are accurate to a few ulp on normal-range arguments (used by the reference integrands); math/big is exact",
        "math.Log of go1.23.5 on amd64 is wrong for subnormal arguments (log_amd64.s: ln(5e-310) = -709.07, true -711.19); GeoMean is therefore checked only on samples whose minimum is a normal float64",
        "t-test inputs are limited to |x| <= 1e61 and to samples whose non-zero variances lie in [1e-120, 1e125]: the Welch-Satterthwaite formula squares s^2/n and yields DoF = NaN (and a panic in the t CDF) beyond float64 range; the property's degrees of freedom are those real samples produce",
        "variance and standard deviation are checked when 4*n*max|x|^2 is below MaxFloat64 (the exact variance is not representable otherwise)",
        "weighted samples are outside the property's quantifier; only strictly positive weights are generated (Sample.Mean with a leading zero weight returns NaN: Sample{Xs:[1,2],Weights:[0,1]}.Mean(); not part of this property)",
        "the Sample.Sorted flag is a promise by the caller: only true promises are generated",
        "for the normal distribution with |mu| >> sigma the inverse round trip and the integral of the implementation's PDF are limited by the spacing of float64 numbers around x (ulp(x)/sigma in standard units); that term is added to the 1e-9 tolerance",
        "the adaptive integrator's own error indicator (Gauss-Kronrod 7/15 difference, conservative) is trusted; points where it gives up are labelled and skipped (never counted as agreement)",
    ],
    units=[
        R("dist", "B", "./internal/stats", "TestC12Dist", (40000, 4), (250000, 16)),
        R("beta", "B", "./internal/stats", "TestC12Beta", (60000, 2), (200000, 16)),
        R("ttest", "B", "./internal/stats", "TestC12TTest", (10000, 5), (70000, 16)),
        R("descr", "B", "./internal/stats", "TestC12Descr", (10000, 5), (65000, 16)),
        R("huge", "B", "./internal/stats", "TestC12Huge", (3000, 1), (30000, 4)),
    ],
)
