from helpers import R, E, F
PROP = dict(
    id="C05",
    level="exploration",
    level_text=("Exhaustive enumeration of all names up to 6 (quick) / 7 (thorough) bytes over the alphabet {/ = - 0 7 a k} plus "
                "property-based generation of longer names (multi-byte, invalid UTF-8, empty segments) and configuration maps; "
                "Name.Parts/Base/Full, single-field projections and literal filters are compared with an independent "
                "decomposition written from the documentation."),
    level_note=("Trusted: reference decomposition in harness/lib/refbench. Keys and values containing backslash or double quote are "
                "left to C07 (expressibility); config keys are non-empty, values non-empty (empty means deleted)."),
    technique="exhaustive small-name enumeration + property-based differential testing (rapid) against a reference decomposition",
    rule=("Exhaustive unit: every byte string of length <= 6 (quick) / 7 (thorough) over {'/','=','-','0','7','a','k'}. Rapid unit: names from "
          "segments /k=v, /v, /, -N, digit tails, multi-byte and invalid bytes; 0-6 config entries (file and internal). For each name "
          "Parts/Base/Full and the extraction of .name, .fullname, /gomaxprocs, every /k present and requested/absent keys through "
          "Projection.Project+Key.Get and through literal filters (match / non-match / empty) are checked, and .fullname is projected together with every plain key of the case (one expression or separate projections of one parser) and must stay the whole name; for every key a fixed value list k@(value other) parsed against the filter * must keep the result and k@(value+x other) must drop it; .fullname beside every absent sub-name key of the case must be the whole name; plain keys containing a slash are in the pools; terms are also written with unquoted (incl. non-ASCII) words; a clone that receives a longer value for its first key keeps all other keys; .name,/k over the name and a sibling whose values concatenate alike gives different keys; the conjunction of all extractions as one filter (terms joined by blank, tab, U+3000, U+2003, NBSP, U+2028 or AND) matches and, with one value altered, does not; all keys as one projection agree with the reference; .fullname beside two or three of the name's sub-name keys is the name without exactly their parts; ProjectValues on a fresh single-key projection gives the same Key as Project. Non-trivial = the name "
          "contains '/' or a trailing -digits part. Distinct = distinct case JSON."),
    assumptions=["reference decomposition reflects the documented name structure (base, /-parts, optional trailing -N)"],
    units=[
        E("exhaustive", "A", "./c05", "TestC05Exhaustive", 8, 16),
        R("rapid", "A", "./c05", "TestC05Rapid", (10000, 4), (300000, 16)),
    ],
)
