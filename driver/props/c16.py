from helpers import R, E, F
PROP = dict(
    id="C16",
    level="exploration",
    level_text=("Property-based testing of the text rendering at three levels: (a) the layout engine on generated tables (validity "
                "predicate over the output: every value appears once and unaltered, one consistent monotone set of column boundaries, "
                "no overlap, centring rule, no trailing blanks); (b) NewKeyHeader on generated sorted key slices (partition/maximal-run "
                "invariants); (c) benchstat text vs CSV output for generated inputs (rule alignment, column alignment, same tables, rows, "
                "columns, deltas, p-values and warnings, scaled numbers within half a unit of the last printed digit)."),
    level_note=("Trusted: the check's own output parser. Column boundaries are inferred from left-aligned and right-aligned cells; cells "
                "in columns without such evidence are only checked for containment and overlap. A margin-only cell is never the last on "
                "a line unless its margin has no trailing blank (as benchstat uses the engine)."),
    technique="property-based testing (rapid) with validity predicates over rendered output + text/CSV differential",
    rule=("layout unit: 1-12 rows x 1-14 columns, cells at increasing columns, spans 1-6, unique tokens with 0-12 ASCII or multi-byte "
          "decoration runes, three alignments, margins {default,' ',' | ','  ','','|'}, 0-4 shrink columns, gaps and empty cells; "
          "non-trivial = a span at least as wide as the columns beneath it or a shrink column. keyheader unit: projections of 1-4 config "
          "fields or .config, 1-20 results over values {x,y,z,missing}, keys sorted or in first-seen order; non-trivial = >=3 keys and >=2 "
          "levels. textcsv unit: C14's generator of files and flags, benchstat run in text and csv format; non-trivial = a table with >=2 "
          "columns; one case in six puts .config beside another field on the column axis; warnings are compared per cell (text footnote marks after the summary / after the delta vs the CSV spreadsheet reference). Distinct = distinct case JSON."),
    assumptions=[],
    units=[
        R("layout", "B", "./cmd/benchstat/internal/texttab", "TestC16Layout", (3000, 4), (100000, 16)),
        R("keyheader", "A", "./c16", "TestC16KeyHeader", (3000, 2), (100000, 8)),
        R("textcsv", "B", "./cmd/benchstat", "TestC16TextCSV", (500, 16), (10000, 16)),
    ],
)
