from helpers import R, E, F
PROP = dict(
    id="C06",
    level="exploration",
    level_text=("Property-based differential testing of benchproc.Filter (NewFilter, Match.Test/All/Any, Apply, fixed-list projection "
                "filters) against a reference evaluator with ordinary boolean semantics over expression trees generated from the "
                "documented grammar and rendered by a randomised printer; results with 1-100 measurements incl. the 32/64 word boundaries."),
    level_note=("Trusted: reference evaluator and printer in harness/lib/refexpr, reference key extraction in lib/refbench, Go's regexp "
                "package for regexp terms. Results always have >=1 measurement (the documentation of Apply is ambiguous for none)."),
    technique="property-based differential testing (rapid): grammar-generated expression trees vs. a reference evaluator",
    rule=("Trees of depth <=5 over and/or/not/*/match/value-list with literal, quoted and regexp terms on .unit, .name, .fullname, /k, "
          "/gomaxprocs, file and internal config keys; literals drawn mostly from the result so that about half the leaves hold; results "
          "with n in {1..6, 31,32,33,63,64,65,96,100} measurements in rescaled and plain units. Non-trivial = the tree has >=2 operators, "
          "mixes a .unit leaf with a whole-result leaf, and the per-measurement outcome is neither all true nor all false. Distinct = "
          "distinct case JSON. With a fixed-list projection the result is optionally projected (twice) before it is filtered; the filter is asked again after the same Result object received a same-length name with its parts in another order; before the first Match is read the filter matches the same measurements in reverse order (and that Match is checked too); one fixed-list case in two has a second fixed list on another key of the same expression; names ending in a dash without digits are in the pool."),
    assumptions=["reference evaluator implements the documented boolean meaning", "Go regexp semantics for /re/ terms"],
    units=[
        R("rapid", "A", "./c06", "TestC06Rapid", (8000, 16), (150000, 16)),
    ],
)
