#!/usr/bin/env python3
"""seedall.py [ids...] — re-confirms every change under /verif/seeded and re-runs the owning check (quick tier)
against it; prints one line per change and writes /verif/seeded/RESULTS.json."""
import glob, json, os, subprocess, sys
ids = sys.argv[1:] or sorted(os.path.basename(d) for d in glob.glob('/verif/seeded/C*-*'))
res = {}
for i in ids:
    d = '/verif/seeded/' + i
    m = json.load(open(d + '/meta.json'))
    extra = [p for p in m.get('confirmation', {}).get('checks', {}) if p != m['property']]
    cmd = ['python3', '/verif/driver/seedcheck.py', d] + (['--props', ','.join(extra)] if extra else [])
    out = subprocess.run(cmd, stdout=subprocess.PIPE, stderr=subprocess.STDOUT, text=True).stdout.strip().splitlines()[-1]
    try:
        r = json.loads(out)
        res[i] = {'confirmed': r['confirmed'], 'checks': {p: {'caught': c['caught'], 'wall_s': c['wall_s']} for p, c in (r.get('checks') or {}).items()}}
    except Exception as e:
        res[i] = {'error': out[:300]}
    print(i, json.dumps(res[i]), flush=True)
json.dump(res, open('/verif/seeded/RESULTS.json', 'w'), indent=1, sort_keys=True)
