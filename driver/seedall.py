#!/usr/bin/env python3
"""seedall.py [-j N] [ids...] — re-confirms every change under /verif/seeded and re-runs the owning check (quick tier)
against it (N at a time, default 1); prints one line per change and writes /verif/seeded/RESULTS.json."""
import glob, json, os, subprocess, sys
from concurrent.futures import ThreadPoolExecutor
args = sys.argv[1:]
jobs = 1
if args[:1] == ['-j']:
    jobs = int(args[1]); args = args[2:]
ids = args or sorted(os.path.basename(d) for d in glob.glob('/verif/seeded/C*-*'))

def one(i):
    d = '/verif/seeded/' + i
    m = json.load(open(d + '/meta.json'))
    extra = [p for p in m.get('confirmation', {}).get('checks', {}) if p != m['property']]
    cmd = ['python3', '/verif/driver/seedcheck.py', d] + (['--props', ','.join(extra)] if extra else [])
    out = subprocess.run(cmd, stdout=subprocess.PIPE, stderr=subprocess.STDOUT, text=True).stdout.strip().splitlines()[-1]
    try:
        r = json.loads(out)
        res = {'confirmed': r['confirmed'], 'checks': {p: {'caught': c['caught'], 'wall_s': c['wall_s']} for p, c in (r.get('checks') or {}).items()}}
    except Exception as e:
        res = {'error': out[:300]}
    print(i, json.dumps(res), flush=True)
    return i, res

with ThreadPoolExecutor(jobs) as ex:
    res = dict(ex.map(one, ids))
if not args:
    json.dump(res, open('/verif/seeded/RESULTS.json', 'w'), indent=1, sort_keys=True)
else:
    old = json.load(open('/verif/seeded/RESULTS.json')) if os.path.exists('/verif/seeded/RESULTS.json') else {}
    old.update(res)
    json.dump(old, open('/verif/seeded/RESULTS.json', 'w'), indent=1, sort_keys=True)
