#!/usr/bin/env python3
"""mutcamp.py [-j N] [--files a.go,b.go] [--kinds op,lit,...] [--max-per-file K] [--out FILE]

Mutation campaign: for every anchored source file of /repo (or the files named), enumerate the
one-token mutants of driver/mutate/mutgen.go; for each mutant, in a scratch copy of /repo
(outside /repo and /verif):
  1. go build ./...            -> "nocompile" if it fails
  2. go test -count=1 ./...    -> "suite" if the existing tests kill it (timeout counts as killed)
  3. otherwise the mutant survives the repository's own tests: run the quick check of every property
     anchored in that file (cheapest first) until one reports a violation -> "caught" (by which),
     else "missed" (or "inconclusive" if a check could not run).
One JSON line per mutant is appended to the output file (default /verif/mutation/results.jsonl);
finished (file, index) pairs are skipped on restart. Nothing is ever written to /repo."""
import json, os, shutil, subprocess, sys, threading, time, collections, queue

args = sys.argv[1:]
jobs, files, kinds, maxper, out = 4, None, None, 0, '/verif/mutation/results.jsonl'
i = 0
while i < len(args):
    a = args[i]
    if a == '-j': jobs = int(args[i + 1]); i += 1
    elif a == '--files': files = args[i + 1].split(','); i += 1
    elif a == '--kinds': kinds = set(args[i + 1].split(',')); i += 1
    elif a == '--max-per-file': maxper = int(args[i + 1]); i += 1
    elif a == '--out': out = args[i + 1]; i += 1
    i += 1

ENV = dict(os.environ, GOFLAGS='-mod=mod', GOPROXY='off', GOSUMDB='off', GOTOOLCHAIN='local')
MUTGEN = '/verif/build/bin/mutgen'
if not os.path.exists(MUTGEN):
    subprocess.check_call(['go', 'build', '-o', MUTGEN, '.'], cwd='/verif/driver/mutate', env=ENV)

# file -> properties (from the anchors of the given properties)
anch = collections.defaultdict(list)
for l in open('/verif/properties.jsonl'):
    p = json.loads(l)
    for f in p['anchors']['files']:
        anch[f].append(p['id'])
# rough cost order of the quick checks (seconds), cheapest first
COST = dict(C01=15, C02=12, C03=3, C04=5, C05=8, C06=3, C07=2, C08=3, C09=3, C10=10, C11=15, C12=15, C13=3, C14=12, C15=40,
            C16=6, C17=8, C18=10, C19=15, C20=20)
# C15 (determinism, race build, 40 s) is only run for the file that holds the concurrent section
for f in anch:
    if 'C15' in anch[f] and f != 'cmd/benchstat/internal/benchtab/builder.go' and len(anch[f]) > 1:
        anch[f].remove('C15')
if files is None:
    files = sorted(f for f in anch if os.path.exists('/repo/' + f))

done = set()
os.makedirs(os.path.dirname(out), exist_ok=True)
if os.path.exists(out):
    for l in open(out):
        try:
            r = json.loads(l); done.add((r['file'], r['idx']))
        except Exception:
            pass

work = []
for f in files:
    lst = subprocess.run([MUTGEN, '-list', '/repo/' + f], stdout=subprocess.PIPE, text=True).stdout.splitlines()
    ms = []
    for l in lst:
        idx, line, kind, desc = l.split('\t', 3)
        if kinds and kind not in kinds:
            continue
        ms.append((f, int(idx), int(line), kind, desc))
    if maxper and len(ms) > maxper:
        step = len(ms) / maxper
        ms = [ms[int(k * step)] for k in range(maxper)]
    work += [m for m in ms if (m[0], m[1]) not in done]
print('%d mutants to run (%d already done), %d workers' % (len(work), len(done), jobs), flush=True)

q = queue.Queue()
for w in work:
    q.put(w)
lock = threading.Lock()
root = os.environ.get('MUTCAMP_ROOT', '/tmp/mutcamp')
os.makedirs(root, exist_ok=True)

def run(cmd, cwd, timeout, env=ENV):
    try:
        p = subprocess.run(cmd, cwd=cwd, env=env, stdout=subprocess.PIPE, stderr=subprocess.STDOUT, text=True, timeout=timeout)
        return p.returncode, p.stdout
    except subprocess.TimeoutExpired as e:
        return 124, (e.stdout or b'').decode('utf8', 'replace') if isinstance(e.stdout, bytes) else (e.stdout or '')

def worker(wi):
    wd = '%s/w%d' % (root, wi)
    repo = wd + '/repo'
    shutil.rmtree(wd, ignore_errors=True)
    os.makedirs(wd)
    subprocess.check_call(['rsync', '-a', '--exclude', '.git', '/repo/', repo + '/'])
    while True:
        try:
            f, idx, line, kind, desc = q.get_nowait()
        except queue.Empty:
            break
        t0 = time.time()
        rec = dict(file=f, idx=idx, line=line, kind=kind, desc=desc)
        orig = open('/repo/' + f, 'rb').read()
        mut = subprocess.run([MUTGEN, '-apply', str(idx), '/repo/' + f], stdout=subprocess.PIPE).stdout
        try:
            open(repo + '/' + f, 'wb').write(mut)
            # first the packages that can see the mutated file (the storage tree is self-contained and
            # slow to link), then - only for mutants that got through - the whole suite as confirmation
            if f.startswith('storage/'):
                near = ['./storage/...', './analysis/...', './cmd/benchsave/...']
            else:
                near = ['./benchfmt/...', './benchmath/...', './benchproc/...', './benchseries/...', './benchstat/...', './benchunit/...',
                        './cmd/benchstat/...', './cmd/benchseries/...', './cmd/benchfilter/...', './internal/...']
                if f.startswith('benchstat/') or f.startswith('internal/stats/'):
                    near.append('./analysis/...')
            rc, o = run(['go', 'test', '-count=1', '-vet=off', '-timeout', '90s'] + near, repo, 400)
            if rc != 0 and '[build failed]' in o and '--- FAIL' not in o and 'panic:' not in o:
                rec['status'] = 'nocompile'
            elif rc != 0:
                rec['status'] = 'suite'
            else:
                rc, o = run(['go', 'test', '-count=1', '-vet=off', '-timeout', '90s', './...'], repo, 400)
                if rc != 0:
                    rec['status'] = 'suite'
                else:
                    rec['status'] = 'missed'
                    rec['checks'] = {}
                    for p in sorted(anch.get(f, []), key=lambda p: COST.get(p, 20)):
                        bd = '%s/build-%s' % (wd, p)
                        shutil.rmtree(bd, ignore_errors=True)
                        t1 = time.time()
                        rc, o = run(['/verif/vcheck', '-p', p, '-tier', 'quick'], '/verif', 900, dict(ENV, VERIF_REPO=repo, VERIF_BUILD=bd))
                        viol = [l.strip() for l in o.splitlines() if l.strip().startswith('violation in')]
                        rec['checks'][p] = dict(exit=rc, wall=round(time.time() - t1, 1), first=(viol[0][:300] if viol else ''))
                        if rc not in (0, 1):
                            rec['checks'][p]['tail'] = o[-400:]
                        shutil.rmtree(bd, ignore_errors=True)
                        if rc == 1:
                            rec['status'] = 'caught'; rec['by'] = p
                            break
                        if rc != 0:
                            rec['status'] = 'inconclusive'
        finally:
            open(repo + '/' + f, 'wb').write(orig)
        rec['wall'] = round(time.time() - t0, 1)
        with lock:
            with open(out, 'a') as fh:
                fh.write(json.dumps(rec) + '\n')
            print('%s #%d L%d %s: %s%s  [%s]' % (f, idx, line, kind, rec['status'], (' by ' + rec['by']) if 'by' in rec else '', desc[:60]), flush=True)
    shutil.rmtree(wd, ignore_errors=True)

ts = [threading.Thread(target=worker, args=(k,)) for k in range(jobs)]
for t in ts: t.start()
for t in ts: t.join()
print('campaign finished', flush=True)
