#!/usr/bin/env python3
"""mutsum.py [results.jsonl] [--missed] [--file F] — summary of a mutation campaign."""
import json, sys, collections
args = sys.argv[1:]
path = '/verif/mutation/results.jsonl'
show_missed = '--missed' in args
only = None
if '--file' in args:
    only = args[args.index('--file') + 1]
for a in args:
    if a.endswith('.jsonl'):
        path = a
rows = [json.loads(l) for l in open(path) if l.strip()]
if only:
    rows = [r for r in rows if r['file'] == only]
tot = collections.Counter(r['status'] for r in rows)
print('mutants: %d  ' % len(rows) + '  '.join('%s=%d' % kv for kv in sorted(tot.items())))
surv = tot['caught'] + tot['missed'] + tot['inconclusive']
if surv:
    print('survive the repository\'s own tests: %d; of these caught by the checks: %d (%.1f%%), missed: %d, inconclusive: %d' % (
        surv, tot['caught'], 100.0 * tot['caught'] / surv, tot['missed'], tot['inconclusive']))
byfile = collections.defaultdict(collections.Counter)
for r in rows:
    byfile[r['file']][r['status']] += 1
print('%-52s %6s %6s %6s %6s %6s' % ('file', 'nocomp', 'suite', 'caught', 'missed', 'incon'))
for f in sorted(byfile):
    c = byfile[f]
    print('%-52s %6d %6d %6d %6d %6d' % (f, c['nocompile'], c['suite'], c['caught'], c['missed'], c['inconclusive']))
if show_missed:
    for r in rows:
        if r['status'] in ('missed', 'inconclusive'):
            print('%s %s #%d L%d %s: %s  checks=%s' % (r['status'].upper(), r['file'], r['idx'], r['line'], r['kind'], r['desc'],
                  {p: c['exit'] for p, c in r.get('checks', {}).items()}))
