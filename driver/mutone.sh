#!/bin/bash
# mutone.sh <file> <mutant-index> <property> [vcheck args] — run a check against one mutant of driver/mutate/mutgen.go
f=$1; idx=$2; pid=$3; shift 3
d=$(mktemp -d /tmp/mutone-XXXX)
rsync -a --exclude .git /repo/ $d/repo/
/verif/build/bin/mutgen -apply $idx /repo/$f > $d/repo/$f || { rm -rf $d; exit 3; }
diff <(cat /repo/$f) $d/repo/$f | head -6
VERIF_REPO=$d/repo VERIF_BUILD=$d/build /verif/vcheck -p $pid "$@" | grep -E "VIOLATION|violation in|INCONCLUSIVE|^C[0-9]+ tier" | head -6 | cut -c1-400
rc=${PIPESTATUS[0]}
rm -rf $d
echo "exit=$rc"
