module verif/mutgen

go 1.23
