// mutgen enumerates small syntactic mutants of one Go source file.
//
//	mutgen -list file.go          one line per mutant: index, line, kind, description
//	mutgen -apply N file.go       the file's text with mutant N applied (stdout)
//
// Mutants are textual edits at AST positions (the rest of the file stays byte
// for byte, so a mutant is a one-token diff):
//
//	op      binary operator swapped (< <=, > >=, == !=, && ||, + -, * /)
//	lit     integer literal n -> n+1 (and 1 -> 0)
//	neg     if / for condition negated
//	bool    true <-> false
//	del     expression, inc/dec or assignment statement removed
//	brk     break <-> continue
//	ret     "return x" of a bool/err-less single value? no: only `return` of named results untouched
//
// Mutants that do not compile are discarded by the campaign driver.
package main

import (
	"flag"
	"fmt"
	"go/ast"
	"go/parser"
	"go/token"
	"os"
	"sort"
	"strconv"
)

type edit struct {
	start, end int // byte offsets in the source
	repl       string
	line       int
	kind, desc string
}

var swaps = map[token.Token]string{
	token.LSS: "<=", token.LEQ: "<", token.GTR: ">=", token.GEQ: ">",
	token.EQL: "!=", token.NEQ: "==", token.LAND: "||", token.LOR: "&&",
	token.ADD: "-", token.SUB: "+", token.MUL: "/", token.QUO: "*",
}

func main() {
	list := flag.Bool("list", false, "list mutants")
	apply := flag.Int("apply", -1, "apply mutant N")
	flag.Parse()
	if flag.NArg() != 1 {
		fmt.Fprintln(os.Stderr, "usage: mutgen (-list | -apply N) file.go")
		os.Exit(2)
	}
	path := flag.Arg(0)
	src, err := os.ReadFile(path)
	if err != nil {
		fmt.Fprintln(os.Stderr, err)
		os.Exit(2)
	}
	fset := token.NewFileSet()
	f, err := parser.ParseFile(fset, path, src, parser.ParseComments)
	if err != nil {
		fmt.Fprintln(os.Stderr, err)
		os.Exit(2)
	}
	off := func(p token.Pos) int { return fset.Position(p).Offset }
	line := func(p token.Pos) int { return fset.Position(p).Line }
	var edits []edit
	add := func(s, e token.Pos, repl, kind, desc string) {
		edits = append(edits, edit{off(s), off(e), repl, line(s), kind, desc})
	}
	inConstDecl := map[ast.Node]bool{}
	ast.Inspect(f, func(n ast.Node) bool {
		switch x := n.(type) {
		case *ast.GenDecl:
			if x.Tok == token.IMPORT {
				return false
			}
			if x.Tok == token.CONST {
				inConstDecl[x] = true
			}
		case *ast.BinaryExpr:
			if r, ok := swaps[x.Op]; ok {
				// string concatenation "+" -> "-" never compiles; cheap to let the compiler reject it
				add(x.OpPos, x.OpPos+token.Pos(len(x.Op.String())), r, "op", x.Op.String()+" -> "+r)
			}
		case *ast.BasicLit:
			if x.Kind == token.INT {
				if v, err := strconv.ParseInt(x.Value, 0, 64); err == nil && v < 1<<31 {
					add(x.Pos(), x.End(), strconv.FormatInt(v+1, 10), "lit", x.Value+" -> "+strconv.FormatInt(v+1, 10))
					if v == 1 {
						add(x.Pos(), x.End(), "0", "lit", "1 -> 0")
					}
				}
			}
		case *ast.IfStmt:
			if x.Cond != nil {
				add(x.Cond.Pos(), x.Cond.End(), "!("+string(src[off(x.Cond.Pos()):off(x.Cond.End())])+")", "neg", "if condition negated")
			}
		case *ast.ForStmt:
			if x.Cond != nil {
				add(x.Cond.Pos(), x.Cond.End(), "!("+string(src[off(x.Cond.Pos()):off(x.Cond.End())])+")", "neg", "for condition negated")
			}
		case *ast.Ident:
			if x.Name == "true" && x.Obj == nil {
				add(x.Pos(), x.End(), "false", "bool", "true -> false")
			} else if x.Name == "false" && x.Obj == nil {
				add(x.Pos(), x.End(), "true", "bool", "false -> true")
			}
		case *ast.BranchStmt:
			if x.Label == nil {
				switch x.Tok {
				case token.BREAK:
					add(x.Pos(), x.End(), "continue", "brk", "break -> continue")
				case token.CONTINUE:
					add(x.Pos(), x.End(), "break", "brk", "continue -> break")
				}
			}
		case *ast.BlockStmt:
			for _, st := range x.List {
				switch s := st.(type) {
				case *ast.ExprStmt, *ast.IncDecStmt:
					add(s.Pos(), s.End(), "", "del", "statement removed: "+clip(string(src[off(s.Pos()):off(s.End())])))
				case *ast.AssignStmt:
					if s.Tok != token.DEFINE {
						add(s.Pos(), s.End(), "", "del", "assignment removed: "+clip(string(src[off(s.Pos()):off(s.End())])))
					}
				}
			}
		case *ast.CaseClause:
			for _, st := range x.Body {
				switch s := st.(type) {
				case *ast.ExprStmt, *ast.IncDecStmt:
					add(s.Pos(), s.End(), "", "del", "statement removed: "+clip(string(src[off(s.Pos()):off(s.End())])))
				case *ast.AssignStmt:
					if s.Tok != token.DEFINE {
						add(s.Pos(), s.End(), "", "del", "assignment removed: "+clip(string(src[off(s.Pos()):off(s.End())])))
					}
				}
			}
		}
		return true
	})
	sort.SliceStable(edits, func(i, j int) bool { return edits[i].start < edits[j].start })
	if *list {
		for i, e := range edits {
			fmt.Printf("%d\t%d\t%s\t%s\n", i, e.line, e.kind, e.desc)
		}
		return
	}
	if *apply < 0 || *apply >= len(edits) {
		fmt.Fprintln(os.Stderr, "no such mutant")
		os.Exit(2)
	}
	e := edits[*apply]
	os.Stdout.Write(src[:e.start])
	os.Stdout.WriteString(e.repl)
	os.Stdout.Write(src[e.end:])
}

func clip(s string) string {
	out := []rune{}
	for _, r := range s {
		if r == '\n' || r == '\t' {
			r = ' '
		}
		out = append(out, r)
		if len(out) >= 70 {
			out = append(out, '…')
			break
		}
	}
	return string(out)
}
