# Per-property unit tables for vcheck. Each unit is one test function in one
# test binary; "mode" A = /verif/harness package, B = overlay test inside /repo.

def R(name, mode, pkg, test, q, t, **kw):
    d = dict(name=name, mode=mode, pkg=pkg, test=test, kind="rapid",
             quick=dict(checks=q[0], shards=q[1]), thorough=dict(checks=t[0], shards=t[1]))
    d.update(kw)
    return d

def E(name, mode, pkg, test, qshards=1, tshards=16, **kw):
    d = dict(name=name, mode=mode, pkg=pkg, test=test, kind="enum",
             quick=dict(shards=qshards), thorough=dict(shards=tshards))
    d.update(kw)
    return d

def F(name, pkg, test, secs, **kw):
    d = dict(name=name, mode="A", pkg=pkg, test=test, kind="fuzz", tiers=("thorough",),
             thorough=dict(fuzztime=secs))
    d.update(kw)
    return d

