# Loads the per-property unit tables from driver/props/*.py (one file per
# property, each defining PROP = dict(id=..., level=..., rule=..., units=[...])).
import glob, importlib.util, os, sys
_here = os.path.dirname(os.path.abspath(__file__))
sys.path.insert(0, _here)
PROPS = {}
for _f in sorted(glob.glob(os.path.join(_here, "props", "c*.py"))):
    _spec = importlib.util.spec_from_file_location("prop_" + os.path.basename(_f)[:-3], _f)
    _m = importlib.util.module_from_spec(_spec)
    _spec.loader.exec_module(_m)
    PROPS[_m.PROP["id"]] = _m.PROP

# Properties not (yet) claimed. Kept current automatically: everything in
# properties.jsonl without a unit table.
ALL_IDS = ["C%02d" % i for i in range(1, 21)]
NOT_APPLICABLE_REASONS = {}
# Only properties listed in driver/claimed.txt are claimed in MANIFEST.json
# (a check is added there once it runs clean on the unchanged tree).
CLAIMED = [l.strip() for l in open(os.path.join(_here, "claimed.txt")) if l.strip() and not l.startswith("#")]
NOT_APPLICABLE = [
    {"property_id": i, "reason": NOT_APPLICABLE_REASONS.get(i, "check under construction in this session; not claimed until it runs clean on the unchanged tree")}
    for i in ALL_IDS if i not in PROPS or i not in CLAIMED
]
