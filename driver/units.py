# Per-property unit tables for vcheck. Each unit is one test function in one
# test binary; "mode" A = /verif/harness package, B = overlay test inside /repo.

def R(name, mode, pkg, test, q, t, **kw):
    d = dict(name=name, mode=mode, pkg=pkg, test=test, kind="rapid",
             quick=dict(checks=q[0], shards=q[1]), thorough=dict(checks=t[0], shards=t[1]))
    d.update(kw)
    return d

def E(name, mode, pkg, test, qshards=1, tshards=16, **kw):
    d = dict(name=name, mode=mode, pkg=pkg, test=test, kind="enum",
             quick=dict(shards=qshards), thorough=dict(shards=tshards))
    d.update(kw)
    return d

def F(name, pkg, test, secs, **kw):
    d = dict(name=name, mode="A", pkg=pkg, test=test, kind="fuzz", tiers=("thorough",),
             thorough=dict(fuzztime=secs))
    d.update(kw)
    return d

PROPS = {}


PROPS["C03"] = dict(
    level="exploration",
    level_text=("Differential property-based testing of the reader's number parsing against strconv on generated numeric "
                "texts aimed at rounding boundaries (exact decimal midpoints computed with math/big), range edges and "
                "near-miss spellings; searches for a counterexample, does not prove absence."),
    level_note="Trusted: Go standard library strconv (oracle), math/big (midpoint construction). Inputs are single white-space-free fields below the scanner's line limit.",
    technique="property-based differential testing (rapid) + enumerated hostile constants + native fuzzing in thorough",
    rule=("One-line inputs 'BenchmarkX 1 <txt> u' / 'BenchmarkX <txt> 1 u' with <txt> from four aimed generators "
          "(numeric grammar incl. hex/underscore/inf/nan spellings; float-derived texts incl. exact decimal midpoints "
          "between adjacent floats and their neighbours; range-edge constants; integers around 2^53/2^63/2^64 and the "
          "fast-path guard) plus single-edit mutations; oracle strconv.ParseFloat/Atoi bit-for-bit. Non-trivial = strconv "
          "accepts the text and it is not a plain <=15-digit integer (value) / <=9-digit integer (iters), or strconv rejects "
          "it with ErrRange. Distinct = distinct case JSON (64-bit FNV), capped at 300000 per shard."),
    assumptions=["strconv.ParseFloat and strconv.Atoi of the Go standard library are correct (trusted oracle)"],
    units=[
        R("rapid", "A", "./c03", "TestC03Rapid", (60000, 4), (1500000, 16)),
        E("fixed", "A", "./c03", "TestC03Fixed", 1, 1),
    ],
)


# Properties not (yet) claimed. Kept current automatically: everything in
# properties.jsonl without a unit table above.
ALL_IDS = ["C%02d" % i for i in range(1, 21)]
NOT_APPLICABLE_REASONS = {}
NOT_APPLICABLE = [
    {"property_id": i, "reason": NOT_APPLICABLE_REASONS.get(i, "check under construction in this session; not claimed until it runs clean on the unchanged tree")}
    for i in ALL_IDS if i not in PROPS
]
