#!/bin/bash
# mut.sh <pid> <file-relative-to-repo> <sed-expression> [extra vcheck args]
# Applies a one-line mutation to a scratch copy of /repo, runs the quick check, cleans up.
pid=$1; file=$2; expr=$3; shift 3
d=$(mktemp -d /tmp/mut-$pid-XXXX)
rsync -a --exclude .git /repo/ $d/repo/
sed -i "$expr" $d/repo/$file
if diff -q /repo/$file $d/repo/$file >/dev/null; then echo "MUTATION DID NOT APPLY: $expr"; rm -rf $d; exit 3; fi
diff /repo/$file $d/repo/$file | head -6
VERIF_REPO=$d/repo VERIF_BUILD=$d/build /verif/vcheck -p $pid "$@" | grep -E "VIOLATION|violation in|INCONCLUSIVE|^C[0-9]+ tier" | head -6
rc=${PIPESTATUS[0]}
rm -rf $d
echo "exit=$rc"
