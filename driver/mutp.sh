#!/bin/bash
# mutp.sh <pid> <patch-file> [extra vcheck args] — applies a patch (git diff format, relative to repo root) to a scratch copy, runs the quick check.
pid=$1; patch=$(realpath $2); shift 2
d=$(mktemp -d /tmp/mutp-$pid-XXXX)
rsync -a --exclude .git /repo/ $d/repo/
(cd $d/repo && patch -p1 -s < $patch) || { echo "PATCH DID NOT APPLY"; rm -rf $d; exit 3; }
VERIF_REPO=$d/repo VERIF_BUILD=$d/build /verif/vcheck -p $pid "$@" | grep -E "VIOLATION|violation in|INCONCLUSIVE|^C[0-9]+ tier|KNOWN" | head -8
rc=${PIPESTATUS[0]}
rm -rf $d
echo "exit=$rc"
