#!/usr/bin/env python3
"""muttriage.py [--file F] [--skip N] — missed/inconclusive mutants with the source line and the mutated line."""
import json, sys, subprocess
args=sys.argv[1:]
only=args[args.index('--file')+1] if '--file' in args else None
skip=int(args[args.index('--skip')+1]) if '--skip' in args else 0
rows=[json.loads(l) for l in open('/verif/mutation/results.jsonl') if l.strip()]
rows=[r for r in rows if r['status'] in ('missed','inconclusive') and (not only or r['file']==only)]
tri={}
try:
    for l in open('/verif/mutation/triage.tsv'):
        f,i,v,_=l.rstrip('\n').split('\t',3); tri[(f,int(i))]=v
except FileNotFoundError: pass
rows=[r for r in rows if (r['file'],r['idx']) not in tri]
for r in rows[skip:]:
    src=open('/repo/'+r['file']).read().split('\n')
    mut=subprocess.run(['/verif/build/bin/mutgen','-apply',str(r['idx']),'/repo/'+r['file']],stdout=subprocess.PIPE,text=True).stdout.split('\n')
    ln=r['line']-1
    print('%s #%d L%d %s [%s]'%(r['file'],r['idx'],r['line'],r['kind'],r['status']))
    print('   - '+src[ln].strip()[:150])
    if r['kind']!='del': print('   + '+(mut[ln].strip()[:150] if ln<len(mut) else ''))
